"""C15 - Pattern scanners report exactly the true occurrences (structural conditions).

Subjects are located by role: the haystack is `<carry> + <block read from the stream parameter>`, the match index is the
local every `hay.find(needle, ..)` result is bound to, the position is the local bound to `fp.tell()`; for the ArtifactKit
scanner the position variable is the argument of the loop's `seek`, the header is the first 4-byte read after it.  A
subject that cannot be located is undecided, a located subject that fails its condition is violated.

Technique (numbers: ALLOWED devices of RULES_GUIDE.md, "What counts as static here")
  R1  3 (provenance of every definition of the carry: empty constant, slice of the previous haystack; anything else is
      synthetic bytes), 2 (yields guarded by a start comparison).
  R2  4 (interval abstract interpretation - csverif.absint.Interp - of the tail-slice bound under `needle non-empty`:
      the interval must exclude 0, or the slice is guarded by the bound's truthiness; lemma: `d[-0:]` is all of d).
  R3  3 (the yielded value with single-definition temporaries substituted, in polynomial normal form: position before the
      read + match index - len(carry)), 2 (the carry is not rebound between its concatenation and the statement that takes
      its length; `tell()` dominates the read with no other movement of the file in between; the start seek is guarded by
      `start_offset is not None`).
  R4  3 + 5 (every binding of the match index is one of the finitely many forms `-1`, `find(needle)`, `find(needle, 0)`
      (start of a new haystack) or `find(needle, index + 1)`), 3 (carry length = len(needle) - 1 in polynomial normal form),
      2 (outer loop exits only under the empty-read or the limit test - dominating conditions).
  R5  2 + 3 (stop conditions of `if` tests and loop headers in negation normal form: the limit applies only when
      max_offset is truthy and compares strictly with the block start or the match index), 6 (default).
  R6  2 (loop progress, csverif.loops), 3 (all rebindings of the position add exactly 1 - polynomial difference; the header
      test `<little-endian unsigned 32-bit decode of the 4 header bytes> ==/!= <position> + 16` with the decode recognised
      through resolved `utils.unpack` partials / `int.from_bytes` and the header bytes followed by reaching definitions;
      every path from the matching edge passes the yield before the next offset (no conditional skip of a match); the field reads on the matching edge in evaluation order with constant widths 4, 4, 8 and the decoded size; the
      record fields bound by NamedTuple field order and followed to those reads), 6 (constants).

R4 (addition, round 8, seeded C15o)  the header of the scanner's outer loop is an exit like its breaks: discharged when it is the
     emptiness of the block read or the limit test, violated when it is (a flag whose only non-constant definition is) an ordering
     comparison of len(<block>) with anything but 0/1 - a read shorter than requested taken for the end of the file -, undecided
     otherwise.  Technique: syntax-tree query with def-use of the flag by name.
"""

from __future__ import annotations

import ast
from typing import List, Optional, Tuple

from csverif import absint, loops
from csverif.absint import sympoly, SymPoly
from csverif.astutil import (
    assignments_to, body_walk, compare_parts, conjuncts, const_eval, disjuncts, dotted, fn_calls, is_const, kwarg,
    NotConst, param_defaults, params, src, statements, walk_no_nested,
)
from csverif.astutil import nnf
from csverif.q import FuncView, guarded_by, inline, origin, dominating_conditions


def _c(node):
    try:
        return const_eval(node) if node is not None else None
    except (NotConst, TypeError):
        return None


class Scanner:
    """Facts extracted from utils.iter_find_needle."""

    def __init__(self, ctx):
        self.ctx = ctx
        self.f = f = ctx.repo.func("utils.iter_find_needle")
        self.ps = params(f.node)  # fp, needle, start_offset, max_offset
        self.fv = FuncView.of(f.node)
        self.cfg = ctx.cfg(f)
        self.finds = [c for c in fn_calls(f.node) if isinstance(c.func, ast.Attribute) and c.func.attr == "find" and c.args and dotted(c.args[0]) == self.ps[1]]
        self.hay = dotted(self.finds[0].func.value) if self.finds else None
        self.carry = self.block = None
        self.hay_def = None
        if self.hay:
            defs = assignments_to(f.node, self.hay)
            if len(defs) == 1 and isinstance(defs[0][1], ast.BinOp) and isinstance(defs[0][1].op, ast.Add):
                self.hay_def = defs[0][0]
                l, r = defs[0][1].left, defs[0][1].right
                for a, b in ((l, r), (r, l)):
                    o = origin(f.node, b)
                    if isinstance(o, ast.Call) and isinstance(o.func, ast.Attribute) and o.func.attr == "read" and dotted(o.func.value) == self.ps[0]:
                        self.block, self.carry = dotted(b), dotted(a)
                        self.read_call = o
                        self.carry_first = a is l
        self.yields = [n for n in body_walk(f.node) if isinstance(n, ast.Yield)]
        self.whiles = [s for s in statements(f.node) if isinstance(s, ast.While)]

    def ok(self) -> bool:
        return bool(self.finds and self.hay and self.carry and self.block and self.yields and len(self.whiles) == 2)


def _emit(ctx, prefix, sub, kind, f, text, ok, detail, node=None):
    rule = f"{prefix}" if prefix.startswith("R8") else sub
    if prefix.startswith("R8"):
        text = f"[{sub}] {text}"
    return ctx.ob(rule, kind, f, text, ok, detail, node)


def scanner_obligations(ctx, rule_prefix: str = ""):
    """Evaluate R1-R5 for iter_find_needle; returns True iff R1 and R3 hold (offsets >= start), False when a located
    scanner violates them, None when the scanner shape is not recognised (undecided)."""
    s = Scanner(ctx)
    f = s.f
    P = rule_prefix
    if not s.ok():
        # the scanner has been re-implemented in a form these rules do not understand (e.g. one rolling window): nothing is
        # claimed about it (undecided); consumers of the scanner summary (the escape analysis) cannot use the summary then
        rule = P if P.startswith("R8") else "R1"
        ctx.undecided(rule, "TAINT", f, ("[R1] " if P.startswith("R8") else "") + "scanner shape",
                      "iter_find_needle is not `hay = carry + fp.read(..)` searched with hay.find(needle, ..) in two nested loops")
        return None
    # ---- R1: provenance of the carry
    r1 = True
    for st, v in assignments_to(f.node, s.carry):
        if v is None:
            r1 = False
            _emit(ctx, P, "R1", "TAINT", f, f"{s.carry} bound by {src(st)[:40]}", False, "carry bound by a non-expression binding", st)
            continue
        cv = _c(v)
        if isinstance(cv, bytes) and len(cv) == 0:
            _emit(ctx, P, "R1", "TAINT", f, f"{s.carry} = {src(v)}", True, "initial carry is empty: every searched byte comes from the file", st)
            continue
        if isinstance(v, ast.Subscript) and isinstance(v.slice, ast.Slice) and dotted(v.value) == s.hay:
            _emit(ctx, P, "R1", "TAINT", f, f"{s.carry} = {src(v)}", True, "carry is a slice of the previous haystack (file bytes)", st)
            continue
        if isinstance(v, ast.IfExp) and all((isinstance(x, ast.Subscript) and dotted(x.value) == s.hay) or (isinstance(_c(x), bytes) and len(_c(x)) == 0) for x in (v.body, v.orelse)):
            _emit(ctx, P, "R1", "TAINT", f, f"{s.carry} = {src(v)}", True, "carry is a slice of the previous haystack or empty", st)
            continue
        # synthetic bytes: only acceptable if every yield is guarded by a comparison with the scan start
        guarded = all(guarded_by(ctx, f, y, lambda t: True if any(isinstance(op, (ast.GtE, ast.Gt)) and "offset" in src(l) for l, op, r in compare_parts(t)) else None) for y in s.yields)
        r1 = r1 and guarded
        _emit(ctx, P, "R1", "TAINT", f, f"{s.carry} = {src(v)}", guarded,
              f"carry is seeded with synthetic bytes ({src(v)}): they can complete a match that is not in the file and yield an offset before the scan start"
              + ("; yields are guarded by a start comparison" if guarded else ""), st)
    # ---- R2: tail slice bound excludes 0
    it = absint.Interp(f.node, {s.ps[1]: absint.abytes(1, None), s.ps[3]: absint.aint(0, None)})
    it.run()
    for st, v in assignments_to(f.node, s.carry):
        for sub in ([v] if v is not None else []):
            for n in ast.walk(sub):
                if isinstance(n, ast.Subscript) and isinstance(n.slice, ast.Slice) and dotted(n.value) == s.hay:
                    lo = n.slice.lower
                    if isinstance(lo, ast.UnaryOp) and isinstance(lo.op, ast.USub):
                        k = lo.operand
                        env = it.before.get(id(st), {})
                        kv = it.ev(k, env)
                        zero_excluded = kv.kind == "int" and kv.itv.excludes(0)
                        # guarded by truthiness of k: IfExp around the slice or an enclosing if
                        g = False
                        par = s.fv.parent.get(id(n))
                        if isinstance(par, ast.IfExp) and par.body is n and src(par.test) == src(k):
                            g = True
                        g = g or guarded_by(ctx, f, st, lambda t: True if src(t) == src(k) else None)
                        _emit(ctx, P, "R2", "ABS", f, f"{s.carry} = {src(v)}", zero_excluded or g,
                              f"tail slice {src(n)}: {src(k)} has interval {kv.itv} for a non-empty needle" + ("" if zero_excluded or g else
                              "; for 0 the slice `d[-0:]` is the whole buffer (1-byte needles get duplicate/garbage offsets)") + ("; guarded by its truthiness" if g else ""), st)
                    elif isinstance(lo, ast.BinOp) and isinstance(lo.op, ast.Sub) and isinstance(lo.left, ast.Call) and dotted(lo.left.func) == "len":
                        _emit(ctx, P, "R2", "ABS", f, f"{s.carry} = {src(v)}", True, f"tail slice {src(n)} is length-based (correct for 0)", st)
    # ---- R3: offset algebra
    r3 = True
    find = s.finds[0]
    # the match-index variable: the local every hay.find(needle, ..) result is bound to
    pvars = {dotted(s.fv.stmt_of(c).targets[0]) for c in s.finds if isinstance(s.fv.stmt_of(c), ast.Assign) and s.fv.stmt_of(c).value is c}
    pvar = next(iter(pvars)) if len(pvars) == 1 else None
    pos_defs = [(st, v) for st, v in assignments_to(f.node, "pos")] if True else []
    # the position variable: a local defined by fp.tell()
    posvar = None
    for st in statements(f.node):
        if isinstance(st, ast.Assign) and isinstance(st.value, ast.Call) and isinstance(st.value.func, ast.Attribute) and st.value.func.attr == "tell" and dotted(st.value.func.value) == s.ps[0]:
            posvar = dotted(st.targets[0])
            pos_st = st
    read_st = s.fv.stmt_of(s.read_call)
    for y in s.yields:
        yv = inline(f.node, y.value, stop=frozenset(x for x in (posvar, pvar, s.carry, s.hay, s.block) if x)) if y.value is not None else None
        poly = sympoly(yv) if yv is not None else None
        ok = False
        detail = f"yield {src(yv)}: not of the form <tell before read> + <match index> - <carry length>"
        # where len(<carry>) is evaluated (the yield itself or a temporary it uses), the carry must still be the one that
        # was concatenated into the haystack: no rebinding of the carry between the concatenation and that statement
        stale = False
        if s.hay_def is not None:
            cfg0 = s.cfg
            evals = [y] + [st0 for st0 in statements(f.node) if isinstance(st0, ast.Assign) and any(isinstance(n0, ast.Call) and dotted(n0.func) == "len" and n0.args and dotted(n0.args[0]) == s.carry for n0 in ast.walk(st0.value))]
            hn = cfg0.node(s.hay_def)
            for ev in evals:
                est = s.fv.stmt_of(ev) if not isinstance(ev, ast.stmt) else ev
                if not cfg0.has(est):
                    continue
                en = cfg0.node(est)
                # the length may be taken after the concatenation (hay_def .. est) or before it in the same round
                # (est .. hay_def, est dominating the concatenation): in either case no rebinding of the carry in between
                first, second = (en, hn) if en != hn and cfg0.dominates(en, hn) and not cfg0.dominates(hn, en) else (hn, en)
                for dst, _v in assignments_to(f.node, s.carry):
                    if cfg0.has(dst) and cfg0.reaches(first, cfg0.node(dst), avoiding=[second]) and cfg0.reaches(cfg0.node(dst), second, avoiding=[first]):
                        stale = True
        if poly is not None and posvar and pvar:
            base = SymPoly.atom(posvar) + SymPoly.atom(pvar)
            L = base - poly  # what is subtracted
            want_len = SymPoly.atom(f"len({s.carry})")
            if L == want_len:
                ok = s.carry_first and not stale
                detail = f"offset = {posvar} + {pvar} - len({s.carry}): exactly the length of the carry as concatenated" + ("; but the carry is rebound before its length is taken" if stale else "")
            else:
                # some other expression X: every definition of the carry must have length X
                atoms = L.atoms()
                if len(L.terms) == 1 and len(atoms) == 1:
                    X = next(iter(atoms))
                    alldefs = True
                    for st, v in assignments_to(f.node, s.carry):
                        good = False
                        if isinstance(v, ast.BinOp) and isinstance(v.op, ast.Mult):
                            a, b = (v.left, v.right) if isinstance(_c(v.left), bytes) else (v.right, v.left)
                            good = isinstance(_c(a), bytes) and len(_c(a)) == 1 and dotted(b) == X
                        elif isinstance(v, ast.Subscript) and isinstance(v.slice, ast.Slice) and isinstance(v.slice.lower, ast.UnaryOp) and dotted(v.slice.lower.operand) == X and v.slice.upper is None:
                            good = True  # len(hay) >= X because the carry in hay already has length X
                        alldefs = alldefs and good
                    ok = alldefs and s.carry_first
                    detail = f"offset = {posvar} + {pvar} - {X}: every definition of the carry has length {X}={alldefs}"
                else:
                    detail = f"offset = {src(yv)}: subtracts {L} which is not the carry length"
            # pos is taken before the read of this iteration, nothing moves the file in between
            if ok:
                cfg = s.cfg
                dom = cfg.dominates(cfg.node(pos_st), cfg.node(read_st))
                moved = False
                for c in fn_calls(f.node):
                    if isinstance(c.func, ast.Attribute) and c.func.attr in ("seek", "read") and dotted(c.func.value) == s.ps[0] and c is not s.read_call:
                        cst = s.fv.stmt_of(c)
                        if cfg.reaches(cfg.node(pos_st), cfg.node(cst), avoiding=[cfg.node(read_st)]) and cfg.reaches(cfg.node(cst), cfg.node(read_st), avoiding=[cfg.node(pos_st)]):
                            moved = True
                ok = dom and not moved
                detail += f"; {posvar} = fp.tell() dominates the read={dom}, no other file movement in between={not moved}"
        r3 = r3 and ok
        _emit(ctx, P, "R3", "CURSOR", f, "yield " + src(y.value), ok, detail, y)
    # ---- R4: restart, carry bound, outer exits
    # every search of a haystack starts at its beginning (p = -1 then find(.., p + 1), or find(needle[, 0])) and every later
    # search restarts at the previous match + 1 - all bindings of the match index are of one of these forms
    adv_finds, init_ok, bad_defs = [], True, []
    for st, v in (assignments_to(f.node, pvar) if pvar else []):
        if v is not None and _c(v) == -1:
            continue
        if isinstance(v, ast.Call) and any(v is c for c in s.finds):
            start = v.args[1] if len(v.args) > 1 else kwarg(v, "start")
            if start is None or _c(start) == 0:
                continue  # first search of this haystack, from its beginning
            # a start held in a temporary (`start = p + 1; p = hay.find(needle, start)`): the temporary's only definition
            # dominates the search and the match index is not rebound between the two
            if isinstance(start, ast.Name) and start.id != pvar:
                sd = [(s2, v2) for s2, v2 in assignments_to(f.node, start.id) if v2 is not None]
                cfg4 = s.cfg
                if len(sd) == 1 and len(assignments_to(f.node, start.id)) == 1 and cfg4.has(sd[0][0]) and cfg4.has(st) and cfg4.dominates(cfg4.node(sd[0][0]), cfg4.node(st)):
                    n0, n1 = cfg4.node(sd[0][0]), cfg4.node(st)
                    between = [cfg4.node(s3) for s3, _v3 in assignments_to(f.node, pvar) if s3 is not st and cfg4.has(s3)
                               and cfg4.reaches(n0, cfg4.node(s3), avoiding=[n1]) and cfg4.reaches(cfg4.node(s3), n1, avoiding=[n0])]
                    if not between:
                        start = sd[0][1]
            ps = sympoly(start) if start is not None else None
            if ps is not None and pvar and (ps - SymPoly.atom(pvar)).const_value() == 1:
                adv_finds.append(v)
                continue
        bad_defs.append(src(v) if v is not None else src(st)[:40])
    inner = s.fv.enclosing(adv_finds[0], (ast.While,)) if adv_finds else None
    adv = bool(adv_finds) and inner is not None and not bad_defs
    _emit(ctx, P, "R4", "LOOP", f, f"{pvar} = {s.hay}.find(needle, {pvar} + 1)", adv,
          f"every search restarts strictly after the previous match (or at the start of a new haystack)={adv}" + (f"; other bindings of {pvar}: {bad_defs}" if bad_defs else ""))
    for st, v in assignments_to(f.node, s.carry):
        if v is None:
            continue
        for n in ast.walk(v):
            if isinstance(n, ast.Subscript) and isinstance(n.slice, ast.Slice) and dotted(n.value) == s.hay:
                lo = n.slice.lower
                if n.slice.upper is not None and _c(lo if lo is not None else ast.Constant(value=0)) is not None \
                        and _c(lo if lo is not None else ast.Constant(value=0)) == _c(n.slice.upper):
                    continue  # `d[0:0]`-style constant empty slice: an empty carry, nothing to bound
                k = lo.operand if isinstance(lo, ast.UnaryOp) else (lo.right if isinstance(lo, ast.BinOp) else None)
                kp = _expand(f.node, k) if k is not None else None
                want = SymPoly.atom(f"len({s.ps[1]})") - SymPoly.const(1)
                _emit(ctx, P, "R4", "ABS", f, f"carry length {src(k)}", kp == want and n.slice.upper is None,
                      f"carry keeps the last {kp} bytes; required exactly len(needle) - 1 (no whole occurrence inside, no straddling occurrence lost)", st)
    outer = [w for w in s.whiles if w is not inner]
    if outer:
        o = outer[0]
        cfg = s.cfg
        H, brks = cfg.loops[id(o)]
        for b in brks:
            bst = cfg.stmt[b]
            dc = dominating_conditions(ctx, f, bst)
            conds = [("" if pol else "not ") + t for t, pol, n in dc]
            ok = any((t == s.block and not pol) or (pol and n is not None and _mentions(inline(f.node, n, stop=frozenset(x for x in (posvar, pvar, s.carry, s.hay, s.block) if x)), s.ps[3])) for t, pol, n in dc)
            _emit(ctx, P, "R4", "LOOP", f, "outer exit " + ("on empty read" if any(t == s.block and not pol for t, pol, n in dc) else "on limit" if ok else "under " + "; ".join(conds[-2:])), ok,
                  f"outer loop exit under {conds}: must be an empty read or the limit test", bst)
        # the loop header is an exit too (round 8, C15o: `eof = len(block) < block_size` ... `while not eof`): a read that
        # returns fewer bytes than asked for is not the end of the file (raw / unbuffered streams, pipes, wrappers), so a
        # header that stops on a *short* block loses every later occurrence.  Violated only when the header test is (a
        # flag bound to) an ordering comparison of len(<block>) - anything else that is not the emptiness of the block or
        # the limit is left undecided.
        if not (isinstance(o.test, ast.Constant) and bool(o.test.value)):
            ht = o.test
            flag_defs = []
            core = ht.operand if isinstance(ht, ast.UnaryOp) and isinstance(ht.op, ast.Not) else ht
            if isinstance(core, ast.Name):
                flag_defs = [v for st_, v in assignments_to(f.node, core.id) if v is not None and not isinstance(v, ast.Constant)]
            cands = flag_defs or [core]

            def _short_read(e):
                for n in ast.walk(e):
                    if isinstance(n, ast.Compare) and len(n.ops) == 1 and isinstance(n.ops[0], (ast.Lt, ast.LtE, ast.Gt, ast.GtE, ast.NotEq)):
                        sides = [n.left, n.comparators[0]]
                        lens = [x for x in sides if isinstance(x, ast.Call) and dotted(x.func) == "len" and x.args and dotted(x.args[0]) == s.block]
                        others = [x for x in sides if x not in lens]
                        if lens and others and not (isinstance(others[0], ast.Constant) and others[0].value in (0, 1)):
                            return n
                return None

            def _emptiness(e):
                if isinstance(e, ast.NamedExpr):
                    return dotted(e.target) == s.block
                if isinstance(e, ast.Name):
                    return e.id == s.block
                if isinstance(e, ast.Call) and dotted(e.func) == "len" and e.args:
                    return dotted(e.args[0]) == s.block
                return False

            sr = next((x for x in map(_short_read, cands) if x is not None), None)
            if sr is not None:
                _emit(ctx, P, "R4", "LOOP", f, "outer exit through the loop header", False,
                      f"the outer loop stops when `{src(sr)}` - a read shorter than requested is not the end of the file: "
                      f"occurrences behind the first short block are lost; the exit must be an empty read or the limit test", o)
            elif all(_emptiness(c) for c in cands) or any(_mentions(inline(f.node, c, stop=frozenset(x for x in (posvar, pvar, s.carry, s.hay, s.block) if x)), s.ps[3]) for c in cands):
                _emit(ctx, P, "R4", "LOOP", f, "outer exit through the loop header", True,
                      f"header test `{src(ht)}` is the emptiness of the block read or the limit test", o)
            else:
                ctx.undecided(P if P.startswith("R8") else "R4", "LOOP", f, ("[R4] " if P.startswith("R8") else "") + "outer exit through the loop header",
                              f"header test `{src(ht)}` is neither the emptiness of the block, the limit test nor a short-read test")
    # ---- R5: limit tests
    # A limit test is any `if` / loop-header test that (with single-definition temporaries expanded, so that a hoisted
    # `limit = max_offset if max_offset else None` is seen through) mentions max_offset.  Its stop condition is judged in
    # the two cases of the documented contract "a falsy max_offset means no limit": with max_offset falsy the condition
    # must be false (the limit does not apply), with max_offset truthy it must be exactly `<block start or match index> >
    # max_offset` (strict; both are <= the last byte of the occurrence).
    n5 = 0
    keep = frozenset(x for x in (posvar, pvar, s.carry, s.hay, s.block) if x)
    for st in statements(f.node):
        if not isinstance(st, (ast.If, ast.While)):
            continue
        test = inline(f.node, st.test, stop=keep)
        if not _mentions(test, s.ps[3]):
            continue
        # the condition under which scanning stops: an `if` whose true branch leaves, or the negated loop header;
        # which edge leaves is decided on the CFG (the edge from which the yield can no longer be reached this round)
        negate = isinstance(st, ast.While)
        if isinstance(st, ast.If):
            te, fe = s.cfg.edge_node(st, "true"), s.cfg.edge_node(st, "false")
            ynodes = [s.cfg.node(s.fv.stmt_of(y)) for y in s.yields]
            t_cont = any(s.cfg.reaches(te, yn) for yn in ynodes) and any(isinstance(x, (ast.Break, ast.Return, ast.Continue)) for b in st.orelse for x in ast.walk(b))
            if t_cont or (not any(isinstance(x, (ast.Break, ast.Return)) for b in st.body for x in ast.walk(b)) and any(isinstance(x, (ast.Break, ast.Return)) for b in st.orelse for x in ast.walk(b))):
                negate = True
        cond = nnf(test, negate=negate)
        for dj in disjuncts(cond):
            if not _mentions(dj, s.ps[3]):
                continue
            n5 += 1
            off = _under(dj, s.ps[3], False)
            on = _under(dj, s.ps[3], True)
            truthy = off is False
            cmp_ok, what = False, None
            if isinstance(on, ast.AST):
                parts = [c for c in conjuncts(on)]
                if len(parts) == 1:
                    for l, op, r in compare_parts(parts[0]):
                        if dotted(r) == s.ps[3] and isinstance(op, ast.Gt) and dotted(l) in (posvar, pvar):
                            cmp_ok, what = True, dotted(l)
                what = what or src(on)
            else:
                what = repr(on)
            _emit(ctx, P, "R5", "ABS", f, "limit test " + src(nnf(st.test, negate=negate) if len(disjuncts(cond)) == 1 else dj), truthy and cmp_ok,
                  f"with max_offset falsy the stop condition is {'false' if truthy else src(off) if isinstance(off, ast.AST) else off} (must be false: no limit); "
                  f"with max_offset truthy it is `{what}` (must be `<block start or match index> > max_offset`, strict)={cmp_ok}", st)
    # a limit handed to the search as its end bound: hay.find(needle, start, E).  A match at buffer index p is found iff
    # p + len(needle) <= E; it lies at file offset <position> - len(carry) + p.  "Every occurrence lying entirely before the
    # limit is reported" therefore needs E >= max_offset - <position> + len(carry) whenever the limit applies, and no bound
    # (None or at least the whole buffer) when it does not.  Decided on the polynomial E - (max_offset - pos + len(carry))
    # with pos = len(carry) + t, t >= 0 (the carry is made of bytes read before <position>): all coefficients >= 0.
    for c in s.finds:
        eb = c.args[2] if len(c.args) > 2 else kwarg(c, "end")
        if eb is None:
            continue
        ebi = inline(f.node, eb, stop=keep)
        if not _mentions(ebi, s.ps[3]):
            continue
        n5 += 1
        off = _value_under(ebi, s.ps[3], False)
        on = _value_under(ebi, s.ps[3], True)
        off_ok = (isinstance(off, ast.Constant) and off.value is None) or (isinstance(off, ast.Call) and dotted(off.func) == "len" and off.args and dotted(off.args[0]) == s.hay)
        on_p = sympoly(on) if isinstance(on, ast.AST) else None
        verdict, detail = None, ""
        if on_p is not None and posvar:
            need = SymPoly.atom(s.ps[3]) - SymPoly.atom(posvar) + SymPoly.atom(f"len({s.carry})")
            D = on_p - need
            # pos = len(carry) + t
            coeff = {}
            for k, v in D.terms.items():
                coeff[k] = coeff.get(k, 0) + v
            lin = {}
            for k, v in coeff.items():
                if len(k) > 1:
                    lin = None
                    break
                lin[k[0] if k else ""] = v
            if lin is not None:
                cp = lin.pop(posvar, 0)
                lin["<t>"] = lin.get("<t>", 0) + cp
                lin[f"len({s.carry})"] = lin.get(f"len({s.carry})", 0) + cp
                lin = {k: v for k, v in lin.items() if v != 0}
                nonneg_atoms = {"<t>", f"len({s.carry})", f"len({s.ps[1]})", f"len({s.block})", f"len({s.hay})", s.ps[3], ""}
                if all(k in nonneg_atoms for k in lin):
                    if all(v >= 0 for v in lin.values()):
                        verdict, detail = True, f"E - (max_offset - {posvar} + len({s.carry})) = {D} >= 0"
                    elif all(v <= 0 for v in lin.values()):
                        verdict, detail = False, f"E - (max_offset - {posvar} + len({s.carry})) = {D} < 0 whenever those terms are non-zero: occurrences ending in the last bytes before the limit are cut off"
        if verdict is None:
            ctx.undecided(("R8" if P.startswith("R8") else "R5"), "ABS", f, ("[R5] " if P.startswith("R8") else "") + "limit as end bound of find",
                          f"end bound {src(eb)} (with the limit: {src(on) if isinstance(on, ast.AST) else on}) could not be compared with max_offset - position + len(carry)")
        else:
            _emit(ctx, P, "R5", "ABS", f, "limit as end bound of find", verdict and off_ok,
                  detail + f"; without a limit the bound is {'absent / the whole buffer' if off_ok else src(off) if isinstance(off, ast.AST) else off}", c)
    d = param_defaults(f.node)
    _emit(ctx, P, "R5", "TABLE", f, "max_offset default", _c(d.get(s.ps[3])) == 0, f"default max_offset={src(d.get(s.ps[3]))} (0 = no limit)")
    seeks = [c for c in fn_calls(f.node) if isinstance(c.func, ast.Attribute) and c.func.attr == "seek"]
    ok = len(seeks) == 1 and dotted(seeks[0].args[0]) == s.ps[2] and guarded_by(ctx, f, seeks[0], lambda t: True if any(dotted(l) == s.ps[2] and isinstance(op, ast.IsNot) for l, op, r in compare_parts(t)) else None)
    _emit(ctx, P, "R3", "CURSOR", f, "fp.seek(start_offset)", bool(ok), "scan starts at start_offset when given, else at the current position" if ok else "start handling is not `if start_offset is not None: fp.seek(start_offset)`")
    return r1 and r3


def _value_under(e: ast.AST, name: str, truthy: bool):
    """Value-context counterpart of _under: conditional expressions / `name or d` chosen by the truth of `name`."""
    for _ in range(4):
        if isinstance(e, ast.IfExp):
            t = _under(e.test, name, truthy)
            if t is True:
                e = e.body
                continue
            if t is False:
                e = e.orelse
                continue
        if isinstance(e, ast.BoolOp) and isinstance(e.op, ast.Or) and len(e.values) == 2 and isinstance(e.values[0], ast.Name) and e.values[0].id == name:
            e = e.values[0] if truthy else e.values[1]
            continue
        break
    return e


def _not_none_choice(ctx, f, e):
    """`A if X is None else B` / `B if X is not None else A` with X a reference that resolves to a function, partial or class
    of the package (such a name is not None): B.  Anything else: e unchanged."""
    seen = 0
    while isinstance(e, ast.IfExp) and seen < 4:
        seen += 1
        t = e.test
        if not (isinstance(t, ast.Compare) and len(t.ops) == 1 and isinstance(t.ops[0], (ast.Is, ast.IsNot))
                and isinstance(t.comparators[0], ast.Constant) and t.comparators[0].value is None and dotted(t.left)):
            break
        try:
            sym = ctx.rs.lookup_dotted(f.module.name, dotted(t.left))
        except Exception:
            sym = None
        if sym is None or getattr(sym, "kind", None) not in ("func", "partial", "class", "struct"):
            break
        e = e.orelse if isinstance(t.ops[0], ast.Is) else e.body
    return e


def _mentions(e: ast.AST, name: str) -> bool:
    return any(isinstance(n, ast.Name) and n.id == name for n in ast.walk(e))


def _under(e: ast.AST, name: str, truthy: bool):
    """Partial evaluation of a boolean expression under "`name` is truthy" / "`name` is falsy (0 or None)": returns True,
    False or the residual expression.  Conditional expressions and and/or/not are resolved where their tests are decided;
    `<None constant> is [not] None` is decided; for the truthy case `name is [not] None` is decided as well."""
    def val(x):
        # value context: resolve conditional expressions whose test is decided
        if isinstance(x, ast.IfExp):
            t = boolean(x.test)
            if t is True:
                return val(x.body)
            if t is False:
                return val(x.orelse)
            return x
        if isinstance(x, ast.BoolOp) and isinstance(x.op, ast.Or) and len(x.values) == 2:
            t = boolean(x.values[0])
            if t is False and isinstance(x.values[0], ast.Name):
                return val(x.values[1])  # `name or d` with name falsy
            if t is True:
                return val(x.values[0])
        return x

    def boolean(x):
        if isinstance(x, ast.Constant):
            return bool(x.value)
        if isinstance(x, ast.Name) and x.id == name:
            return truthy
        if isinstance(x, ast.UnaryOp) and isinstance(x.op, ast.Not):
            t = boolean(x.operand)
            if t is True or t is False:
                return not t
            return ast.UnaryOp(op=ast.Not(), operand=t)
        if isinstance(x, ast.BoolOp):
            is_and = isinstance(x.op, ast.And)
            rest = []
            for v in x.values:
                t = boolean(v)
                if t is (not is_and):
                    return not is_and
                if t is is_and:
                    continue
                rest.append(t)
            if not rest:
                return is_and
            return rest[0] if len(rest) == 1 else ast.BoolOp(op=x.op, values=rest)
        if isinstance(x, ast.Compare) and len(x.ops) == 1:
            l, r = val(x.left), val(x.comparators[0])
            op = x.ops[0]
            if isinstance(op, (ast.Is, ast.IsNot)):
                for a, b in ((l, r), (r, l)):
                    if isinstance(b, ast.Constant) and b.value is None:
                        if isinstance(a, ast.Constant):
                            return (a.value is None) == isinstance(op, ast.Is)
                        if isinstance(a, ast.Name) and a.id == name and truthy:
                            return isinstance(op, ast.IsNot)
            if isinstance(op, (ast.Eq, ast.NotEq)):
                for a, b in ((l, r), (r, l)):
                    if isinstance(a, ast.Name) and a.id == name and truthy and isinstance(b, ast.Constant) and (b.value is None or b.value == 0) and not isinstance(b.value, bool):
                        return isinstance(op, ast.NotEq)
            return ast.Compare(left=l, ops=[op], comparators=[r])
        if isinstance(x, ast.IfExp):
            t = boolean(x.test)
            if t is True:
                return boolean(x.body)
            if t is False:
                return boolean(x.orelse)
        return x

    return boolean(e)


def _expand(fn, e, depth=0) -> Optional[SymPoly]:
    """SymPoly of e with single-definition locals expanded."""
    def subst(x):
        if depth > 6:
            return None
        if isinstance(x, ast.Name):
            defs = [v for st, v in assignments_to(fn, x.id)]
            if len(defs) == 1 and defs[0] is not None and x.id not in params(fn):
                return _expand(fn, defs[0], depth + 1)
        return None
    return sympoly(e, subst)


_FACTS = {}


def scanner_facts_hold(ctx):
    """Used by the escape analysis: offsets yielded by iter_find_needle are >= the scan start."""
    key = id(ctx.repo)
    if key not in _FACTS:
        from csverif.report import Report

        saved = ctx.rep
        ctx.rep = Report(ctx.prop, ctx.tier)
        try:
            _FACTS[key] = scanner_obligations(ctx, "R1")
        finally:
            ctx.rep = saved
    return _FACTS[key]


def run(ctx):
    rep = ctx.rep
    rep.explanation = (
        "Static analysis of utils.iter_find_needle and artifact.iter_artifactkit_payloads: provenance of every byte of the "
        "searched haystack (file reads only), interval analysis of the tail-slice bound (the `d[-0:]` hazard), symbolic "
        "offset algebra of the yielded value as a polynomial (tell-before-read + match index - length of the carry as "
        "concatenated), search-restart and carry-length conditions, operands of the limit tests; for the ArtifactKit "
        "scanner the header test, field read order/widths and per-iteration progress. These are the conditions under which "
        "the scanner's invariant holds; set equality with the true occurrences for all inputs is not decided."
    )
    rep.not_decided = ["equality with the true occurrence set for all contents and buffer sizes (the invariant is argued in DESIGN.md, not machine-checked)"]
    rep.trusted_base = ["CPython ast", "bytes.find semantics", "interval/polynomial domains in csverif/absint.py"]
    rep.assumptions = ["needle is non-empty (precondition)"]
    scanner_obligations(ctx, "")
    r6(ctx)


def _eval_order(node):
    """Sub-expressions of a statement in (approximate) Python evaluation order: children before parents, left to right."""
    out = []

    def walk(n):
        if isinstance(n, (ast.Lambda, ast.FunctionDef, ast.AsyncFunctionDef, ast.ClassDef)):
            return
        for c in ast.iter_child_nodes(n):
            walk(c)
        out.append(n)

    walk(node)
    return out


def _decode_int(ctx, f, e):
    """(bytes expression, size or None, byteorder, signed) if e decodes an integer from bytes, else None."""
    if not isinstance(e, ast.Call):
        return None
    cal = ctx.rs.resolve_call(f, e)
    if cal.kind == "func" and cal.func is not None and cal.func.fq == "utils.unpack" and e.args:
        b = cal.bound
        return (e.args[0], _c(b.get("size") if "size" in b else kwarg(e, "size")), _c(b.get("byteorder") if "byteorder" in b else kwarg(e, "byteorder")) or "little",
                bool(_c(b.get("signed") if "signed" in b else kwarg(e, "signed")) or False))
    if dotted(e.func) == "int.from_bytes" and e.args:
        bo = e.args[1] if len(e.args) > 1 else kwarg(e, "byteorder")
        return (e.args[0], None, _c(bo), bool(_c(kwarg(e, "signed")) or False))
    return None


def _le32(ctx, f, e) -> Optional[ast.AST]:
    """If e decodes (4) bytes little-endian unsigned, the expression holding those bytes; else None."""
    d = _decode_int(ctx, f, e)
    if d is not None and d[1] in (4, None) and d[2] == "little" and not d[3]:
        return d[0]
    return None


def r6(ctx):
    """ArtifactKit scanner: located by role - the stream parameter, the position variable it seeks to, the 4-byte header
    read, the self-offset test, the field reads on the matching path in evaluation order, the yielded record."""
    from csverif.q import reaching_defs

    f = ctx.repo.func("artifact.iter_artifactkit_payloads")
    fv = FuncView.of(f.node)
    cfg = ctx.cfg(f)
    fobj = params(f.node)[0]
    ws = [s for s in statements(f.node) if isinstance(s, ast.While)]
    if len(ws) != 1:
        ctx.undecided("R6", "LOOP", f, "scan loop", f"{len(ws)} while loops: the scanner is not one position loop any more")
        return
    w = ws[0]
    ok, detail, _ = loops.analyse_loop(ctx, f, w)
    ctx.ob("R6", "LOOP", f, "scan loop progress", ok, detail, w)
    seeks = [c for c in ast.walk(w) if isinstance(c, ast.Call) and isinstance(c.func, ast.Attribute) and c.func.attr == "seek" and dotted(c.func.value) == fobj and len(c.args) == 1 and isinstance(c.args[0], ast.Name)]
    if len(seeks) != 1:
        ctx.undecided("R6", "LOOP", f, "position variable", f"{len(seeks)} `{fobj}.seek(<name>)` calls in the loop: cannot identify the position variable")
        return
    POS = seeks[0].args[0].id
    # every offset is tested: all rebindings of the position inside the loop add exactly 1
    ups = [(st, v) for st, v in assignments_to(f.node, POS) if any(st is x for x in ast.walk(w))]
    steps = []
    for st, v in ups:
        if isinstance(st, ast.AugAssign) and isinstance(st.op, ast.Add):
            steps.append(_c(st.value))
        elif v is not None and sympoly(v) is not None and (sympoly(v) - SymPoly.atom(POS)).is_const():
            steps.append((sympoly(v) - SymPoly.atom(POS)).const_value())
        else:
            steps.append(None)
    ctx.ob("R6", "LOOP", f, "pos += 1", bool(steps) and all(k == 1 for k in steps), f"position advances by {steps} (exactly 1: every offset is tested)", ups[0][0] if ups else w)
    _scan_start(ctx, f, cfg, fv, w, fobj, POS)
    # the header: first read of the stream after the seek, 4 bytes
    reads_all = []
    for st in statements(w):
        if isinstance(st, (ast.If, ast.While, ast.For, ast.Try, ast.With)):
            exprs = [st.test] if isinstance(st, (ast.If, ast.While)) else []
        else:
            exprs = [st]
        for e in exprs:
            for n in _eval_order(e):
                if isinstance(n, ast.Call) and isinstance(n.func, ast.Attribute) and n.func.attr == "read" and dotted(n.func.value) == fobj:
                    reads_all.append((st, n))
    for k, (_st, n) in enumerate(reads_all):
        n._rid = k
    if not reads_all or _c(reads_all[0][1].args[0] if reads_all[0][1].args else None) != 4:
        ctx.ob("R6", "AGREE", f, "header read", False, f"first read after the seek is {src(reads_all[0][1]) if reads_all else None} (4 bytes required)", w)
        return

    def rid_of(e, at):
        """index of the stream read whose bytes expression e holds at `at` (through temporaries), else None"""
        if e is None:
            return None
        if isinstance(e, ast.Call) and hasattr(e, "_rid"):
            return e._rid
        if isinstance(e, ast.Name):
            rd = reaching_defs(ctx, f, e.id, at)
            ids = {rid_of(v, s2) if v is not None else None for s2, v in rd}
            return ids.pop() if len(ids) == 1 else None
        return None

    # header test: le-u32(<header bytes>) == X + 16 with X the position (or a copy of it)
    hdr = None
    wrong = []
    for st in statements(w):
        if not isinstance(st, ast.If):
            continue
        for l, op, r in compare_parts(nnf(st.test)):
            if not isinstance(op, (ast.Eq, ast.NotEq)):
                continue
            for a, b in ((l, r), (r, l)):
                dec = _decode_int(ctx, f, a)
                if dec is None or rid_of(dec[0], st) != 0:
                    continue
                pb = sympoly(inline(f.node, b, stop=frozenset({POS})))
                if pb is None:
                    continue
                diff = pb - SymPoly.atom(POS)
                if not diff.is_const():
                    continue
                if _le32(ctx, f, a) is None:
                    wrong.append(f"{src(st.test)} (header decoded as size={dec[1]} byteorder={dec[2]} signed={dec[3]}; little-endian unsigned 32-bit required)")
                elif diff.const_value() == 16:
                    hdr = (st, isinstance(op, ast.Eq))
                else:
                    wrong.append(f"{src(st.test)} (self-offset {diff.const_value()})")
    if hdr is None:
        if wrong:
            ctx.ob("R6", "AGREE", f, "pos + 16 == u32(header)", False, f"header test is not `le-u32(header) == position + 16`: {wrong}")
        else:
            ctx.undecided("R6", "AGREE", f, "pos + 16 == u32(header)", "no test of the little-endian u32 of the 4 header bytes against <position> + 16 found")
        return
    hst, eq = hdr
    ctx.ob("R6", "AGREE", f, "pos + 16 == u32(header)", True, f"header test `{src(hst.test)}`: little-endian u32 of the 4 bytes read at the position equals position + 16", hst)
    match_edge = cfg.edge_node(hst, "true" if eq else "false")
    on_match = [(st, n) for st, n in reads_all[1:] if cfg.has(st) and cfg.dominates(match_edge, cfg.node(st))]
    widths = [src(n.args[0]) if n.args else None for _st, n in on_match]
    ys = [y for y in ast.walk(w) if isinstance(y, ast.Yield) and cfg.dominates(match_edge, cfg.node(fv.stmt_of(y)))]
    if len(ys) != 1 or not isinstance(inline(f.node, ys[0].value), ast.Call):
        ctx.undecided("R6", "AGREE", f, "yield ArtifactKitPayload(...)", f"{len(ys)} yields on the matching path / not a record construction")
        return
    yst = fv.stmt_of(ys[0])
    # every offset whose header satisfies the test is reported: from the matching edge no path comes back to the loop head
    # (or leaves the function normally) without passing the yield - a skip under a further condition (size, file length,
    # payload content) drops offsets the property says are reported
    from csverif.cfg import EXIT as _EXIT
    yn, wn = cfg.node(yst), cfg.node(w)
    skip_loop = cfg.reaches(match_edge, wn, avoiding=[yn])
    skip_exit = cfg.reaches(match_edge, _EXIT, avoiding=[yn, wn])
    ctx.ob("R6", "EXIT", f, "every matching offset is yielded", not (skip_loop or skip_exit),
           "from the matching edge of the header test every path reaches the yield before the next offset / the end"
           if not (skip_loop or skip_exit) else
           "a path from the matching edge of the header test " + ("returns to the loop head" if skip_loop else "leaves the function")
           + " without yielding: " + " -> ".join(cfg.witness_path(match_edge, wn if skip_loop else _EXIT, avoiding=[yn] if skip_loop else [yn, wn])[:8]), hst)
    rec = ys[0].value
    if isinstance(rec, ast.Name):
        rd = reaching_defs(ctx, f, rec.id, yst)
        rec = rd[0][1] if len(rd) == 1 else None
    cls = ctx.repo.module("artifact").classes.get("ArtifactKitPayload")
    fields = [s2.target.id for s2 in cls.body if isinstance(s2, ast.AnnAssign) and isinstance(s2.target, ast.Name)] if cls is not None else []
    if not (isinstance(rec, ast.Call) and dotted(rec.func) == "ArtifactKitPayload" and fields == ["offset", "size", "xorkey", "hints", "payload"]):
        ctx.undecided("R6", "AGREE", f, "yield ArtifactKitPayload(...)", f"yielded value {src(rec)[:40]} / record fields {fields}")
        return
    kws = {}
    for name, v in zip(fields, rec.args):
        kws[name] = v
    for k in rec.keywords:
        if k.arg:
            kws[k.arg] = k.value
    ctx.ob("R6", "AGREE", f, "field reads", widths[:3] == ["4", "4", "8"] and len(widths) == 4, f"reads on the matching path, in evaluation order: {widths}; required 4, 4, 8 and the decoded size")
    rst = fv.stmt_of(rec) or yst
    off_ok = dotted(inline(f.node, kws.get("offset"), stop=frozenset({POS}))) == POS if kws.get("offset") is not None else False
    size_e = kws.get("size")
    size_src = None
    if size_e is not None:
        se, size_at = size_e, rst
        if isinstance(se, ast.Name):
            rd = reaching_defs(ctx, f, se.id, rst)
            se, size_at = (rd[0][1], rd[0][0]) if len(rd) == 1 else (None, rst)
        se = _not_none_choice(ctx, f, se) if se is not None else None
        size_src = _le32(ctx, f, se) if se is not None else None
    size_ok = size_src is not None and rid_of(size_src, size_at if size_e is not None else rst) == 1
    def _rid_through(e):
        # a record field given as a local: judged where that local was bound (a temporary reused for several reads)
        if isinstance(e, ast.Name):
            rd = reaching_defs(ctx, f, e.id, rst)
            if len(rd) == 1 and rd[0][1] is not None and isinstance(rd[0][1], ast.Name):
                return rid_of(rd[0][1], rd[0][0])
        return rid_of(e, rst)

    x_ok = _rid_through(kws.get("xorkey")) == 2
    h_ok = _rid_through(kws.get("hints")) == 3
    pay = kws.get("payload")
    if isinstance(pay, ast.Name):
        rd = reaching_defs(ctx, f, pay.id, rst)
        pay, pst = (rd[0][1], rd[0][0]) if len(rd) == 1 else (None, rst)
    else:
        pst = rst
    pay_ok = isinstance(pay, ast.Call) and ctx.rs.resolve_call(f, pay).fq == "utils.xor" and len(pay.args) == 2 and rid_of(pay.args[0], pst) == 4 and rid_of(pay.args[1], pst) == 2
    # the payload read has the decoded size as its length
    len_ok = len(on_match) == 4 and on_match[3][1].args and (src(on_match[3][1].args[0]) == src(size_e) or (isinstance(size_e, ast.Name) and dotted(on_match[3][1].args[0]) == size_e.id))
    y_ok = off_ok and size_ok and x_ok and h_ok and pay_ok and bool(len_ok)
    ctx.ob("R6", "AGREE", f, "yield ArtifactKitPayload(...)", y_ok,
           f"offset=position={off_ok}; size=le u32 of the read after the header={size_ok}; xorkey=next read={x_ok}; hints=next read={h_ok}; payload=xor(<read of size bytes>, <xorkey>)={pay_ok and bool(len_ok)}", ys[0])
    # start / limit handling
    mr = [s for s in ast.walk(w) if isinstance(s, ast.If) and "maxrange" in src(s.test)]
    from csverif.astutil import pmatch
    ok = len(mr) == 1 and pmatch("maxrange is not None and $p > maxrange", mr[0].test) == {"p": POS}
    ctx.ob("R6", "AGREE", f, "maxrange test", ok, f"limit test: {[src(m.test) for m in mr]}", undecided=not mr)


def _scan_start(ctx, f, cfg, fv, w, fobj, POS):
    """R6 "the scan starts at the requested offset" ("all start offsets" of the quantifier, 0 included): the value the position
    variable has when the loop is entered, evaluated path-wise on the CFG specialised for two named cases of the start
    parameter - S "an offset is given (not None; its truthiness is NOT assumed: 0 is an offset)" and N "None: scan from the
    current position".  Case S: every definition reaching the loop is the parameter itself, the result of the absolute seek to
    it, or `stream.tell()` with every path to that statement passing an absolute seek to the parameter; case N: it is
    `stream.tell()` with no seek / read of the stream before it.  A choice made by the *truthiness* of the parameter
    (`start or stream.tell()`, `if start:`) is neither in case S - located and wrong.  Devices 2 + 3 (policy)."""
    from csverif.cfg import ENTRY as _ENTRY
    from csverif.q import specialise, tv_eval

    wn = cfg.node(w)
    inside = {id(x) for x in ast.walk(w)}
    pre = [st for st in statements(f.node) if id(st) not in inside and cfg.has(st) and cfg.reaches(cfg.node(st), wn)]
    others = [p for p in params(f.node) if p != fobj]
    cands = [p for p in others if any(_mentions(st, p) for st in pre)]
    text = "the scan starts at the requested offset"
    if len(cands) != 1:
        ctx.undecided("R6", "CURSOR", f, text, f"parameters used before the scan loop: {cands} (exactly one start parameter expected)")
        return
    START = cands[0]

    def stream_call(e, attrs):
        return isinstance(e, ast.Call) and isinstance(e.func, ast.Attribute) and e.func.attr in attrs and dotted(e.func.value) == fobj

    def abs_seek_to_start(c):
        if not stream_call(c, ("seek",)) or not c.args or dotted(c.args[0]) != START:
            return False
        wh = c.args[1] if len(c.args) > 1 else kwarg(c, "whence")
        return wh is None or _c(wh) == 0 or dotted(wh) in ("io.SEEK_SET", "os.SEEK_SET", "SEEK_SET")

    def touches(st):
        hdr = [st.test] if isinstance(st, (ast.If, ast.While)) else [st] if not isinstance(st, (ast.For, ast.Try, ast.With)) else []
        return [c for h in hdr for c in ast.walk(h) if stream_call(c, ("seek", "read", "readinto", "readline", "truncate"))]

    def defs_on(sc, name, use):
        """(stmt, value) definitions of `name` reaching node `use` on the specialised CFG; (None, None) for the parameter"""
        nodes = []
        for st, v in assignments_to(f.node, name):
            s2 = st if isinstance(st, ast.stmt) else fv.stmt_of(st)
            if s2 is not None and sc.has(s2) and id(s2) not in inside:
                nodes.append((sc.node(s2), s2, v))
        alln = [n for n, _s, _v in nodes]
        out = []
        for n, s2, v in nodes:
            if n != use and sc.reaches(_ENTRY, n) and sc.reaches(n, use, avoiding=[x for x in alln if x != n]):
                out.append((s2, v))
        if name in params(f.node) and sc.reaches(_ENTRY, use, avoiding=alln):
            out.append((None, None))
        return out

    verdicts = []
    for case, assume in (("S", {f"{START} is None": False}), ("N", {f"{START} is None": True, START: False})):
        sc = specialise(cfg, assume)
        label = "an offset is given" if case == "S" else "no offset (None)"

        def value_of(e, at, depth=0):
            """-> list of (kind, node): 'start' | 'tell' | 'seekret' | 'truthiness' | 'other'"""
            if depth > 6:
                return [("other", e)]
            if isinstance(e, ast.IfExp):
                t = tv_eval(e.test, assume)
                if t is None:
                    if dotted(e.test) == START or (isinstance(e.test, ast.UnaryOp) and dotted(e.test.operand) == START):
                        return [("truthiness", e)]
                    return value_of(e.body, at, depth + 1) + value_of(e.orelse, at, depth + 1)
                return value_of(e.body if t else e.orelse, at, depth + 1)
            if isinstance(e, ast.BoolOp) and isinstance(e.op, ast.Or) and len(e.values) == 2 and dotted(e.values[0]) == START:
                t = tv_eval(e.values[0], assume)
                if t is None:
                    return [("truthiness", e)]
                return value_of(e.values[0] if t else e.values[1], at, depth + 1)
            if isinstance(e, ast.Name):
                ds = defs_on(sc, e.id, sc.node(at))
                out = []
                for s2, v in ds:
                    if s2 is None:
                        out.append(("start", e) if e.id == START else ("other", e))
                    elif v is None:
                        out.append(("other", e))
                    else:
                        out += value_of(v, s2, depth + 1)
                return out or [("other", e)]
            if stream_call(e, ("tell",)):
                return [("tell", fv.stmt_of(e) or at)]
            if abs_seek_to_start(e):
                # the absolute seek returns the new position; the parameter is judged where the seek happens
                return [("seekret", e)] if all(k == "start" for k, _n in value_of(e.args[0], at, depth + 1)) else [("other", e)]
            return [("other", e)]

        ds = defs_on(sc, POS, wn)
        if not ds:
            ctx.undecided("R6", "CURSOR", f, text, f"case {label}: no definition of the position reaches the scan loop")
            return
        for s2, v in ds:
            if s2 is None or v is None:
                verdicts.append((None, f"case {label}: position comes from {'a parameter' if s2 is None else src(s2)[:50]}"))
                continue
            for kind, n in value_of(v, s2):
                if kind == "truthiness":
                    verdicts.append((False, f"case {label}: `{src(n)[:60]}` chooses by the truthiness of `{START}` - the offset 0 is treated like no offset"))
                elif kind == "start":
                    verdicts.append((case == "S", f"case {label}: the position is `{START}`" + ("" if case == "S" else " = None")))
                elif kind == "seekret":
                    verdicts.append((True if case == "S" else False, f"case {label}: the position is the result of the absolute seek to `{START}`"))
                elif kind == "tell":
                    tn = sc.node(n)
                    before = [st for st in pre if sc.has(st) and sc.node(st) != tn and sc.reaches(_ENTRY, sc.node(st)) and sc.reaches(sc.node(st), tn)]
                    seeks_ok = [st for st in before if any(abs_seek_to_start(c) for c in touches(st))]
                    stray = [st for st in before if touches(st) and st not in seeks_ok]
                    rel = [st for st in stray if any(stream_call(c, ("seek",)) and c.args and dotted(c.args[0]) == START for c in touches(st))]
                    if rel:
                        verdicts.append((False, f"case {label}: `{src(rel[0])[:50]}` seeks to `{START}` other than from the start of the stream"))
                    elif stray:
                        verdicts.append((None, f"case {label}: the stream is moved by `{src(stray[0])[:50]}` before the position is taken"))
                    elif case == "S":
                        okp = bool(seeks_ok) and sc.all_paths_pass(_ENTRY, tn, [sc.node(st) for st in seeks_ok])
                        # the seek target must be the parameter itself there
                        okv = all(all(k == "start" for k, _x in value_of(c.args[0], st)) for st in seeks_ok for c in touches(st) if abs_seek_to_start(c))
                        verdicts.append((okp and okv, f"case {label}: the position is `{fobj}.tell()` " + ("after the absolute seek to the offset on every path" if okp and okv else
                                         "but a path reaches it without the absolute seek to the given offset")))
                    else:
                        verdicts.append((not seeks_ok, f"case {label}: the position is `{fobj}.tell()`" + ("" if not seeks_ok else f" after `{src(seeks_ok[0])[:40]}`")))
                else:
                    verdicts.append((None, f"case {label}: position value `{src(n)[:60]}` not understood"))
    bad = [d for v, d in verdicts if v is False]
    und = [d for v, d in verdicts if v is None]
    if bad:
        ctx.ob("R6", "CURSOR", f, text, False, "; ".join(bad), w)
    elif und:
        ctx.undecided("R6", "CURSOR", f, text, "; ".join(und))
    else:
        ctx.ob("R6", "CURSOR", f, text, True, "; ".join(d for _v, d in verdicts), w)


def _last_def_is(f, name_expr, call, at) -> bool:
    """name_expr is a local whose definition reaching `at` is `call` (multi-definition local `data`)."""
    if call is None:
        return False
    if not isinstance(name_expr, ast.Name):
        return origin(f.node, name_expr) is call
    defs = [(st, v) for st, v in assignments_to(f.node, name_expr.id) if v is not None]
    cands = [v for st, v in defs if (st.lineno, st.col_offset) < (at.lineno, at.col_offset)]
    return bool(cands) and cands[-1] is call
