"""C06 - Beacon metadata survives RSA transport; session keys derive from it (structural part)."""

from __future__ import annotations

import ast
import re

from csverif.astutil import (
    assignments_to, body_walk, compare_parts, const_eval, dotted, fn_calls, is_const, kwarg, NotConst, params, src,
    statements,
)
from csverif.cfg import ENTRY, EXIT
from csverif.q import FuncView, calls_to, origin, raise_class, reaching_origins

MAGIC = 0xBEEF


def _c(node):
    try:
        return const_eval(node) if node is not None else None
    except NotConst:
        return None


def _sha_halves(fn, expr):
    """If expr is <sha256(X).digest()>[a:b] (through one local), return (src(X), a, b)."""
    if not (isinstance(expr, ast.Subscript) and isinstance(expr.slice, ast.Slice)):
        return None
    base = origin(fn, expr.value)
    if isinstance(base, ast.Call) and isinstance(base.func, ast.Attribute) and base.func.attr == "digest" and not base.args:
        h = base.func.value
        if isinstance(h, ast.Call) and dotted(h.func) in ("hashlib.sha256", "sha256") and len(h.args) == 1:
            return (src(h.args[0]), _c(expr.slice.lower), _c(expr.slice.upper))
        if isinstance(h, ast.Call):
            return ("!" + (dotted(h.func) or "?"), _c(expr.slice.lower), _c(expr.slice.upper))
    return None


def run(ctx):
    rep = ctx.rep
    rep.explanation = (
        "Static analysis of c_c2.py/c2.py/client.py: BeaconMetadata layout arithmetic from C2_DEF (fixed part 59 bytes, "
        "size-51 array, len-8 size field), dominance of the sentinel and magic rejections over the return of "
        "decrypt_metadata, writer/reader agreement on the magic and the RSA cipher construction, and structural identity "
        "of every session-key derivation site (SHA-256 halves, bound as (aes_key, hmac_key))."
    )
    rep.not_decided = ["field-for-field equality after RSA for all values", "PKCS#1 v1.5 limits (library)"]
    rep.trusted_base = ["CPython ast", "networkx dominators", "C-definition parser", "pycryptodome PKCS1_v1_5 sentinel semantics"]
    r1(ctx)
    r2(ctx)
    r3_r4(ctx)
    r5(ctx)
    r6(ctx)
    # the client's session keys are the SHA-256 halves of the 16 bytes carried in the metadata: the derivation of those 16
    # bytes in the client (C19.R4, fixed width) is part of the agreement between client and server keys
    from rules import c19

    ctx.import_obligations("R7", c19.r4)


def r1(ctx):
    cd = ctx.cdefs("c_c2").get("c2struct")
    if cd is None:
        ctx.rep.error("anchor vanished: c2struct")
        return
    s = cd.struct("BeaconMetadata")
    fixed = s.fixed_prefix_size
    info = s.field("info")
    k1 = None
    if info is not None and info.count:
        m = re.fullmatch(r"\s*size\s*-\s*(\d+)\s*", info.count)
        k1 = int(m.group(1)) if m else None
    f = ctx.repo.func("c2.encrypt_metadata")
    mp = params(f.node)[0]
    k2 = None
    size_set = None
    for st in statements(f.node):
        if isinstance(st, ast.Assign) and dotted(st.targets[0]) == f"{mp}.size":
            size_set = st
            v = st.value
            if isinstance(v, ast.BinOp) and isinstance(v.op, ast.Sub) and isinstance(v.left, ast.Call) and dotted(v.left.func) == "len" and dotted(v.left.args[0]) == mp:
                k2 = _c(v.right)
    ctx.ob("R1", "TABLE", "c_c2.py::C2_DEF::struct BeaconMetadata", "layout arithmetic",
           info is not None and info is s.fields[-1] and k1 is not None and k2 is not None and fixed - k2 == k1,
           f"fixed part {fixed} bytes; info[{info.count if info else None}] subtracts {k1}; encrypt_metadata sets size = len - {k2}; required fixed - {k2} == {k1}")
    heads = [(x.name, x.type, x.offset) for x in s.fields[:3]]
    ctx.ob("R1", "TABLE", "c_c2.py::C2_DEF::struct BeaconMetadata", "header fields",
           heads == [("magic", "uint32", 0), ("size", "uint32", 4), ("aes_rand", "char", 8)] and s.fields[2].count == "16" and cd.endian == ">",
           f"first fields {heads} (aes_rand[{s.fields[2].count}]) endian {cd.endian!r}; required magic@0,size@4 uint32, aes_rand char[16]@8, big-endian")
    names = [x.name for x in s.fields]
    ctx.ob("R1", "TABLE", "c_c2.py::C2_DEF::struct BeaconMetadata", "field count", len(names) == 17 and fixed == 59, f"{len(names)} fields, fixed {fixed} bytes (59 required): {names}")


def r2(ctx):
    f = ctx.repo.func("c2.decrypt_metadata")
    cfg = ctx.cfg(f)
    fv = FuncView.of(f.node)
    dec = [c for c in fn_calls(f.node) if isinstance(c.func, ast.Attribute) and c.func.attr == "decrypt"]
    if len(dec) != 1:
        ctx.ob("R2", "DOM", f, "cipher.decrypt", False, f"{len(dec)} decrypt calls")
        return
    d = dec[0]
    sentinel = d.args[1] if len(d.args) > 1 else kwarg(d, "sentinel")
    dst = fv.stmt_of(d)
    pt = dotted(dst.targets[0]) if isinstance(dst, ast.Assign) else None
    ct_ok = d.args and dotted(d.args[0]) == params(f.node)[0]
    ctx.ob("R2", "AGREE", f, src(d), bool(ct_ok) and sentinel is not None, f"decrypts the blob parameter={bool(ct_ok)} with sentinel {src(sentinel)}", d)
    rets = cfg.return_stmts()
    sent_tests, magic_tests = [], []
    sent_falsy = isinstance(sentinel, ast.Constant) and not sentinel.value
    for n, st in cfg.stmt.items():
        if not isinstance(st, ast.If):
            continue
        # `if not pt:` rejects a falsy sentinel (None / b"") and an empty plaintext alike
        if sent_falsy and isinstance(st.test, ast.UnaryOp) and isinstance(st.test.op, ast.Not) and dotted(st.test.operand) == pt:
            sent_tests.append((st, "true"))
        elif sent_falsy and dotted(st.test) == pt:
            sent_tests.append((st, "false"))
        for l, op, r in compare_parts(st.test):
            if dotted(l) == pt and isinstance(op, (ast.Is, ast.Eq)) and src(r) == src(sentinel):
                sent_tests.append((st, "true"))
            elif dotted(l) == pt and isinstance(op, (ast.IsNot, ast.NotEq)) and src(r) == src(sentinel):
                sent_tests.append((st, "false"))
            elif (dotted(l) or "").endswith(".magic") and isinstance(op, ast.NotEq):
                magic_tests.append((st, "true", _c(r), dotted(l)))
            elif (dotted(l) or "").endswith(".magic") and isinstance(op, ast.Eq):
                magic_tests.append((st, "false", _c(r), dotted(l)))
    ok = False
    detail = "no test of the decrypt result against the sentinel"
    for st, bad in sent_tests:
        e = cfg.edge_node(st, bad)
        leaks = cfg.reaches(e, EXIT)
        dom = all(cfg.dominates(cfg.node(st), cfg.node(r)) for r in rets)
        ok = not leaks and dom
        detail = f"sentinel edge can return normally={leaks}; test dominates every return={dom}"
        for rs in cfg.raise_stmts():
            if cfg.dominates(e, cfg.node(rs)):
                ctx.ob("R2", "EXIT", f, src(rs), raise_class(rs) == "ValueError", f"undecryptable blob raises {raise_class(rs)}", rs)
    ctx.ob("R2", "DOM", f, "sentinel test", ok, detail, dst)
    ok = False
    detail = "no test of the magic field"
    for st, bad, const, who in magic_tests:
        e = cfg.edge_node(st, bad)
        leaks = cfg.reaches(e, EXIT)
        dom = all(cfg.dominates(cfg.node(st), cfg.node(r)) for r in rets)
        same = all(dotted(r.value) == who.rsplit(".", 1)[0] for r in rets)
        ok = not leaks and dom and const == MAGIC and same
        detail = f"magic compared with {const!r} (0xBEEF required); mismatch edge can return={leaks}; dominates every return={dom}; the returned object is the one tested={same}"
        for rs in cfg.raise_stmts():
            if cfg.dominates(e, cfg.node(rs)):
                ctx.ob("R2", "EXIT", f, src(rs), raise_class(rs) == "ValueError", f"bad magic raises {raise_class(rs)}", rs)
    ctx.ob("R2", "DOM", f, "magic test", ok, detail, f.node)
    for r in rets:
        o = origin(f.node, r.value)
        cal = ctx.rs.resolve_call(f, o) if isinstance(o, ast.Call) else None
        ok = cal is not None and cal.kind == "struct" and cal.struct[2] == "BeaconMetadata" and o.args and dotted(o.args[0]) == pt
        ctx.ob("R2", "AGREE", f, "return " + src(r.value), bool(ok), "returns BeaconMetadata parsed from the decrypted bytes" if ok else f"returns {src(o)}", r)
    ctx.ob("R2", "EXIT", f, "falls off end", not cfg.falls_off_end(), "cannot return None implicitly")


def r3_r4(ctx):
    run = ctx.repo.func("client.HttpBeaconClient.run")
    mags = [s for s in statements(run.node) if isinstance(s, ast.Assign) and (dotted(s.targets[0]) or "").endswith(".magic")]
    ok = len(mags) == 1 and _c(mags[0].value) == MAGIC
    ctx.ob("R3", "AGREE", run, "metadata.magic = 0xBEEF", ok, f"client writes magic {[src(m.value) for m in mags]}; decoder requires 0xBEEF")
    enc, dec = ctx.repo.func("c2.encrypt_metadata"), ctx.repo.func("c2.decrypt_metadata")
    ce = [c for c in fn_calls(enc.node) if dotted(c.func) == "PKCS1_v1_5.new"]
    cd_ = [c for c in fn_calls(dec.node) if dotted(c.func) == "PKCS1_v1_5.new"]
    ok = len(ce) == 1 and len(cd_) == 1 and dotted(ce[0].args[0]) == params(enc.node)[1] and dotted(cd_[0].args[0]) == params(dec.node)[1]
    ctx.ob("R4", "AGREE", enc, "PKCS1_v1_5.new", ok, "both sides build PKCS1_v1_5 over their key parameter" if ok else "cipher construction differs between encrypt_metadata and decrypt_metadata")
    cfg = ctx.cfg(enc)
    fv = FuncView.of(enc.node)
    mp = params(enc.node)[0]
    dumps = [c for c in fn_calls(enc.node) if isinstance(c.func, ast.Attribute) and c.func.attr == "dumps" and dotted(c.func.value) == mp]
    sets = [s for s in statements(enc.node) if isinstance(s, ast.Assign) and dotted(s.targets[0]) == f"{mp}.size"]
    ok = len(dumps) == 1 and len(sets) == 1 and cfg.dominates(cfg.node(sets[0]), cfg.node(fv.stmt_of(dumps[0]))) and cfg.node(sets[0]) != cfg.node(fv.stmt_of(dumps[0]))
    ctx.ob("R4", "DOM", enc, "size set before dumps()", ok, "the size field is made consistent before serialising" if ok else "metadata is serialised before/without updating its size field")
    encs = [c for c in fn_calls(enc.node) if isinstance(c.func, ast.Attribute) and c.func.attr == "encrypt"]
    ok = len(encs) == 1 and encs[0].args and origin(enc.node, encs[0].args[0]) is (dumps[0] if dumps else None)
    rets = [s for s in statements(enc.node) if isinstance(s, ast.Return)]
    ok = ok and len(rets) == 1 and origin(enc.node, rets[0].value) is encs[0]
    ctx.ob("R4", "AGREE", enc, "return cipher.encrypt(metadata.dumps())", bool(ok), "encrypts exactly the serialised metadata and returns the ciphertext" if ok else "does not return cipher.encrypt(metadata.dumps())")
    # every info length that fits the modulus must be accepted: an explicit rejection in encrypt_metadata must use the
    # exact PKCS#1 v1.5 bound (len > k - 11); the size field is updated unconditionally
    from csverif.astutil import pmatch
    from csverif.q import dominating_conditions
    for r in ctx.cfg(enc).raise_stmts():
        conds = [n for t, pol, n in dominating_conditions(ctx, enc, r) if pol]
        exact = any(pmatch("len($d) > $k.size_in_bytes() - 11", c) is not None for c in conds)
        ctx.ob("R4", "ABS", enc, "explicit rejection " + src(r)[:40], bool(exact), "rejects exactly the lengths above k - 11" if exact else
               f"encrypt_metadata rejects under {[src(c) for c in conds]}: not the exact PKCS#1 v1.5 bound `len(data) > k - 11` (a length that fits is refused)", r)
    if sets:
        unconditional = not dominating_conditions(ctx, enc, sets[0])
        ctx.ob("R4", "DOM", enc, "size updated unconditionally", unconditional, "the size field is recomputed on every call" if unconditional else
               f"size is only updated under {[t for t, p, n in dominating_conditions(ctx, enc, sets[0])]}: a stale size is encrypted")


def r5(ctx):
    d = ctx.repo.func("c2.derive_aes_hmac_keys")
    rets = [s for s in statements(d.node) if isinstance(s, ast.Return)]
    ok = False
    detail = "return shape not recognised"
    if len(rets) == 1 and isinstance(rets[0].value, ast.Tuple) and len(rets[0].value.elts) == 2:
        a, b = (_sha_halves(d.node, e) for e in rets[0].value.elts)
        p = params(d.node)[0]
        ok = a == (p, None, 16) and b == (p, 16, None)
        detail = f"returns (sha256({p})[:16], sha256({p})[16:]) - got {a}, {b}"
    ctx.ob("R5", "AGREE", d, "return digest[:16], digest[16:]", ok, detail)
    n = 0
    # call sites of derive: unpacked as (aes, hmac)
    for fq, src_expr in (("c2.BeaconKeys.from_aes_rand", None), ("c2.C2Http.__init__", None), ("c2.C2Http.iter_recover_http", None)):
        f = ctx.repo.func(fq)
        calls = calls_to(ctx, f, target_fq="c2.derive_aes_hmac_keys")
        if not calls:
            ctx.ob("R5", "AGREE", f, "derive_aes_hmac_keys(...)", False, "does not derive the session keys through derive_aes_hmac_keys")
            continue
        fv = FuncView.of(f.node)
        for c in calls:
            n += 1
            st = fv.stmt_of(c)
            tg = st.targets[0] if isinstance(st, ast.Assign) else None
            names = [dotted(e) for e in tg.elts] if isinstance(tg, ast.Tuple) else []
            ok = False
            how = "not unpacked into two names"
            if len(names) == 2:
                if all("." in n for n in names):
                    ok = names[0].split(".")[-1] == "aes_key" and names[1].split(".")[-1] == "hmac_key"
                    how = f"stored as {names}"
                else:
                    # locals: their role is where they go - the key container's aes_key / hmac_key slots
                    uses = [k for k in fn_calls(f.node) if dotted(k.func) in ("cls", "BeaconKeys")]
                    good = []
                    for k in uses:
                        kws = {kw.arg: dotted(kw.value) for kw in k.keywords}
                        pos = [dotted(a) for a in k.args]
                        good.append((kws.get("aes_key") == names[0] and kws.get("hmac_key") == names[1]) or pos[:2] == names)
                    ok = bool(good) and all(good)
                    how = f"first result goes to the aes_key slot and second to the hmac_key slot of the key container={ok}"
            arg = src(c.args[0]) if c.args else "?"
            arg_ok = arg.split(".")[-1] in ("aes_rand",)
            ctx.ob("R5", "AGREE", f, "derive_aes_hmac_keys(..) unpacked", ok and arg_ok, f"{how}; derived from {arg} (the 16 random bytes)", c)
    # BeaconKeys construction from derived keys keeps the order
    fa = ctx.repo.func("c2.BeaconKeys.from_aes_rand")
    for c in fn_calls(fa.node):
        if dotted(c.func) == "cls":
            kws = {k.arg: dotted(k.value) for k in c.keywords}
            pos = [dotted(a) for a in c.args]
            ok = (kws.get("aes_key") is not None and kws.get("hmac_key") is not None) or len(pos) >= 2
            ctx.ob("R5", "AGREE", fa, "cls(aes_key=.., hmac_key=..)", ok, "both keys are passed to the container" if ok else "a key is dropped when building BeaconKeys", c)
    ir = ctx.repo.func("c2.C2Http.iter_recover_http")
    for c in fn_calls(ir.node):
        if dotted(c.func) == "BeaconKeys":
            kws = {k.arg: dotted(k.value) for k in c.keywords}
            pos = [dotted(a) for a in c.args]
            ok = len(pos) >= 2 or (kws.get("aes_key") is not None and kws.get("hmac_key") is not None)
            ctx.ob("R5", "AGREE", ir, "BeaconKeys(<derived keys>)", ok, "both derived keys are stored" if ok else "a derived key is dropped", c)
    fields = [st.target.id for st in ctx.repo.cls("c2.BeaconKeys").body if isinstance(st, ast.AnnAssign) and isinstance(st.target, ast.Name)]
    ctx.ob("R5", "TABLE", "c2.py::BeaconKeys", "field order", fields[:3] == ["aes_key", "hmac_key", "iv"], f"BeaconKeys fields {fields}")
    fb = ctx.repo.func("c2.BeaconKeys.from_beacon_metadata")
    ok = any(dotted(c.func) == "cls.from_aes_rand" and c.args and src(c.args[0]).endswith(".aes_rand") for c in fn_calls(fb.node))
    ctx.ob("R5", "AGREE", fb, "cls.from_aes_rand(metadata.aes_rand)", ok, "keys from metadata derive from its aes_rand field" if ok else "from_beacon_metadata does not derive from metadata.aes_rand")
    # the client's inline derivation
    run = ctx.repo.func("client.HttpBeaconClient.run")
    got = {}
    for st in statements(run.node):
        if isinstance(st, ast.Assign) and dotted(st.targets[0]) in ("self.aes_key", "self.hmac_key"):
            if isinstance(st.value, ast.Call):
                continue
            got[dotted(st.targets[0])] = _sha_halves(run.node, st.value)
        if isinstance(st, ast.Assign) and isinstance(st.targets[0], ast.Tuple) and [dotted(e) for e in st.targets[0].elts] == ["self.aes_key", "self.hmac_key"]:
            cal = ctx.rs.resolve_call(run, st.value) if isinstance(st.value, ast.Call) else None
            if cal is not None and cal.kind == "func" and cal.func.fq == "c2.derive_aes_hmac_keys" and src(st.value.args[0]) == "self.aes_rand":
                got = {"self.aes_key": ("self.aes_rand", None, 16), "self.hmac_key": ("self.aes_rand", 16, None)}
    ok = got.get("self.aes_key") == ("self.aes_rand", None, 16) and got.get("self.hmac_key") == ("self.aes_rand", 16, None)
    ctx.ob("R5", "AGREE", run, "client key derivation", ok, f"client derives {got}; required sha256(self.aes_rand)[:16] / [16:]")
    md = [s for s in statements(run.node) if isinstance(s, ast.Assign) and (dotted(s.targets[0]) or "").endswith("metadata.aes_rand")]
    ok = len(md) == 1 and dotted(md[0].value) == "self.aes_rand"
    ctx.ob("R5", "AGREE", run, "metadata.aes_rand = self.aes_rand", ok, "the metadata carries the bytes the client derived its keys from" if ok else "metadata.aes_rand is not the client's aes_rand")
    ctx.rep.count("derivation_sites", n + 2, floor=5)


def r6(ctx):
    """Blobs that do not decrypt / do not parse are rejected with ValueError: escape set of decrypt_metadata."""
    from csverif import effects

    effects.check_escape(ctx, "R6", ["c2.decrypt_metadata"], {"ValueError"})
    # the emptiness of the decrypted plaintext is tested as well: some pycryptodome versions hand back b"" instead of
    # the (non-bytes) sentinel for a padding failure
    f = ctx.repo.func("c2.decrypt_metadata")
    cfg = ctx.cfg(f)
    fv = FuncView.of(f.node)
    dec = [c for c in fn_calls(f.node) if isinstance(c.func, ast.Attribute) and c.func.attr == "decrypt"]
    if len(dec) == 1:
        dst = fv.stmt_of(dec[0])
        pt = dotted(dst.targets[0]) if isinstance(dst, ast.Assign) else None
        from csverif.q import specialise
        spec = specialise(cfg, {pt: False, f"{pt} is None": False, f"not {pt}": True})
        parses = [c for c in fn_calls(f.node) if ctx.rs.resolve_call(f, c).kind == "struct"]
        reach = [c for c in parses if spec.reaches(ENTRY, cfg.node(fv.stmt_of(c)))]
        ctx.ob("R6", "DOM", f, "empty plaintext rejected", not reach, "an empty decryption result never reaches the struct parse" if not reach else
               "an empty (but not None) decryption result reaches BeaconMetadata(pt): with pycryptodome >= 3.20 a padding failure yields b'' for a non-bytes sentinel", dst)
