"""C06 - Beacon metadata survives RSA transport; session keys derive from it (structural part).

The rules are phrased as semantic necessary conditions and locate their subjects by role; a subject that cannot be
located in the (normalised) code gives an undecided obligation, never a violation.

Technique (numbers refer to the list in RULES_GUIDE.md, "What counts as static here"; nothing of /repo is executed, no
function body, loop or expression of /repo is evaluated on data chosen by the checker: there is no loop over numeric
ranges, lengths, byte values or sample inputs anywhere in this module)

* R1 layout arithmetic: (1) parsed C definition, attribute stores located through def-use; (3) the stored value and the
  array length are brought into *polynomial (linear) normal form* over the atoms len(metadata) / len(metadata.info)
  (`_lin`: `len(m) - 8`, `-8 + len(m)`, `len(m) - (4 + 4)`, `51 + len(m.info)` are the same form) and the constant terms
  are compared with the fixed part computed from the C definition; (6) constant folding - including the grammar-level
  constants of the definition text (`#define NAME <integer expression>`, `_grammar_consts`) that the array-length
  expression names (a field of the structure shadows a constant, as in dissect.cstruct); an identifier of the length
  expression that is neither a field nor a folded constant makes the obligation undecided.  "integer fields: full
  unsigned width": (1)/(6) every scalar field of the parsed definition (taken as they come, type aliases / enum base
  types resolved by the definition parser) is an unsigned integer type, and - for the fields of the reference table
  `_FIELD_BYTES` that are present - of the transported width; a field whose type the definition parser does not know
  makes the obligation undecided.
* R2 / R6(DOM) rejection rules of decrypt_metadata: (2) CFG reachability with infeasible branch edges pruned by a
  three-valued (True / False / both-by-lemma / unknown) evaluation of the branch tests under explicit, named
  assumptions, combined with (3)/(4) a forward data-flow propagation of the values of locals over the constant /
  nullness / truthiness domain (`_Flow`: a work-list fixed point with joins; rebinding, flags, message variables are
  followed; a join of different non-None values is "some non-None value"; an augmented assignment or loop target is
  "unknown" - no loop is unrolled).  The assumptions are a case analysis (5) over the vocabulary of the code and of the
  property - never a sample that stands for a class of inputs:
    - decryption result: *the sentinel expression the code itself passes to decrypt()* (constant-folded (6), else an
      opaque symbol), or *the empty bytes value* (the one value the library contract names besides the sentinel for a
      padding failure; the claim of R6 is about exactly this value), or *a real plaintext* (an opaque symbol that is
      truthy and not None - nothing else is known about it: its length, its content, comparisons with it are unknown);
    - parsed magic: *0xBEEF* (the constant of the property) or *any other value of the unsigned 32-bit field* (an
      opaque symbol with the fact `!= 0xBEEF`).
  Tests over known constants are constant-folded (6).  Comparisons with the "any other value" symbol are decided by the
  interval / counting lemmas written down in `_cmp_other` (is the set of admissible field values that makes the
  comparison true / false empty?) and `x & (2^w - 1) == x for 0 <= x < 2^w`; "both outcomes occur" is only claimed for
  one comparison of the symbol with a constant (and for a conjunction / disjunction in which every other operand is
  decided) - correlated comparisons are not combined.  A reachable test that looks at the assumed value but cannot be
  evaluated makes the obligation undecided.  A branch test that calls a package function whose whole body is `return E`
  (a named predicate, also one that reaches the test through a table of checks the loader unrolled) is evaluated on E
  with the parameters bound to the argument expressions (`_expand_calls`: function summary by argument binding (3) - the
  callee is not run); a test that hands the parsed object to any other callable (a predicate of several statements, an
  element of a table that is iterated at run time) "looks at" the object: undecided, never "no test of the magic".
* R3 writer-side magic: (1) resolved callees and struct types, (3) def-use terms (`inline`, single-store attributes,
  tuple unpacking, literal setattr tables - the table rows are read from the syntax tree, the loop is not run),
  (6) constant folding incl. constants imported from another module.
* R4 encrypt_metadata: (1) resolved cipher constructor and parameter binding, (2) CFG path condition "every path to
  the serialisation passes a store of the size field (or an edge that has just established equality with the stored
  value)", (3) the explicit length bound in linear normal form `len - k + c > 0` (`_gt0`; lemma: over the integers
  `a >= b <=> a - b + 1 > 0`, `not (a > b) <=> b - a + 1 > 0`) compared with the PKCS#1 v1.5 bound c <= 11.
* R5 session keys: (3) *classification* of expressions as SHA-256 half / (aes, hmac) pair / key container through
  locals, tuple unpacking, star arguments, argument binding into package callees (function summaries) and inlined
  helpers; (4) length domain for the halves: a SHA-256 digest has 32 bytes (`len(<digest>)` is 32), the slice bounds
  are constant-folded (6) and normalised with `slice(lo, hi, step).indices(32)` - Python's own definition of which
  indices a slice of a 32-element sequence selects, applied to the code's constants; the halves are the normal forms
  (0, 16, 1) and (16, 32, 1).  Every place where a classified value enters an `aes_key` / `hmac_key` slot is checked
  for its role, every derivation for its seed (an `aes_rand` field / the wrapper's own parameter), terms compared
  structurally / by node identity of their defining expression.
* R6 escape set: csverif.effects (engine; (1)/(2)), extended here (`_escape_engine`) with the meaning of `with` over a
  generator-based context manager of the package (contextlib.contextmanager, one `yield` statement outside loops): the
  may-raise set of `with g(..): BODY` is that of g's body with the `yield` standing for BODY (syntax-tree weaving over the
  resolved callee (1); the engine's try / except filtering then applies to g's handlers); a `with` over a package class
  whose `__exit__` raises / may return a truthy value makes the sites of its body uncertain (undecided, not a violation).
  R7: obligations of C19.R4 (imported).
* R8 every metadata encrypt_metadata produces is accepted by decrypt_metadata (no rejection for a well-formed metadata):
  the same value flow (`_Flow`, (2)/(3)) under the named assumption "the blob is a correctly encrypted metadata and no
  library call raises" (implicit exception edges are not followed), with the parsed fields in the *interval domain* (4)
  read from the C definition (1)/(6): magic = 0xBEEF; the length field of the trailing array `info[size - k]` is the
  interval [k, k + 256 - 11 - fixed] (size = k + len(info), 0 <= len(info), fixed + len(info) <= modulus - 11 for the
  largest modulus of the property, RSA-2048); every other integer field is the whole interval of its width; arrays are
  opaque; len(plaintext) is the length field + (fixed - k).  Branch tests are decided by the interval / counting lemmas
  of `_cmp_other` (is the part of the interval that makes the comparison true / false empty?), the interval transfer
  of `+ c` / `- c`, `s + a <op> s + b <=> a <op> b`, `truthy <=> != 0`; the serialised length of a default-constructed
  structure (`len(BeaconMetadata())`, also through a module constant) is read from the C definition (6).  A `raise` /
  failing `assert` outside a handler is a violation when a path of *decided* branch outcomes with at most one
  "both outcomes occur" test leads to it (graph search `_Flow.both_count`; two such tests may be correlated: nothing is
  claimed), undecided when it is only reached through tests that cannot be evaluated, discharged when it is not reached.
  No value of any field is enumerated or tried.
* R9 the keys handed out for a seed are the keys of *that* seed: (1)/(3) in every function in which R5 located a
  derivation from the random bytes, the def-use origins (`_value_origins`: all definitions of a local, both arms of a
  conditional expression, operands of and / or, the default of get / setdefault / pop) of every returned value and of
  every value stored into an attribute that receives derived keys are classified with R5's classification; an origin
  that is an element look-up (`C[K]`, `C.get(K)`, `C.setdefault(K, ..)`, `C.pop(K)`) in a container that outlives the
  call (a name the function never binds: module / class level; state of `self` / `cls`) is judged by its key term
  (substituted definitions, compared structurally): built only of constants, *other* fields of the structure that
  carries the seed (field names from the C definition) and other parameters -> the key does not determine the seed
  (lemma: the property quantifies over every field value and every 16-byte seed independently, so equal keys do not
  imply equal seeds; the element was stored for an earlier seed) -> violated; the key is / contains the seed, or
  anything else -> undecided (the stored elements are not followed).  An origin that is a parameter (keys supplied by
  the caller) or None is no hand-out of derived keys; any other unclassified origin makes the obligation undecided.
* R10 no content of a free-form field makes the accept path of decrypt_metadata fail ("for every field value", "all info
  strings of length 0 up to the limit"): (1) the array fields of the parsed C definition - a trailing array of variable
  length is a byte string of arbitrary content and of any length from 0; (3) terms by substitution of single-definition
  locals: `<parsed object>.<such field>` (through total bytes methods - strip, lower, slices ..) under a *partial*
  operation - unpacking of `.split(..)` / `.rsplit(..)` / `.splitlines()` (or of the bytes) into a fixed number of names,
  a constant index into the split parts or into the bytes, a strict `.decode()` with UTF-8 / ASCII, `.index(..)`,
  `int(..)` / `float(..)`; (4) length domain with one named witness of the property's own quantifier, never a sample that
  is tried: the *empty* string (info length 0; library lemmas `b"".split(sep)` has one part, `b"".split()` none, an empty
  string has no element and contains no non-empty string) resp. "a string that contains 0xFF is neither UTF-8 nor
  ASCII"; (2) the same value flow as R8 (`_Flow`, well-formed domain, no library call raises): violated when the
  operation is reached on a path of decided tests only (count 0 of `both_count`) and its exception (builtin exception
  hierarchy) is not caught inside the function; reached under tests that cannot be evaluated / caught by a `finally` /
  a partial operation without a witness lemma -> undecided; caught by a handler / not reached -> discharged.
* R11 the derivation does not depend on the content of the seed ("always ..", "all 16-byte random seeds"): in every
  function in which R5 located a derivation from the random bytes (and in the derivation function itself) (1)/(3) the
  branch tests / asserts (single-definition locals substituted) are scanned for uses of the seed term; uses of its
  *shape* (truthiness of a bytes value = not empty, `len`, `is None`, isinstance, an element of a literal sequence handed
  to any / all) are no content uses.  (2) A content test matters only if one of its branch edges dominates a `raise`
  outside a handler or a `return` whose value R5 does not classify as derived keys (or it is an assert).  Violated only
  for the forms with a written lemma that both outcomes occur among the 16-byte seeds - `any(seed)` / `all(seed)`
  (sixteen 0x00 / 0xFF bytes), `==` / `!=` / `in` / `not in` against constant 16-byte strings (that string / one that
  differs in a bit) - when the test is exactly that form (negations, and operands of and / or that the shape of the seed
  decides, aside) and every dominating condition is decided, with
  the required outcome, by three-valued evaluation under the named assumption "the seed is some bytes value of length
  16" (truthy, not None, len 16; nothing about its content); any other content test that controls such an exit ->
  undecided.  No seed value is enumerated or tried.

* R12 (round 8, seeded C06o) a magic test made on the raw plaintext covers the whole field: a suffix / prefix / slice comparison of the
  name handed to BeaconMetadata(..) with constant bytes, inside the first four bytes, must compare [0:4] with 00 00 BE EF; a
  narrower comparison that is the only magic test (no `.magic` read) is violated, everything else stays with R2 (undecided).
  Technique: syntax-tree query, constant folding of the bounds and of module-level byte constants (`(K).to_bytes(n, order)` folded).
"""

from __future__ import annotations

import ast
import copy
import re

from csverif.astutil import (
    assignments_to, bind_args, body_walk, const_eval, dotted, fn_calls, kwarg, NotConst, params, src, statements, strip_cast,
)
from csverif.cfg import ENTRY
from csverif.q import FuncView, dominating_conditions, inline, origin, raise_class

MAGIC = 0xBEEF
# reference table: width in bytes of the integer fields of the Beacon metadata on the wire (the "full integer width" of the
# property); compared with the C definition for the fields that are present under these names
_FIELD_BYTES = {"magic": 4, "size": 4, "ansi_cp": 2, "oem_cp": 2, "bid": 4, "pid": 4, "port": 2, "flag": 1, "ver_major": 1, "ver_minor": 1,
                "ver_build": 2, "ptr_x64": 4, "ptr_gmh": 4, "ptr_gpa": 4, "ip": 4}
_DERIVE = "c2.derive_aes_hmac_keys"
_SLOTS = {"aes_key": "aes", "hmac_key": "hmac"}
_KEY_FUNCS = ("c2.BeaconKeys.from_aes_rand", "c2.BeaconKeys.from_beacon_metadata", "c2.C2Http.__init__", "c2.C2Http.iter_recover_http",
              "client.HttpBeaconClient.run")


def _c(node, env=None):
    try:
        return const_eval(node, env) if node is not None else None
    except NotConst:
        return None


def _cenv(ctx, f):
    """Constant environment of function f: module-level constants of its module and constants it imports from other
    modules of the package (the loader folds new constants only inside the module that defines them)."""
    cache = ctx.__dict__.setdefault("_c06_cenv", {})
    if f.fq in cache:
        return cache[f.fq]
    from csverif.astutil import module_env

    fn = f.node
    locs = set(params(fn)) | {n.id for n in ast.walk(fn) if isinstance(n, ast.Name) and isinstance(n.ctx, (ast.Store, ast.Del))}

    def env(name):
        if name in locs:
            raise KeyError(name)
        sym = ctx.rs.symtabs.get(f.module.name, {}).get(name)
        mod = ctx.repo.modules.get(sym.module) if sym is not None and sym.kind == "const" else None
        if mod is None or sym.name not in mod.consts:
            raise KeyError(name)
        try:
            return const_eval(mod.consts[sym.name], module_env(mod))
        except NotConst:
            # integer arithmetic over the serialised length of a default-constructed structure of the package
            # (`len(S()) - 8`): constant folding (6) with that length read from the C definition
            e = mod.consts[sym.name]
            sub = _Env(consts=module_env(mod))
            for c in ast.walk(e):
                n = _default_struct_len(ctx, mod.name, c)
                if n is not None:
                    dict.__setitem__(sub, src(c), n)
            try:
                n = _val(e, sub) if len(sub) else None
            except _Unk:
                n = None
            if not isinstance(n, int) or isinstance(n, bool):
                raise KeyError(name)
            return n

    cache[f.fq] = env
    return env


# ======================================================================================================= generic helpers
_C_COMMENT = re.compile(r"//[^\n]*|/\*.*?\*/", re.S)
_C_DEFINE = re.compile(r"^[ \t]*#define[ \t]+(\w+)[ \t]+(.+?)[ \t]*$", re.M)
_C_INT_OPS = (ast.Add, ast.Sub, ast.Mult, ast.LShift, ast.RShift, ast.BitAnd, ast.BitOr, ast.BitXor)


def _c_int_expr(e):
    if isinstance(e, ast.Constant):
        return isinstance(e.value, int) and not isinstance(e.value, bool)
    if isinstance(e, ast.Name):
        return True
    if isinstance(e, ast.BinOp):
        return isinstance(e.op, _C_INT_OPS) and _c_int_expr(e.left) and _c_int_expr(e.right)
    if isinstance(e, ast.UnaryOp):
        return isinstance(e.op, ast.USub) and _c_int_expr(e.operand)
    return False


def _grammar_consts(ctx, modname, cd):
    """Grammar-level integer constants of the C definitions loaded into `cd`: `#define NAME <integer>` (engine parser) and
    `#define NAME <integer expression>` over integer literals / earlier #defines with + - * << >> & | ^ and parentheses
    (operators that mean the same in dissect.cstruct's expression language and in Python) - constant folding (6) of the
    definition text; a #define that is not of that form is simply not known (an identifier that stays unresolved)."""
    cache = ctx.__dict__.setdefault("_c06_gconsts", {})
    key = (modname, cd.var)
    if key in cache:
        return cache[key]
    out = dict(cd.defines)
    mod = ctx.repo.modules.get(modname)
    for name in cd.sources:
        v = mod.consts.get(name) if mod is not None else None
        if not (isinstance(v, ast.Constant) and isinstance(v.value, str)):
            continue
        for m in _C_DEFINE.finditer(_C_COMMENT.sub("", v.value)):
            if m.group(1) in out:
                continue
            try:
                e = ast.parse(m.group(2).strip(), mode="eval").body
            except (SyntaxError, ValueError):
                continue
            val = _c(e, out.__getitem__) if _c_int_expr(e) else None
            if isinstance(val, int) and not isinstance(val, bool):
                out[m.group(1)] = val
    cache[key] = out
    return out


def _count_expr(fld, consts=None, fields=()):
    """The array-length expression of a field of a C definition as a syntax tree, with the grammar-level constants
    (`#define`) it names replaced by their values.  dissect.cstruct resolves an identifier of such an expression first among
    the fields of the structure and then among the constants, so a field name is never replaced.  None: not an array."""
    if fld is None or not fld.count:
        return None
    try:
        e = ast.parse(fld.count.strip(), mode="eval").body
    except (SyntaxError, ValueError):
        return None
    consts = consts or {}

    class _S(ast.NodeTransformer):
        def visit_Name(self, node):
            if node.id in consts and node.id not in fields:
                return ast.copy_location(ast.Constant(value=consts[node.id]), node)
            return node

    return _S().visit(e)


def _count_form(fld, consts=None, fields=()):
    """Linear form of the array-length expression of a field of a C definition (None: not an array / not linear)."""
    e = _count_expr(fld, consts, fields)
    return _lin_norm(_lin(e)) if e is not None else None


def _default_struct_len(ctx, modname, e):
    """Value of `len(S())` / `len(S().dumps())` / `len(bytes(S()))` for a cstruct type S of the package, from the parsed C
    definition: the serialised length of a default-constructed structure.  Library lemma (dissect.cstruct): every field of
    a default-constructed structure is 0 / empty, and an array whose computed length is not positive serialises to
    nothing; so the length is the fixed part plus max(c, 0) elements of the one trailing variable array whose length
    expression is linear in the integer fields with constant term c.  None if e is not of that form."""
    from csverif import AnalysisError

    if not (isinstance(e, ast.Call) and dotted(e.func) == "len" and len(e.args) == 1 and not e.keywords):
        return None
    x = e.args[0]
    while True:
        if isinstance(x, ast.Call) and dotted(x.func) == "bytes" and len(x.args) == 1 and not x.keywords:
            x = x.args[0]
        elif isinstance(x, ast.Call) and isinstance(x.func, ast.Attribute) and x.func.attr == "dumps" and not x.args and not x.keywords:
            x = x.func.value
        else:
            break
    if not (isinstance(x, ast.Call) and not x.args and not x.keywords and dotted(x.func)):
        return None
    sym = ctx.rs.lookup_dotted(modname, dotted(x.func))
    if sym is None or sym.kind != "struct":
        return None
    try:
        cd = ctx.cdefs(sym.module).get(sym.cdef_var)
        st = cd.struct(sym.name) if cd is not None else None
    except AnalysisError:
        return None
    if st is None:
        return None
    if st.static_size is not None:
        return st.static_size
    dyn = [x for x in st.fields if x.size is None]
    if len(dyn) != 1 or dyn[0] is not st.fields[-1]:
        return None
    lf = _count_form(dyn[0], _grammar_consts(ctx, sym.module, cd), {x.name for x in st.fields})
    scalars = {x.name for x in st.fields if x.count is None and x.size is not None}
    el = cd.type_size(dyn[0].type)
    if lf is None or not set(lf) <= scalars | {""} or el is None or not el[0]:
        return None
    return st.fixed_prefix_size + max(lf.get("", 0), 0) * el[0]


def _unbytes(e):
    """`bytes(x)` / `bytearray(x)` / `memoryview(x)` / `cast(T, x)` -> x (a copy / view of a bytes value is the same value)."""
    while True:
        e = strip_cast(e)
        if isinstance(e, ast.Call) and dotted(e.func) in ("bytes", "bytearray", "memoryview") and len(e.args) == 1 and not e.keywords:
            e = e.args[0]
            continue
        return e


def _inl(fn, e):
    return _unbytes(inline(fn, e))


def _arg(call, idx, name):
    """Positional-or-keyword argument of an external call."""
    if len(call.args) > idx and not any(isinstance(a, ast.Starred) for a in call.args[: idx + 1]):
        return call.args[idx]
    return kwarg(call, name)


def _ext_name(ctx, f, call):
    """Dotted name of an external callee (import aliases resolved), else the literal dotted text."""
    cal = ctx.rs.resolve_call(f, call)
    if cal.kind == "external" and cal.fq:
        return cal.fq
    return dotted(call.func) or ""


def _mentions(e, keys, stop=frozenset()):
    """Does a sub-expression of e have one of the texts `keys`?  Sub-expressions whose text is in `stop` are not entered
    (a test of the object *parsed from* a value is not a test of that value)."""
    todo = [e]
    while todo:
        n = todo.pop()
        if isinstance(n, ast.expr):
            t = src(n)
            if t in keys:
                return True
            if t in stop:
                continue
        todo.extend(ast.iter_child_nodes(n))
    return False


def _in_handler(fv, node):
    return fv.enclosing(node, (ast.ExceptHandler,))


def _raise_cls(fv, r, flow=None):
    """Class raised by `r`; a bare `raise` / `raise e` inside `except X as e` re-raises X; `raise err` of a local that
    holds a constructed exception raises that class (value flow `flow`, else every definition of the local)."""
    h = _in_handler(fv, r)
    if r.exc is None or (h is not None and h.name and isinstance(r.exc, ast.Name) and r.exc.id == h.name):
        return dotted(h.type) if h is not None and h.type is not None else None
    if isinstance(r.exc, ast.Name):
        if flow is not None:
            v = flow.value(r, r.exc)
            if isinstance(v, _Sym) and v.cls:
                return v.cls
        from csverif.q import all_origins

        outs = [o for o in all_origins(fv.fn, r.exc) if not (isinstance(o, ast.Constant) and o.value is None)]
        names = {dotted(o.func) if isinstance(o, ast.Call) else None for o in outs}
        return names.pop() if len(names) == 1 and None not in names else None
    return raise_class(r)


# ---------------------------------------------------------------------------------------------------------- linear forms
def _lin(e, atom=None):
    """Linear form {atom text: coefficient, "": constant} of an (inlined) integer expression; None if not linear."""
    c = _c(e)
    if isinstance(c, int) and not isinstance(c, bool):
        return {"": c}
    if isinstance(e, ast.BinOp) and isinstance(e.op, (ast.Add, ast.Sub)):
        a, b = _lin(e.left, atom), _lin(e.right, atom)
        if a is None or b is None:
            return None
        sg = 1 if isinstance(e.op, ast.Add) else -1
        out = dict(a)
        for k, v in b.items():
            out[k] = out.get(k, 0) + sg * v
        return {k: v for k, v in out.items() if v or k == ""}
    if isinstance(e, ast.UnaryOp) and isinstance(e.op, (ast.USub, ast.UAdd)):
        a = _lin(e.operand, atom)
        if a is None:
            return None
        return a if isinstance(e.op, ast.UAdd) else {k: -v for k, v in a.items()}
    if isinstance(e, ast.BinOp) and isinstance(e.op, ast.Mult):
        for x, y in ((e.left, e.right), (e.right, e.left)):
            k = _c(x)
            if isinstance(k, int) and not isinstance(k, bool):
                a = _lin(y, atom)
                return None if a is None else {n: k * v for n, v in a.items()}
        return None
    if isinstance(e, ast.Call) and dotted(e.func) == "sum" and len(e.args) == 1 and not e.keywords:
        seq = _c(e.args[0])
        if isinstance(seq, (tuple, list)) and all(isinstance(x, int) and not isinstance(x, bool) for x in seq):
            return {"": sum(seq)}
    if isinstance(e, (ast.Name, ast.Attribute, ast.Call, ast.Subscript)):
        return {(atom(e) if atom else None) or src(e): 1}
    return None


def _lin_norm(f):
    return {k: v for k, v in f.items() if v} if f is not None else None


def _gt0(left, op, right, pol, atom):
    """Linear form F such that (`left op right` is pol) <=> F > 0 over the integers."""
    l, r = _lin(left, atom), _lin(right, atom)
    if l is None or r is None:
        return None
    t = type(op)
    if not pol:
        t = {ast.Gt: ast.LtE, ast.GtE: ast.Lt, ast.Lt: ast.GtE, ast.LtE: ast.Gt}.get(t)
    if t not in (ast.Gt, ast.GtE, ast.Lt, ast.LtE):
        return None
    a, b = (l, r) if t in (ast.Gt, ast.GtE) else (r, l)
    out = dict(a)
    for k, v in b.items():
        out[k] = out.get(k, 0) - v
    if t in (ast.GtE, ast.LtE):
        out[""] = out.get("", 0) + 1
    return _lin_norm(out)


# ----------------------------------------------------- three-valued evaluation of tests under assumptions, value flow
class _Unk(Exception):
    pass


class _Both(_Unk):
    """The test is not decided by the assumptions *and both outcomes are possible under them* (a stated lemma says so):
    both branch edges are feasible, and this is a fact, not a gap of the evaluation."""


BOTH = "both"


class _Sym:
    """An opaque run-time value: identical/equal to itself only.  `truth` (None = unknown) and `notnone` are the facts
    assumed about it.  An `anon` symbol stands for *some* value with those facts (several different values may be
    represented by the same anonymous symbol: it is never equal / identical to anything, itself included)."""

    def __init__(self, label, truth=None, notnone=False, anon=False, cls=None, ne=(), width=None, masked=None, rng=None, length=None, pytype=None, affine=None):
        self.label, self.truth, self.notnone, self.anon, self.cls = label, truth, notnone, anon, cls
        # an unsigned integer field of `width` bits about which only `value not in ne` is assumed ("any other value");
        # masked = (that symbol, M): the symbol is `value & M`;
        # rng = (lo, hi): an integer about which only `lo <= value < hi` (and `value not in ne`) is assumed - the interval
        # domain; an unsigned field of `width` bits without an explicit interval has the interval [0, 2^width)
        self.ne, self.width, self.masked = frozenset(ne), width, masked
        self.rng = rng if rng is not None else (0, 1 << width) if width else None
        self.length, self.pytype = length, pytype  # the value of len(<this value>) / its builtin type, where assumed
        self.affine = affine  # (symbol s, integer c): this value is s + c

    def __repr__(self):
        return f"<{self.label}>"


class _Env(dict):
    """Value environment keyed by expression text (local names included); ('label', 'attr') keys give the value of an
    attribute of a symbolic object.  Records which keys were read."""

    def __init__(self, *a, hits=None, consts=None):
        super().__init__(*a)
        self.hits = hits if hits is not None else set()
        self.consts = consts if consts is not None else getattr(a[0], "consts", None) if a and isinstance(a[0], _Env) else consts

    def __getitem__(self, k):
        self.hits.add(k)
        return super().__getitem__(k)


_BIN = {
    ast.Add: lambda a, b: a + b, ast.Sub: lambda a, b: a - b, ast.Mult: lambda a, b: a * b, ast.FloorDiv: lambda a, b: a // b,
    ast.Mod: lambda a, b: a % b, ast.BitOr: lambda a, b: a | b, ast.BitAnd: lambda a, b: a & b, ast.BitXor: lambda a, b: a ^ b,
    ast.LShift: lambda a, b: a << b, ast.RShift: lambda a, b: a >> b,
}
_TYPES = {"bytes": bytes, "bytearray": bytearray, "str": str, "int": int, "bool": bool, "memoryview": memoryview}


_ANON = {}


def _anon(truth, cls=None):
    """The canonical anonymous non-None value with the given truthiness (and, for a constructed object, class name)."""
    k = (truth, cls)
    if k not in _ANON:
        _ANON[k] = _Sym(f"some non-None value (truth {truth}, class {cls})", truth=truth, notnone=True, anon=True, cls=cls)
    return _ANON[k]


def _facts(v):
    """(is known not to be None, truthiness | None, class name of a constructed object | None)"""
    if isinstance(v, _Sym):
        return v.notnone, v.truth, v.cls
    return v is not None, bool(v), None


def _truth(v):
    if isinstance(v, _Sym):
        if v.truth is None:
            if v.rng is not None and v.masked is None:
                # lemma: an integer is truthy iff it is != 0 - the comparison of the interval value with the constant 0
                return _cmp_other(v, ast.NotEq(), 0, False)
            raise _Unk()
        return v.truth
    return bool(v)


def _val(e, env):
    """Value of expression e when the expressions whose text is a key of env have the assumed values: constant folding
    over the constants of the code and of the assumptions; anything that involves an opaque symbol beyond the facts
    recorded for it (truthiness, not None, `!=` constants of an integer field) is unknown (_Unk)."""
    k = src(e)
    if k in env:
        return env[k]
    if isinstance(e, ast.Constant):
        return e.value
    if isinstance(e, ast.Name) and getattr(env, "consts", None) is not None:
        try:
            return env.consts(e.id)
        except KeyError:
            raise _Unk()
    if isinstance(e, (ast.Tuple, ast.List, ast.Set)):
        return tuple(_val(x, env) for x in e.elts)
    if isinstance(e, ast.UnaryOp):
        v = _val(e.operand, env)
        if isinstance(e.op, ast.Not):
            return not _truth(v)
        if isinstance(v, int) and isinstance(e.op, (ast.USub, ast.Invert, ast.UAdd)):
            return -v if isinstance(e.op, ast.USub) else ~v if isinstance(e.op, ast.Invert) else v
        raise _Unk()
    if isinstance(e, ast.BoolOp):
        v = None
        for x in e.values:
            v = _val(x, env)
            if _truth(v) != isinstance(e.op, ast.And):
                return v
        return v
    if isinstance(e, ast.IfExp):
        return _val(e.body if _truth(_val(e.test, env)) else e.orelse, env)
    if isinstance(e, ast.NamedExpr):
        return _val(e.value, env)
    if isinstance(e, ast.JoinedStr):
        # a formatted string: a str, non-empty when it has a non-empty literal part
        lit = any(isinstance(p, ast.Constant) and p.value for p in e.values)
        return _anon(True if lit else None)
    if isinstance(e, ast.Attribute):
        b = _val(e.value, env)
        if isinstance(b, _Sym) and (b.label, e.attr) in env:
            return env[(b.label, e.attr)]
        raise _Unk()
    if isinstance(e, ast.BinOp) and type(e.op) in _BIN:
        a, b = _val(e.left, env), _val(e.right, env)
        if isinstance(e.op, ast.BitAnd) and (isinstance(a, _Sym) != isinstance(b, _Sym)):
            o, m = (a, b) if isinstance(a, _Sym) else (b, a)
            if o.width and isinstance(m, int) and not isinstance(m, bool) and not o.masked:
                full = (1 << o.width) - 1
                if m & full == full:
                    return o  # x & 0xFF..F == x for a field of that width
                return _Sym(f"{o.label} & {m:#x}", anon=True, notnone=True, masked=(o, m & full))
        if isinstance(e.op, (ast.Add, ast.Sub)) and (isinstance(a, _Sym) != isinstance(b, _Sym)):
            # interval transfer: [lo, hi) + c = [lo + c, hi + c), [lo, hi) - c = [lo - c, hi - c), c - [lo, hi) = (c - hi, c - lo]
            # (Python integers do not wrap); only for a value about which nothing but its interval is assumed
            o, c = (a, b) if isinstance(a, _Sym) else (b, a)
            if o.rng is not None and o.masked is None and not o.ne and isinstance(c, int) and not isinstance(c, bool):
                lo, hi = o.rng
                base, off = o.affine or (o, 0)
                if isinstance(e.op, ast.Add):
                    return _Sym(f"({src(e)})", anon=True, notnone=True, rng=(lo + c, hi + c), affine=(base, off + c))
                if o is a:
                    return _Sym(f"({src(e)})", anon=True, notnone=True, rng=(lo - c, hi - c), affine=(base, off - c))
                return _Sym(f"({src(e)})", anon=True, notnone=True, rng=(c - hi + 1, c - lo + 1))
        if isinstance(a, _Sym) or isinstance(b, _Sym):
            raise _Unk()
        try:
            return _BIN[type(e.op)](a, b)
        except Exception:
            raise _Unk()
    if isinstance(e, ast.Compare):
        # "both outcomes occur" (_Both) is a statement about *one* comparison of the assumed value with a constant: it is
        # not handed on from an operand, nor from a link of a chain (the links of a chain are correlated)
        def operand(x):
            try:
                return _val(x, env)
            except _Both:
                raise _Unk()

        left = operand(e.left)
        for op, rn in zip(e.ops, e.comparators):
            right = operand(rn)
            try:
                if not _cmp(left, op, right):
                    return False
            except _Both:
                if len(e.ops) == 1:
                    raise
                raise _Unk()
            left = right
        return True
    if isinstance(e, ast.Subscript):
        b = _val(e.value, env)
        if isinstance(b, _Sym):
            raise _Unk()
        try:
            if isinstance(e.slice, ast.Slice):
                lo, hi, stp = (None if x is None else _val(x, env) for x in (e.slice.lower, e.slice.upper, e.slice.step))
                return b[lo:hi:stp]
            return b[_val(e.slice, env)]
        except _Unk:
            raise
        except Exception:
            raise _Unk()
    if isinstance(e, ast.Call) and not e.keywords:
        name = dotted(e.func)
        if name in ("len", "bool") and len(e.args) == 1:
            v = _val(e.args[0], env)
            if name == "bool":
                return _truth(v)
            if isinstance(v, _Sym):
                if v.length is not None:
                    return v.length
                raise _Unk()
            try:
                return len(v)
            except Exception:
                raise _Unk()
        if name and name.split(".")[-1][:1].isupper() and name.split(".")[-1].endswith(("Error", "Exception", "Warning")):
            return _anon(True, name.split(".")[-1])  # an exception object
        if name == "isinstance" and len(e.args) == 2:
            v = _val(e.args[0], env)
            ts = e.args[1].elts if isinstance(e.args[1], ast.Tuple) else [e.args[1]]
            if not all(dotted(t) in _TYPES for t in ts) or (isinstance(v, _Sym) and v.pytype is None):
                raise _Unk()
            if isinstance(v, _Sym):
                return issubclass(v.pytype, tuple(_TYPES[dotted(t)] for t in ts))
            return isinstance(v, tuple(_TYPES[dotted(t)] for t in ts))
    raise _Unk()


def _free(o, lo, hi):
    """Number of values v of the field o with lo <= v < hi that are not excluded: size of the interval clipped to the range
    of the field (its interval `rng`) minus the excluded constants that lie in it (interval arithmetic; the field is not enumerated)."""
    lo, hi = max(lo, o.rng[0]), min(hi, o.rng[1])
    return max(hi - lo, 0) - sum(1 for x in o.ne if isinstance(x, int) and lo <= x < hi)


_FLIP = {ast.Lt: ast.Gt, ast.LtE: ast.GtE, ast.Gt: ast.Lt, ast.GtE: ast.LtE}


def _cmp_other(o, op, k, mirrored):
    """Comparison of o = "any value of the field except those in o.ne" (or such a value masked) with the constant k.
    Lemmas (v ranges over V = the values of the interval of o - [0, 2^width) for an unsigned `width`-bit field, or the
    stated interval [lo, hi) - that are not in the finite set ne; |S| is counted by `_free`):
      * v == k: the values of V that make it true are V & {k}, those that make it false V - {k}.  So it is False for k in
        ne or out of range; otherwise true for v = k, and false for some v iff |V| >= 2 (both outcomes occur);
      * v in (k1, .., kn): true on V & {k1..kn}, false on V - {k1..kn}; decided / both outcomes by the same counting;
      * v < k (<=, >, >=; `k < v` is `v > k`): true exactly on an interval of the field ([lo, k), [lo, k], (k, hi),
        [k, hi)), false on its complement; the outcome is decided if one of the two sets has no element of V, and both
        outcomes occur if both have one;
      * s + a <op> s + b <=> a <op> b for two values that are the same symbol s plus constants;
      * (v & M) == (c & M) for ne == {c} and M neither 0 nor all ones: both outcomes occur (v = c with a bit outside M
        flipped is in V and agrees with c on M; v = c with a bit inside M flipped is in V and disagrees on M)."""
    if isinstance(k, _Sym) and o.masked is None and k.masked is None and k.rng is not None and type(op) in (ast.Eq, ast.NotEq, ast.Lt, ast.LtE, ast.Gt, ast.GtE):
        # lemma: s + a <op> s + b  <=>  a <op> b (two values that are the same symbol plus constants)
        (bo, a), (bk, b) = o.affine or (o, 0), k.affine or (k, 0)
        if bo is bk and not bo.anon:
            return _cmp(b, op, a) if mirrored else _cmp(a, op, b)
    if isinstance(k, _Sym) or isinstance(k, bool) or not isinstance(k, (int, tuple)):
        raise _Unk()
    if o.masked is not None:
        base, m = o.masked
        full = (1 << base.width) - 1
        if isinstance(op, (ast.Eq, ast.NotEq)) and isinstance(k, int) and len(base.ne) == 1 and 0 < m < full and k == (next(iter(base.ne)) & m):
            raise _Both()
        raise _Unk()
    rlo, rhi = o.rng
    total = _free(o, rlo, rhi)
    if isinstance(op, (ast.Eq, ast.NotEq, ast.In, ast.NotIn)):
        if isinstance(op, (ast.In, ast.NotIn)):
            if mirrored or not isinstance(k, tuple) or not all(isinstance(x, int) and not isinstance(x, bool) for x in k):
                raise _Unk()
            members = set(k)
        elif isinstance(k, int):
            members = {k}
        else:
            raise _Unk()
        yes = sum(_free(o, x, x + 1) for x in members)  # elements of V that make `==` / `in` true
        no = total - yes
        positive = isinstance(op, (ast.Eq, ast.In))
    elif type(op) in _FLIP and isinstance(k, int):
        t = _FLIP[type(op)] if mirrored else type(op)
        lo, hi = {ast.Lt: (rlo, k), ast.LtE: (rlo, k + 1), ast.Gt: (k + 1, rhi), ast.GtE: (k, rhi)}[t]
        yes = _free(o, lo, hi)
        no = total - yes
        positive = True
    else:
        raise _Unk()
    if yes > 0 and no > 0:
        raise _Both()
    if yes > 0 or no > 0:
        return (yes > 0) == positive
    raise _Unk()


def _cmp(a, op, b):
    for o, k, mirrored in ((a, b, False), (b, a, True)):
        if isinstance(o, _Sym) and (o.rng is not None or o.masked is not None):
            return _cmp_other(o, op, k, mirrored)
    sym = isinstance(a, _Sym) or isinstance(b, _Sym)
    if any(isinstance(x, _Sym) and x.anon for x in (a, b)):
        # only `is (not) None` / `== None` is decided for an anonymous value
        o, k = (a, b) if isinstance(a, _Sym) and a.anon else (b, a)
        if k is None and o.notnone and isinstance(op, (ast.Is, ast.IsNot, ast.Eq, ast.NotEq)):
            return isinstance(op, (ast.IsNot, ast.NotEq))
        raise _Unk()
    if isinstance(op, (ast.Is, ast.IsNot)):
        single = (None, True, False)
        if sym:
            if a is not b and not (isinstance(a, _Sym) and isinstance(b, _Sym)):
                o, k = (a, b) if isinstance(a, _Sym) else (b, a)
                if not (k is None and o.notnone):
                    raise _Unk()
            same = a is b
        elif any(a is s for s in single) or any(b is s for s in single):
            same = a is b
        else:
            raise _Unk()
        return same if isinstance(op, ast.Is) else not same
    if isinstance(op, (ast.Eq, ast.NotEq)):
        if sym:
            if a is not b:
                o, k = (a, b) if isinstance(a, _Sym) else (b, a)
                # lemma: equal values of the builtin types have the same truthiness, so a value of known truthiness is
                # not equal to a constant of the other truthiness (`pt == b""` for a non-empty pt)
                differ = not isinstance(k, _Sym) and isinstance(k, (bytes, str, int, tuple, type(None))) and o.truth is not None and bool(k) != o.truth
                if not (k is None and o.notnone) and not differ:
                    raise _Unk()
            eq = a is b
        else:
            eq = a == b
        return eq if isinstance(op, ast.Eq) else not eq
    if sym:
        raise _Unk()
    try:
        if isinstance(op, ast.Lt):
            return a < b
        if isinstance(op, ast.LtE):
            return a <= b
        if isinstance(op, ast.Gt):
            return a > b
        if isinstance(op, ast.GtE):
            return a >= b
        if isinstance(op, ast.In):
            return a in b
        if isinstance(op, ast.NotIn):
            return a not in b
    except Exception:
        pass
    raise _Unk()


def _tv(e, env):
    """Truth of a test under the assumptions: True / False / BOTH (both outcomes are possible, by a lemma) / None (not
    decidable by this evaluation)."""
    if isinstance(e, ast.UnaryOp) and isinstance(e.op, ast.Not):
        v = _tv(e.operand, env)
        return v if v in (None, BOTH) else not v
    if isinstance(e, ast.BoolOp):
        stop = not isinstance(e.op, ast.And)  # `and` is decided by a false operand, `or` by a true one
        seen = []
        for x in e.values:
            v = _tv(x, env)
            if v is stop:
                # everything before it was either passed or open; in all cases the result has this truth
                return stop
            seen.append(v)
        if None in seen:
            return None
        # all other operands passed and exactly one is open: the result is that operand's, both outcomes occur.  Two open
        # operands may be correlated (`v < k or v > k`): nothing is claimed
        return (not stop) if BOTH not in seen else BOTH if seen.count(BOTH) == 1 else None
    try:
        return _truth(_val(e, env))
    except _Both:
        # only a single comparison `assumed value <op> constant` carries the lemma (see _val / _cmp_other); the truth of
        # the assumed value itself is the comparison `value != 0` (see _truth)
        return BOTH if (isinstance(e, ast.Compare) and len(e.ops) == 1) or isinstance(e, (ast.Name, ast.Attribute)) else None
    except _Unk:
        return None


def _same_value(a, b):
    return a is b or (not isinstance(a, _Sym) and not isinstance(b, _Sym) and type(a) is type(b) and a == b)


def _join_value(a, b):
    """Least upper bound of two values of a local at a merge point: the value if both agree, an anonymous non-None value
    if both are known not to be None (`error = "a"` / `error = f"b {x}"` are both `is not None`), else unknown (None)."""
    if _same_value(a, b):
        return a
    (na, ta, ca), (nb, tb, cb) = _facts(a), _facts(b)
    if na and nb:
        return _anon(ta if ta == tb else None, ca if ca == cb else None)
    return _Flow.NOVAL


def _stored_names(t):
    return [n.id for n in ast.walk(t) if isinstance(n, ast.Name) and isinstance(n.ctx, (ast.Store, ast.Del))]


def _return_expr(g):
    """The expression a package function / lambda evaluates to when its whole body is `return E` (docstring aside) with
    plain parameters; None otherwise (several statements, generator, star parameters, decorators ..)."""
    node = g.node
    a = node.args
    if a.vararg is not None or a.kwarg is not None:
        return None
    if isinstance(node, ast.Lambda):
        e = node.body
    elif isinstance(node, ast.FunctionDef) and not node.decorator_list:
        body = [s for s in node.body if not (isinstance(s, ast.Expr) and isinstance(s.value, ast.Constant))]
        if len(body) != 1 or not isinstance(body[0], ast.Return) or body[0].value is None:
            return None
        e = body[0].value
    else:
        return None
    if any(isinstance(n, (ast.Yield, ast.YieldFrom, ast.Await, ast.NamedExpr, ast.Lambda, ast.ListComp, ast.SetComp, ast.DictComp, ast.GeneratorExp)) for n in ast.walk(e)):
        return None
    return e


def _expand_calls(ctx, f, e, depth=0):
    """e with every call of a package function whose body is a single `return E` replaced by E with the parameters bound to
    the argument expressions (function summary by argument binding (3): a predicate `def ok(m): return m.magic == K` used
    as `if not ok(metadata)` is the test `not metadata.magic == K`).  Only plain functions / lambdas (no methods); a free
    name of E must mean the same at the call site (same module, not a local of the caller).  Returns e itself when nothing
    was expanded."""
    if depth > 4 or not any(isinstance(n, ast.Call) for n in ast.walk(e)):
        return e
    locs = set(params(f.node)) | {n.id for n in ast.walk(f.node) if isinstance(n, ast.Name) and isinstance(n.ctx, (ast.Store, ast.Del))}
    changed = [False]

    class _X(ast.NodeTransformer):
        def visit_Call(self, node):
            self.generic_visit(node)
            cal = ctx.rs.resolve_call(f, node)
            g = cal.func if cal.kind == "func" else None
            if g is None or g.cls is not None or getattr(cal, "bound", None) or g.fq == f.fq:
                return node
            body = _return_expr(g)
            if body is None:
                return node
            ps = set(params(g.node))
            free = {n.id for n in ast.walk(body) if isinstance(n, ast.Name) and n.id not in ps}
            if free and (g.module.name != f.module.name or free & locs):
                return node
            b = bind_args(node, g.node)
            if any(b.get(p) is None for p in ps):
                return node
            out = _subst(body, {p: b[p] for p in ps})
            if out is None:
                return node
            changed[0] = True
            return ast.copy_location(_expand_calls(ctx, f, out, depth + 1), node)

    out = _X().visit(copy.deepcopy(e))
    return ast.fix_missing_locations(out) if changed[0] else e



class _Flow:
    """Forward data-flow propagation (work list, joins at merge points) of constant / symbolic values of locals along the
    CFG of f under the assumptions `fixed` (an _Env: expression text -> assumed constant or symbol).  Branch edges whose test evaluates to a definite truth value for the values that
    reach it are followed on the feasible side only.  After the run: `live(stmt)`, `value(stmt, expr)`, `opaque` = the
    reached tests that could not be evaluated although they look at a tainted value (`taint`: expression texts; the
    taint flows through assignments but not through the sub-expressions whose text is in `stop`)."""

    NOVAL = object()

    def __init__(self, ctx, f, fixed, taint=frozenset(), stop=frozenset(), magic_attr=None, no_exceptions=False, parses=None):
        self.cfg, self.fn, self.fixed = ctx.cfg(f), f.node, fixed
        self.ctx, self.f = ctx, f
        self.parses = dict(parses or {})  # label of the symbol of a parsed object -> its parse call
        self._forms_cache = {}
        # no_exceptions: the assumption "no statement raises implicitly" - only an explicit `raise` enters a handler
        self.no_exceptions = no_exceptions
        self.taint, self.stop = set(taint), set(stop)
        self.attrs = {magic_attr} if isinstance(magic_attr, str) else set(magic_attr or ())  # attributes with an assumed value
        self.IN = {}
        self._opaque = {}
        self.verdict = {}  # id(if / while statement) -> True | False | BOTH | None of its test for the values that reach it
        self._run()

    # ------------------------------------------------------------------ evaluation
    def _env(self, vals):
        e = _Env(self.fixed, hits=self.fixed.hits, consts=self.fixed.consts)
        e.update(vals)
        return e

    def _forms(self, expr):
        """The forms in which an expression is evaluated: as written, with single-definition temporaries substituted, and
        with the calls of single-expression package functions replaced by their bodies (`_expand_calls`)."""
        got = self._forms_cache.get(id(expr))
        if got is None or got[0] is not expr:
            forms = [expr]
            i = inline(self.fn, expr)
            if src(i) != src(expr):
                forms.append(i)
            for e in list(forms):
                x = _expand_calls(self.ctx, self.f, e)
                if x is not e:
                    forms.append(x)
            got = self._forms_cache[id(expr)] = (expr, forms)
        return got[1]

    def _value(self, expr, vals):
        env = self._env(vals)
        for e in self._forms(expr):
            try:
                return _val(e, env)
            except _Unk:
                continue
        return self.NOVAL

    def _truth3(self, test, vals):
        env = self._env(vals)
        v = None
        for e in self._forms(test):
            v = _tv(e, env)
            if v is not None:
                break
        return v

    def _tainted(self, e, names):
        todo = [e]
        while todo:
            n = todo.pop()
            if isinstance(n, ast.expr):
                t = src(n)
                if t in self.taint or (isinstance(n, ast.Name) and n.id in names):
                    return True
                if t in self.stop:
                    continue
            todo.extend(ast.iter_child_nodes(n))
        return False

    # ------------------------------------------------------------------ transfer
    def _bind(self, name, value_expr, vals, names, idx=None):
        v = self._value(value_expr, vals) if idx is None else self.NOVAL
        if v is self.NOVAL:
            vals.pop(name, None)
        else:
            vals[name] = v
        if self._tainted(value_expr, names):
            names.add(name)
        else:
            names.discard(name)

    def _transfer(self, st, vals, names):
        vals, names = dict(vals), set(names)
        heads = [st.test] if isinstance(st, (ast.If, ast.While)) else [st.iter] if isinstance(st, (ast.For, ast.AsyncFor)) else \
            [i.context_expr for i in st.items] if isinstance(st, (ast.With, ast.AsyncWith)) else [] if isinstance(st, (ast.Try, ast.ExceptHandler, ast.FunctionDef, ast.AsyncFunctionDef, ast.ClassDef)) else [st]
        for h in heads:
            for n in ast.walk(h):
                if isinstance(n, ast.NamedExpr):
                    self._bind(n.target.id, n.value, vals, names)
        if isinstance(st, ast.Assign):
            for t in st.targets:
                for te, v in _pairs(t, st.value):
                    if isinstance(te, ast.Name):
                        if isinstance(v, tuple):
                            self._bind(te.id, v[0], vals, names, v[1])
                        else:
                            self._bind(te.id, v, vals, names)
                    else:
                        for nm in _stored_names(te):
                            vals.pop(nm, None)
                            names.discard(nm)
        elif isinstance(st, ast.AnnAssign) and isinstance(st.target, ast.Name) and st.value is not None:
            self._bind(st.target.id, st.value, vals, names)
        elif isinstance(st, ast.AugAssign) and isinstance(st.target, ast.Name):
            vals.pop(st.target.id, None)
        elif isinstance(st, (ast.For, ast.AsyncFor)):
            for nm in _stored_names(st.target):
                vals.pop(nm, None)
                names.discard(nm)
                if self._tainted(st.iter, names):
                    names.add(nm)
        elif isinstance(st, (ast.With, ast.AsyncWith)):
            for i in st.items:
                if i.optional_vars is not None:
                    for nm in _stored_names(i.optional_vars):
                        vals.pop(nm, None)
        elif isinstance(st, ast.ExceptHandler) and st.name:
            vals.pop(st.name, None)
        elif isinstance(st, ast.Delete):
            for t in st.targets:
                for nm in _stored_names(t):
                    vals.pop(nm, None)
        elif isinstance(st, (ast.FunctionDef, ast.AsyncFunctionDef, ast.ClassDef)):
            vals.pop(st.name, None)
        return vals, names

    def _join(self, old, new):
        if old is None:
            return new
        vals = {}
        for k, v in old[0].items():
            if k in new[0]:
                j = _join_value(v, new[0][k])
                if j is not _Flow.NOVAL:
                    vals[k] = j
        return vals, old[1] | new[1]

    @staticmethod
    def _eq(a, b):
        return a[1] == b[1] and a[0].keys() == b[0].keys() and all(_same_value(v, b[0][k]) for k, v in a[0].items())

    def _run(self):
        cfg = self.cfg
        self.IN[ENTRY] = ({}, set())
        work = [ENTRY]
        while work:
            n = work.pop()
            vals, names = self.IN[n]
            st = cfg.stmt.get(n)
            succs = list(cfg.g.successors(n))
            if st is not None:
                out = self._transfer(st, vals, names)
                if isinstance(st, (ast.If, ast.While)):
                    v = self._truth3(st.test, out[0])
                    self.verdict[id(st)] = v
                    self._opaque.pop(id(st), None)
                    if v is True or v is False:
                        dead = cfg.edge_node(st, "false" if v else "true")
                        succs = [x for x in succs if x != dead]
                    elif v is None and self._looks_at(st.test, out[1], out[0]):
                        self._opaque[id(st)] = st
            else:
                out = (vals, names)
            if self.no_exceptions and not isinstance(st, ast.Raise):
                succs = [x for x in succs if x[0] != "fin" and not isinstance(cfg.stmt.get(x), ast.ExceptHandler)]
            for x in succs:
                new = self._join(self.IN.get(x), out)
                if x not in self.IN or not self._eq(self.IN[x], new):
                    self.IN[x] = new
                    work.append(x)

    def _looks_at(self, test, names, vals=None):
        forms = self._forms(test)
        if any(self._tainted(e, names) for e in forms):
            return True
        if self.attrs and any(isinstance(n, ast.Attribute) and n.attr in self.attrs for e in forms for n in ast.walk(e)):
            return True
        if self.attrs and self.parses and vals is not None:
            # the parsed object itself is handed to a call whose outcome is tested (a predicate that is not a single
            # expression, an entry of a table of checks ..): the callee may look at any of its fields
            for e in forms:
                for n in ast.walk(e):
                    if isinstance(n, ast.Call):
                        for a in list(n.args) + [k.value for k in n.keywords]:
                            v = self._value(a.value if isinstance(a, ast.Starred) else a, vals)
                            if isinstance(v, _Sym) and v.label in self.parses:
                                return True
        return False

    # ------------------------------------------------------------------ results
    @property
    def opaque(self):
        return list(self._opaque.values())

    def live(self, st):
        return self.cfg.has(st) and self.cfg.node(st) in self.IN

    def value(self, st, expr):
        """Value of expr when statement st starts (NOVAL if unknown / st not reached)."""
        if not self.live(st):
            return self.NOVAL
        return self._value(expr, self.IN[self.cfg.node(st)][0])

    def tainted(self, st, expr):
        return self.live(st) and self._tainted(expr, self.IN[self.cfg.node(st)][1])

    def both_count(self, caught=None):
        """`caught`: {id(raise statement): handler that catches it} - the only edges into handlers that are followed.
        {CFG node: the least number of tests with verdict BOTH on a path ENTRY -> node} over the paths that use only
        normal edges (no edge into an exception handler / finally entry), follow every decided test on its feasible side
        and pass no test that could not be evaluated (and no `for` header: the number of iterations is not known).  A node
        with count 0 is reached under the assumptions whatever the assumed values are; a node with count 1 is reached for
        some of the assumed values (the lemma behind the one BOTH verdict says so); two BOTH tests on a path may be
        correlated, so nothing is claimed for counts >= 2.  Graph search (shortest path with 0/1 weights), no values."""
        import heapq

        cfg = self.cfg
        dist = {ENTRY: 0}
        heap = [(0, 0, ENTRY)]
        tick = 0
        while heap:
            dn, _t, n = heapq.heappop(heap)
            if dn > dist.get(n, dn):
                continue
            st = cfg.stmt.get(n)
            succs = list(cfg.g.successors(n))
            cost = 0
            if isinstance(st, (ast.If, ast.While)):
                v = self.verdict.get(id(st))
                if v is True or v is False:
                    succs = [cfg.edge_node(st, "true" if v else "false")]
                elif v == BOTH:
                    cost = 1
                else:
                    succs = []
            elif isinstance(st, (ast.For, ast.AsyncFor)):
                succs = []
            elif isinstance(st, ast.Raise):
                h = (caught or {}).get(id(st))
                succs = [cfg.node(h)] if h is not None and cfg.has(h) else []
            for x in succs:
                if x not in self.IN or x[0] in ("fin", "raise") or not cfg.g.has_edge(n, x) or (isinstance(cfg.stmt.get(x), ast.ExceptHandler) and not isinstance(st, ast.Raise)):
                    continue
                if dn + cost < dist.get(x, 1 << 30):
                    dist[x] = dn + cost
                    tick += 1
                    heapq.heappush(heap, (dn + cost, tick, x))
        return dist


# ------------------------------------------------------------------------------------------------- attribute stores
def _pairs(target, value):
    """(target element, value expression | (value, index)) of an assignment, tuple targets split."""
    if isinstance(target, (ast.Tuple, ast.List)):
        if isinstance(value, (ast.Tuple, ast.List)) and len(value.elts) == len(target.elts) and not any(isinstance(x, ast.Starred) for x in value.elts + target.elts):
            for t, v in zip(target.elts, value.elts):
                yield from _pairs(t, v)
        elif not any(isinstance(x, ast.Starred) for x in target.elts):
            for i, t in enumerate(target.elts):
                yield t, (value, i)
        return
    yield target, value


def _attr_stores(fn, attr):
    """(stmt, target Attribute, value | (value, index) | None) for every store into an attribute named `attr`
    (`x.attr = v`, tuple targets, `x.attr += v` -> None, `setattr(x, "attr", v)`)."""
    out = []
    for st in statements(fn):
        if isinstance(st, ast.Assign):
            for t in st.targets:
                for te, v in _pairs(t, st.value):
                    if isinstance(te, ast.Attribute) and te.attr == attr:
                        out.append((st, te, v))
        elif isinstance(st, ast.AnnAssign) and st.value is not None and isinstance(st.target, ast.Attribute) and st.target.attr == attr:
            out.append((st, st.target, st.value))
        elif isinstance(st, ast.AugAssign) and isinstance(st.target, ast.Attribute) and st.target.attr == attr:
            out.append((st, st.target, None))
        elif isinstance(st, ast.Expr) and isinstance(st.value, ast.Call) and dotted(st.value.func) == "setattr" and len(st.value.args) == 3 and _c(st.value.args[1]) == attr:
            c = st.value
            out.append((st, ast.copy_location(ast.Attribute(value=c.args[0], attr=attr, ctx=ast.Store()), c), c.args[2]))
    return out


def _is_struct(ctx, f, e, name):
    t = ctx.rs.expr_type(f, e)
    return bool(t) and t.startswith("struct:") and t.endswith("." + name)


# ======================================================================================================================
def run(ctx):
    rep = ctx.rep
    rep.explanation = (
        "Static analysis of c_c2.py/c2.py/client.py: BeaconMetadata layout arithmetic from C2_DEF (fixed part 59 bytes, "
        "size-51 array with #define constants folded, len-8 size field, compared as linear normal forms), may-raise set of "
        "decrypt_metadata (a generator-based context manager is woven into the with statement that uses it), CFG reachability of a return / of the struct "
        "parse in decrypt_metadata under the named cases 'the decryption result is the sentinel the code passes', 'it is "
        "the empty bytes value', 'it is a real plaintext whose parsed magic is 0xBEEF / is any other 32-bit value' "
        "(forward propagation of constants, nullness and truthiness; branch tests evaluated three-valued, comparisons "
        "with the symbolic magic decided by interval lemmas; infeasible edges pruned), writer/reader agreement on the "
        "magic and the RSA cipher construction, the PKCS#1 v1.5 length bound as a linear form, and role checks of every "
        "session-key derivation (SHA-256 halves by normalised constant slice bounds reaching aes_key / hmac_key slots, "
        "derived from the 16 aes_rand bytes; every integer field of BeaconMetadata an unsigned type of the transported width; "
        "no returned / stored session keys taken from state that outlives the call under a key that does not determine the seed), and acceptance of every well-formed metadata by decrypt_metadata: no raise / "
        "failing assert is reached when the parsed fields range over the domain read from C2_DEF (magic 0xBEEF, size field "
        "51 + len(info) as the interval [51, 237], every other integer field the interval of its width; branch tests decided "
        "by interval lemmas), no partial operation (fixed-arity unpacking / indexing of split parts, byte indexing, strict decoding, "
        "index(), int()) on the free-form info field on the accept path of decrypt_metadata, and no raise / assert / return of non-derived "
        "keys decided by a test of the bytes of the seed in the functions that derive session keys.  "
        "No code of the repository is executed or evaluated on sample inputs."
    )
    rep.not_decided = [
        "field-for-field equality after RSA for all values (cstruct dumps/parse round trip and RSA are library behaviour)",
        "PKCS#1 v1.5 limits (library)",
        "rejection tests of decrypt_metadata that combine several correlated comparisons of the magic, or compute with the plaintext, are reported undecided",
        "R1: an array-length expression that names an identifier which is neither a field nor a #define with a foldable integer value is reported undecided",
        "R6: exceptions of a with-body whose context manager is a package class with an __exit__ that raises / may return a truthy value are reported undecided",
        "R9: a registry / memo of session keys whose key is or contains the random bytes (or is not built of constants, other metadata fields and parameters only) is reported undecided - the stored elements are not followed; containers handed in as arguments or returned by calls are not followed; object identity / mutation of a returned keys object is not analysed",
        "R1: a metadata field whose type is not an integer type known to the C-definition parser is reported undecided (signedness / width)",
        "R2/R8: a magic / rejection test that hands the parsed object to a callable which is not a single-expression package function (or to an element of a table that is not unrolled by the loader) is reported undecided",
        "R10: only the listed partial operations on free-form (variable-length array) fields of the parsed metadata are recognised; operations on values that reach a callee, on fixed-length arrays (aes_rand), or reached only under tests that cannot be evaluated are undecided or not seen; exceptions of library calls in general are R6's (escape set) concern",
        "R11: content tests of the seed other than any / all / comparison with constant 16-byte strings, tests nested under conditions on other arguments, conditional expressions, and a derivation that is merely skipped (no raise / non-derived return under the test) are reported undecided or not judged",
        "R8: rejections of decrypt_metadata guarded by two or more undecided-by-one-lemma tests, by tests of array fields / of the plaintext content / of the key, or inside loops are reported undecided; RSA keys other than 1024 / 2048 bits are outside the domain (size field bounded by the RSA-2048 limit)",
    ]
    rep.trusted_base = [
        "CPython ast", "networkx dominators", "C-definition parser",
        "pycryptodome PKCS1_v1_5 semantics: decrypt() hands back the sentinel argument or b'' for a padding failure; a message longer than k - 11 bytes cannot be encrypted",
        "hashlib: a SHA-256 digest has 32 bytes; slice(lo, hi, step).indices(32) is the definition of the selected indices",
        "lemma: for an unsigned w-bit field value v not in a finite set ne, `v <op> k` has a true (false) instance iff the interval / point set of field values that makes it true (false) contains a value outside ne (counted, not enumerated)",
        "lemma: x & (2^w - 1) == x for 0 <= x < 2^w; (v & M) == (c & M) has both outcomes for v != c when M is neither 0 nor all ones (flip a bit outside / inside M)",
        "lemma: over the integers a >= b <=> a - b + 1 > 0 and not (a > b) <=> b - a + 1 > 0 (linear normal form of the length bound)",
        "R8 domain: a metadata produced by encrypt_metadata has size = len - 8 = 51 + len(info) (R1) with 59 + len(info) <= modulus - 11 (PKCS#1 v1.5), every other field any value of its C type; the parse of such a plaintext does not raise (dissect.cstruct)",
        "dissect.cstruct: an identifier of an array-length expression is resolved among the fields of the structure first, then among the #define constants; + - * << >> & | ^ mean the same as in Python",
        "reference table: widths of the integer fields of the Beacon metadata on the wire (_FIELD_BYTES); dissect.cstruct: a field of a signed type packs / unpacks two's complement values of that size only",
        "lemma (R9): the fields of a BeaconMetadata and the parameters of a function are independent inputs (the property quantifies over all field values and all 16-byte seeds), so a key term built only of constants, fields other than the seed and other parameters takes equal values for metadata with different seeds; an element of a container that outlives the call was stored by an earlier call",
        "contextlib.contextmanager: an exception of the with-body is thrown into the generator at its yield; what the generator raises or lets through leaves the with statement",
        "dissect.cstruct: the fields of a default-constructed structure are 0 / empty and an array of non-positive computed length serialises to nothing (len(BeaconMetadata()) == fixed part)",
        "R10 lemmas: the info field (trailing variable-length char array) of a well-formed metadata is any byte string of length 0 up to the limit, the empty one included; b''.split(sep) has exactly one part and b''.split() / b''.splitlines() none; an empty byte string has no element, contains no non-empty string and is no number; a byte string containing 0xFF is neither valid UTF-8 nor ASCII; str/bytes partition always yields three parts; strip / lower / upper / replace / slicing are total",
        "R11 lemmas: every 16-byte string is a seed; any(b) is False exactly for all-zero b and all(b) is True exactly when no byte is zero, so both outcomes occur among 16-byte strings; b == K for a constant 16-byte K is true for K and false for K with one bit flipped; a bytes value is truthy iff it is not empty",
        "lemmas: [lo, hi) +/- c is the shifted interval (Python integers do not wrap); s + a <op> s + b <=> a <op> b; an integer is truthy iff it is != 0; equal values of builtin types have equal truthiness",
    ]
    from csverif import AnalysisError

    for rule in (r1, r2, r3_r4, r5, r6, r8, r9, r10, r11, r12):
        try:
            rule(ctx)
        except AnalysisError:
            raise
        except Exception as e:  # an internal error of one rule is an analysis error; the other rules are still evaluated
            ctx.rep.error(f"internal error in C06.{rule.__name__}: {type(e).__name__}: {e}")
    # the client's session keys are the SHA-256 halves of the 16 bytes carried in the metadata: the derivation of those 16
    # bytes in the client (C19.R4, fixed width) is part of the agreement between client and server keys
    from rules import c19

    ctx.import_obligations("R7", c19.r4)


# ================================================================================================================== R1
def _encrypt_subject(ctx):
    """encrypt_metadata and its metadata / key parameters (by position: the public signature)."""
    f = ctx.repo.func("c2.encrypt_metadata")
    ps = params(f.node)
    return f, (ps[0] if ps else None), (ps[1] if len(ps) > 1 else None)


def _is_param(fn, e, p):
    e = _unbytes(origin(fn, e))
    return isinstance(e, ast.Name) and e.id == p


def _len_atom(fn, mp):
    """Atom naming for size arithmetic: the serialised length of the metadata parameter, the length of its info field."""

    def atom(e):
        if isinstance(e, ast.Call) and dotted(e.func) == "len" and len(e.args) == 1 and not e.keywords:
            x = _unbytes(e.args[0])
            if isinstance(x, ast.Name) and x.id == mp:
                return "LEN"
            if isinstance(x, ast.Call) and not x.args and isinstance(x.func, ast.Attribute) and x.func.attr == "dumps" and _is_param(fn, x.func.value, mp):
                return "LEN"
            if isinstance(x, ast.Attribute) and x.attr == "info" and _is_param(fn, x.value, mp):
                return "INFO"
        return None

    return atom


def _size_stores(f, mp):
    return [(st, t, v) for st, t, v in _attr_stores(f.node, "size") if _is_param(f.node, t.value, mp)]


def r1(ctx):
    from csverif import AnalysisError

    try:
        cd = ctx.cdefs("c_c2").get("c2struct")
    except AnalysisError as e:
        # the C definitions could not be read (engine limitation, e.g. a definition assembled from several strings): an
        # analysis error, but the other rules are still evaluated
        ctx.rep.error(f"C06.R1: {e}")
        return
    if cd is None:
        ctx.rep.error("anchor vanished: c2struct")
        return
    where = "c_c2.py::C2_DEF::struct BeaconMetadata"
    s = cd.struct("BeaconMetadata")
    fixed = s.fixed_prefix_size
    info = s.field("info")
    # info[size - k1]; grammar-level constants (`#define`) named by the length expression are folded (6)
    k1 = None
    fnames = {x.name for x in s.fields}
    lf = _count_form(info, _grammar_consts(ctx, "c_c2", cd), fnames)
    # identifiers of the length expression that are neither a field nor a constant whose value is known
    unresolved = sorted(k for k in (lf or {}) if k and k not in fnames)
    if lf is not None and set(lf) <= {"size", ""} and lf.get("size") == 1:
        k1 = -lf.get("", 0)
    f, mp, _kp = _encrypt_subject(ctx)
    stores = _size_stores(f, mp) if mp else []
    layout_ok = info is not None and info is s.fields[-1] and k1 is not None
    if not layout_ok and info is not None and info is s.fields[-1] and unresolved:
        ctx.undecided("R1", "TABLE", where, "layout arithmetic", f"the length expression info[{info.count}] names {unresolved}: neither a field of the structure nor a `#define` whose integer value could be folded")
    elif not layout_ok:
        ctx.ob("R1", "TABLE", where, "layout arithmetic", False, f"the variable part must be the last field `info[size - k]`; got info[{info.count if info else None}]")
    elif not stores:
        ctx.undecided("R1", "TABLE", where, "layout arithmetic", f"fixed part {fixed} bytes, info[{info.count}]; no store of the size field of the metadata parameter was located in encrypt_metadata (see R4)")
    else:
        atom = _len_atom(f.node, mp)
        for st, _t, v in stores:
            lf = _lin_norm(_lin(_inl(f.node, v), atom)) if v is not None and not isinstance(v, tuple) else None
            shown = src(_inl(f.node, v)) if v is not None and not isinstance(v, tuple) else "?"
            if lf is not None and set(lf) <= {"LEN", ""} and lf.get("LEN") == 1:
                k2 = -lf.get("", 0)
                ctx.ob("R1", "TABLE", where, "layout arithmetic", fixed - k2 == k1,
                       f"fixed part {fixed} bytes; info[{info.count}] subtracts {k1}; encrypt_metadata sets size = len - {k2}; required fixed - {k2} == {k1}", st)
            elif lf is not None and set(lf) <= {"INFO", ""} and lf.get("INFO") == 1:
                k3 = lf.get("", 0)
                ctx.ob("R1", "TABLE", where, "layout arithmetic", k3 == k1, f"info[{info.count}] subtracts {k1}; encrypt_metadata sets size = len(info) + {k3}; required {k1}", st)
            else:
                ctx.undecided("R1", "TABLE", where, "layout arithmetic", f"the value stored into the size field (`{shown[:80]}`) is not of the form len(metadata) - k", st)
    heads = [(x.name, x.offset, x.size, x.signed) for x in s.fields[:3]]
    cnt = None
    if len(s.fields) > 2 and s.fields[2].count:
        try:
            cnt = _c(ast.parse(s.fields[2].count.strip(), mode="eval").body)
        except SyntaxError:
            cnt = None
    ctx.ob("R1", "TABLE", where, "header fields",
           heads == [("magic", 0, 4, False), ("size", 4, 4, False), ("aes_rand", 8, 16, False)] and s.fields[2].type == "char" and cnt == 16 and cd.endian == ">",
           f"first fields (name, offset, size, signed) {heads} (aes_rand {s.fields[2].type if len(s.fields) > 2 else None}[{cnt}]) endian {cd.endian!r}; required magic@0,size@4 unsigned 32 bit, aes_rand char[16]@8, big-endian")
    names = [x.name for x in s.fields]
    ctx.ob("R1", "TABLE", where, "field count", len(names) == 17 and fixed == 59, f"{len(names)} fields, fixed {fixed} bytes (59 required): {names}")
    # ---- every integer field carries its full unsigned width: the metadata on the wire is a sequence of unsigned
    # big-endian quantities; a field declared with a signed type of the same size keeps the layout (and the fixed size)
    # but can neither serialise the upper half of its values nor hand them back after the transport.  Read from the parsed
    # C definition (type aliases and enum base types resolved by the definition parser); fields are taken as they come (no
    # field is looked up by name) and, where a field of the reference layout is present, its width is compared too.
    signed, narrow, unknown, n_int = [], [], [], 0
    for x in s.fields:
        if x.count is not None:
            continue  # arrays: the 16 random bytes / the info text are byte strings
        ts = cd.type_size(x.type)
        if ts is None or x.type in cd.structs or x.type in ("struct", "union"):
            unknown.append(f"{x.type} {x.name}")
            continue
        n_int += 1
        if ts[1]:
            signed.append(f"{x.type} {x.name}")
        w = _FIELD_BYTES.get(x.name)
        if w is not None and ts[0] != w:
            narrow.append(f"{x.type} {x.name} ({ts[0]} bytes, {w} on the wire)")
    text = "integer fields: full unsigned width"
    if signed or narrow:
        ctx.ob("R1", "TABLE", where, text, False,
               "; ".join(([f"declared with a signed type: {signed} - values with the top bit set cannot be serialised and are handed back negative after the transport"] if signed else []) +
                         ([f"width differs from the transported field: {narrow}"] if narrow else [])))
    elif unknown or not n_int:
        ctx.undecided("R1", "TABLE", where, text, f"fields whose type is not an integer type known to the definition parser: {unknown}")
    else:
        ctx.ob("R1", "TABLE", where, text, True, f"all {n_int} scalar fields are unsigned integers of the transported width")


# ================================================================================================================== R2
def _cipher_calls(ctx, f, meth):
    """[(call of .<meth>(..), constructor call of its receiver | None)]"""
    out = []
    for c in fn_calls(f.node):
        if isinstance(c.func, ast.Attribute) and c.func.attr == meth:
            o = origin(f.node, c.func.value)
            out.append((c, o if isinstance(o, ast.Call) else None))
    rsa = [x for x in out if x[1] is not None and "PKCS1" in _ext_name(ctx, f, x[1])]
    return rsa or out


def _decrypt_subject(ctx):
    """(f, decrypt call, cipher constructor) or (f, None, why)."""
    f = ctx.repo.func("c2.decrypt_metadata")
    dec = _cipher_calls(ctx, f, "decrypt")
    if len(dec) != 1:
        return f, None, f"{len(dec)} `.decrypt(..)` calls in decrypt_metadata"
    return f, dec[0][0], dec[0][1]


def _struct_parses(ctx, f):
    return [c for c in fn_calls(f.node) if ctx.rs.resolve_call(f, c).kind == "struct"]


def _scenario(ctx, f, d, result, magic=None, also=(), fields=None, no_exceptions=False):
    """Value flow through decrypt_metadata when the RSA decryption `d` yields `result` and (if given) every parsed struct
    has the magic field `magic` (the fields `fields`: {name: value}).  A test of the object *parsed from* the result is
    not a test of the result itself."""
    fn = f.node
    fixed = _Env(consts=_cenv(ctx, f))
    fields = dict(fields or {})
    if magic is not None:
        fields["magic"] = magic
    for c in fn_calls(fn):
        for e in (c, inline(fn, c)):
            n = _default_struct_len(ctx, f.module.name, e)
            if n is not None:
                dict.__setitem__(fixed, src(e), n)
    dtexts = {src(d), src(inline(fn, d))}
    for t in dtexts | set(also):
        dict.__setitem__(fixed, t, result)
    syms = {}
    stop = set()
    for i, c in enumerate(_struct_parses(ctx, f)):
        sym = _Sym(f"parsed{i}", truth=True, notnone=True)
        syms[sym.label] = c
        for t in (src(c), src(inline(fn, c))):
            dict.__setitem__(fixed, t, sym)
            stop.add(t)
        for name, value in fields.items():
            dict.__setitem__(fixed, (sym.label, name), value)
    return _Flow(ctx, f, fixed, taint=dtexts, stop=stop, magic_attr=set(fields), no_exceptions=no_exceptions, parses=syms)


def _is_result(e, keys):
    """Is expression e the decryption result (possibly with a falsy result replaced by an empty constant)?"""
    e = _unbytes(e)
    if src(e) in keys:
        return True
    falsy = lambda x: isinstance(x, ast.Constant) and not x.value  # noqa: E731
    if isinstance(e, ast.BoolOp) and isinstance(e.op, ast.Or):
        return _is_result(e.values[0], keys) and all(falsy(v) or _is_result(v, keys) for v in e.values[1:])
    if isinstance(e, ast.IfExp):
        alts = [e.body, e.orelse]
        return any(_is_result(a, keys) for a in alts) and all(falsy(a) or _is_result(a, keys) for a in alts)
    return False


def r2(ctx):
    f, d, ctor = _decrypt_subject(ctx)
    fn = f.node
    cfg = ctx.cfg(f)
    fv = FuncView.of(fn)
    if any(isinstance(n, ast.Match) for n in ast.walk(fn)):
        ctx.undecided("R2", "DOM", f, "rejection tests", "decrypt_metadata branches with `match` statements, which the control-flow graph does not model")
        return
    ctx.ob("R2", "EXIT", f, "falls off end", not cfg.falls_off_end(), "cannot return None implicitly")
    if d is None:
        ctx.undecided("R2", "DOM", f, "RSA decryption of the blob", f"cannot locate the PKCS#1 decryption: {ctor}")
        return
    ps = params(fn)
    ct = _arg(d, 0, "ciphertext")
    sentinel = _arg(d, 1, "sentinel")
    ct_ok = ct is not None and ps and _is_param(fn, ct, ps[0])
    ctx.ob("R2", "AGREE", f, "RSA decryption of the blob", bool(ct_ok) and sentinel is not None,
           f"decrypts the whole blob parameter={bool(ct_ok)} (`{src(_inl(fn, ct))[:60] if ct is not None else None}`) with sentinel {src(sentinel)}", d)
    rets = cfg.return_stmts()
    dst = fv.stmt_of(d)
    dtexts = {src(d), src(inline(fn, d))}
    # ---- the sentinel (what the library hands back for an undecryptable blob) never reaches a return
    if sentinel is not None:
        sv = inline(fn, sentinel)
        also = ()
        try:
            val = const_eval(sv, _cenv(ctx, f))
        except NotConst:
            val = _Sym("sentinel")
            also = (src(sv), src(sentinel))
        fl = _scenario(ctx, f, d, val, also=also)
        leak = [r for r in rets if fl.live(r)]
        detail = f"with the decryption result == sentinel ({src(sentinel)}): returns still reachable={len(leak)} of {len(rets)}"
        if leak and fl.opaque:
            ctx.undecided("R2", "DOM", f, "sentinel test", detail + f"; a test of the result could not be evaluated: {[src(s.test)[:50] for s in fl.opaque]}", dst)
        else:
            ctx.ob("R2", "DOM", f, "sentinel test", not leak, detail, dst)
        for rs in cfg.raise_stmts():
            if fl.live(rs) and not leak:
                cls = _raise_cls(fv, rs, fl)
                if cls is None:
                    ctx.undecided("R2", "EXIT", f, "undecryptable blob: raised class", f"class of `{src(rs)[:60]}` not determined", rs)
                else:
                    ctx.ob("R2", "EXIT", f, f"undecryptable blob raises {cls}", cls == "ValueError", f"undecryptable blob raises {cls}", rs)
    # ---- a blob that decrypts: every return hands back the BeaconMetadata parsed from the decrypted bytes ...
    plain = _Sym("plaintext", truth=True, notnone=True)
    good = _scenario(ctx, f, d, plain, magic=MAGIC)
    for r in rets:
        if r.value is None:
            ctx.ob("R2", "AGREE", f, "returned object", False, "a bare return hands back None", r)
            continue
        shown = src(_inl(fn, r.value))[:80]
        v = good.value(r, r.value)
        verdicts = []
        if isinstance(v, _Sym) and v.label in good.parses:
            c = good.parses[v.label]
            cal = ctx.rs.resolve_call(f, c)
            a0 = c.args[0] if c.args else None
            av = good.value(fv.stmt_of(c), a0) if a0 is not None else good.NOVAL
            if cal.struct[2] != "BeaconMetadata" or a0 is None:
                verdicts.append(False)
            elif av is plain or _is_result(_inl(fn, a0), dtexts):
                verdicts.append(True)
            elif av is good.NOVAL and isinstance(_inl(fn, a0), (ast.Call, ast.Name)) and good.tainted(fv.stmt_of(c), a0):
                verdicts.append(None)
            else:
                verdicts.append(False)
        elif not good.live(r):
            continue  # judged by the magic rule below (a good blob must be returned somewhere)
        else:
            # the value is not followed by the propagation: every value the returned name may hold (a `= None`
            # initialisation before the parse is not a value that is returned: the parse dominates the return or raises)
            from csverif.q import all_origins

            outs = [o for o in all_origins(fn, r.value) if not (isinstance(o, ast.Constant) and o.value is None)]
            for o in outs:
                cal = ctx.rs.resolve_call(f, o) if isinstance(o, ast.Call) else None
                if cal is not None and cal.kind == "struct":
                    a0 = o.args[0] if o.args else None
                    if cal.struct[2] != "BeaconMetadata" or a0 is None:
                        verdicts.append(False)
                    elif _is_result(_inl(fn, a0), dtexts):
                        verdicts.append(True)
                    else:
                        verdicts.append(None if isinstance(_inl(fn, a0), (ast.Call, ast.Name)) and good.tainted(fv.stmt_of(o), a0) else False)
                else:
                    verdicts.append(None if good.tainted(r, o) or good.tainted(r, inline(fn, o)) else False)
            if not outs:
                verdicts.append(False)
        if False in verdicts:
            ctx.ob("R2", "AGREE", f, "returned object", False, f"returns `{shown}`: not (only) the BeaconMetadata parsed from the decrypted bytes", r)
        elif None in verdicts:
            ctx.undecided("R2", "AGREE", f, "returned object", f"the returned value `{shown}` is computed from the decrypted bytes in a way that is not a direct struct parse", r)
        else:
            ctx.ob("R2", "AGREE", f, "returned object", True, "returns BeaconMetadata parsed from the decrypted bytes", r)
    # ---- ... and only if its magic is 0xBEEF
    # case analysis over the vocabulary of the property: the magic is 0xBEEF (scenario `good`), or it is any other value
    # of the unsigned 32-bit field (scenario `bad`: a symbol about which only `!= 0xBEEF` is assumed; comparisons with
    # it are decided by the lemmas of _cmp_other, never by trying values)
    other = _Sym("any magic but 0xBEEF", truth=None, notnone=True, ne=(MAGIC,), width=32)
    bad = _scenario(ctx, f, d, plain, magic=other)
    tested = any(isinstance(k, tuple) and k[1] == "magic" for fl in (good, bad) for k in fl.fixed.hits)
    accepted = any(good.live(r) for r in rets)
    where = rets[0] if len(rets) == 1 else f.node
    if not tested:
        und = bad.opaque + good.opaque
        if und:
            ctx.undecided("R2", "DOM", f, "magic test", f"the magic of the parsed object is tested in a way that could not be evaluated: {[src(s.test)[:50] for s in und][:2]}", where)
        else:
            ctx.ob("R2", "DOM", f, "magic test", False, "no test of the magic field of the parsed object", where)
    else:
        leak = [r for r in rets if bad.live(r)]
        detail = f"with a magic other than 0xBEEF a return is still reachable={bool(leak)} (must not be); metadata with magic 0xBEEF is returned={accepted}"
        if (leak and bad.opaque) or (not accepted and good.opaque):
            ctx.undecided("R2", "DOM", f, "magic test", detail + f"; a test could not be evaluated: {[src(s.test)[:50] for s in (bad.opaque if leak else good.opaque)][:2]}", where)
        else:
            ctx.ob("R2", "DOM", f, "magic test", not leak and accepted, detail, where)
        if not leak:
            for rs in cfg.raise_stmts():
                if bad.live(rs) and not good.live(rs):
                    cls = _raise_cls(fv, rs, bad)
                    if cls is None:
                        ctx.undecided("R2", "EXIT", f, "bad magic: raised class", f"class of `{src(rs)[:60]}` not determined", rs)
                    else:
                        ctx.ob("R2", "EXIT", f, f"bad magic raises {cls}", cls == "ValueError", f"bad magic raises {cls}", rs)


# ============================================================================================================== R3 / R4
def _is_metadata_obj(ctx, f, e):
    return _is_struct(ctx, f, e, "BeaconMetadata") or _is_struct(ctx, f, origin(f.node, e), "BeaconMetadata")


def _table_writes(ctx, f):
    """Field writes of the form `for name, value in <literal table>: setattr(<BeaconMetadata>, name, value)`:
    ([(field, value expression, loop)], dynamic) - dynamic is True when a BeaconMetadata object is written through a
    setattr whose field name is not resolved (the set of fields it writes is then unknown)."""
    fn = f.node
    fv = FuncView.of(fn)
    out, dynamic = [], False
    for c in fn_calls(fn):
        if not (dotted(c.func) == "setattr" and len(c.args) == 3 and not c.keywords and _is_metadata_obj(ctx, f, c.args[0])):
            continue
        if isinstance(_c(inline(fn, c.args[1]), _cenv(ctx, f)), str):
            continue  # a plain store, see _attr_stores
        loop = fv.enclosing(c, (ast.For,))
        rows = None
        if loop is not None and isinstance(loop.target, (ast.Tuple, ast.List)) and len(loop.target.elts) == 2 and all(isinstance(x, ast.Name) for x in loop.target.elts) \
                and [dotted(c.args[1]), dotted(c.args[2])] == [x.id for x in loop.target.elts]:
            it = inline(fn, loop.iter)
            if isinstance(it, ast.Call) and isinstance(it.func, ast.Attribute) and it.func.attr == "items" and not it.args and isinstance(it.func.value, ast.Dict):
                rows = list(zip(it.func.value.keys, it.func.value.values))
            elif isinstance(it, (ast.Tuple, ast.List)) and all(isinstance(r, (ast.Tuple, ast.List)) and len(r.elts) == 2 for r in it.elts):
                rows = [(r.elts[0], r.elts[1]) for r in it.elts]
            names = {x.id for x in loop.target.elts}
            rebound = any(isinstance(n, ast.Name) and isinstance(n.ctx, ast.Store) and n.id in names for b in loop.body for n in ast.walk(b))
            if rebound:
                rows = None
        if rows is None or any(not isinstance(_c(k, _cenv(ctx, f)), str) for k, _v in rows if k is not None) or any(k is None for k, _v in rows):
            dynamic = True
            continue
        out += [(_c(k, _cenv(ctx, f)), v, loop) for k, v in rows]
    return out, dynamic


def _metadata_field_values(ctx, f, field):
    """([(node, value)] written into field `field` of BeaconMetadata objects in f: attribute stores on struct-typed
    objects, constructor keywords, rows of a setattr table; dynamic = some write could not be resolved)."""
    out = []
    for st, t, v in _attr_stores(f.node, field):
        if _is_metadata_obj(ctx, f, t.value):
            out.append((st, v))
    for c in fn_calls(f.node):
        cal = ctx.rs.resolve_call(f, c)
        if cal.kind == "struct" and cal.struct[2] == "BeaconMetadata" and kwarg(c, field) is not None:
            out.append((c, kwarg(c, field)))
    rows, dynamic = _table_writes(ctx, f)
    out += [(loop, v) for k, v, loop in rows if k == field]
    return out, dynamic


def _builds_metadata(ctx, f):
    return any(ctx.rs.resolve_call(f, c).kind == "struct" and ctx.rs.resolve_call(f, c).struct[2] == "BeaconMetadata" for c in fn_calls(f.node))


def _serialisations(fn, mp):
    """Calls that serialise the metadata parameter: m.dumps(), bytes(m)."""
    out = []
    for c in fn_calls(fn):
        if isinstance(c.func, ast.Attribute) and c.func.attr == "dumps" and not c.args and _is_param(fn, c.func.value, mp):
            out.append(c)
        elif dotted(c.func) == "bytes" and len(c.args) == 1 and _is_param(fn, c.args[0], mp):
            out.append(c)
    return out


def r3_r4(ctx):
    run = ctx.repo.func("client.HttpBeaconClient.run")
    mags, dynamic = _metadata_field_values(ctx, run, "magic")
    if mags:
        vals = [_c(inline(run.node, v), _cenv(ctx, run)) if v is not None and not isinstance(v, tuple) else None for _s, v in mags]
        ok = all(v == MAGIC for v in vals)
        ctx.ob("R3", "AGREE", run, "metadata.magic = 0xBEEF", ok, f"client writes magic {[hex(v) if isinstance(v, int) else v for v in vals]}; decoder requires 0xBEEF")
    elif _builds_metadata(ctx, run) and not dynamic:
        ctx.ob("R3", "AGREE", run, "metadata.magic = 0xBEEF", False, "the client builds a BeaconMetadata but never sets its magic; decoder requires 0xBEEF")
    else:
        ctx.undecided("R3", "AGREE", run, "metadata.magic = 0xBEEF", "no BeaconMetadata construction / magic store located in run()")

    enc, mp, kp = _encrypt_subject(ctx)
    fn = enc.node
    dec = ctx.repo.func("c2.decrypt_metadata")
    cfg = ctx.cfg(enc)
    fv = FuncView.of(fn)
    # ---- both directions use PKCS#1 v1.5 over their key parameter
    ce = _cipher_calls(ctx, enc, "encrypt")
    cd_ = _cipher_calls(ctx, dec, "decrypt")
    if len(ce) != 1 or len(cd_) != 1 or ce[0][1] is None or cd_[0][1] is None:
        ctx.undecided("R4", "AGREE", enc, "PKCS1_v1_5.new", f"cipher construction not located ({len(ce)} encrypt / {len(cd_)} decrypt calls on a locally constructed cipher)")
    else:
        sides = []
        for g, (_c0, ctor) in ((enc, ce[0]), (dec, cd_[0])):
            gp = params(g.node)
            key = _arg(ctor, 0, "key")
            sides.append((_ext_name(ctx, g, ctor), key is not None and len(gp) > 1 and _is_param(g.node, key, gp[1])))
        ok = all(n.endswith("PKCS1_v1_5.new") and k for n, k in sides)
        ctx.ob("R4", "AGREE", enc, "PKCS1_v1_5.new", ok, "both sides build PKCS1_v1_5 over their key parameter" if ok else
               f"cipher construction differs between encrypt_metadata and decrypt_metadata: (constructor, over the key parameter) = {sides}")
    # ---- what is encrypted is the serialised metadata, and the ciphertext is what is returned
    sers = _serialisations(fn, mp) if mp else []
    plain = None
    if len(ce) == 1:
        e = ce[0][0]
        pa = _arg(e, 0, "message")
        po = _unbytes(origin(fn, pa)) if pa is not None else None
        if isinstance(po, ast.Call) and dotted(po.func) == "bytes" and po in sers:
            plain = po
        elif po is not None and any(po is s for s in sers):
            plain = po
        elif pa is not None:
            # bytes(m.dumps()) and the like: look through value-preserving wrappers on the original nodes
            w = origin(fn, pa)
            while isinstance(w, ast.Call) and dotted(w.func) == "bytes" and len(w.args) == 1 and not any(w is s for s in sers):
                w = origin(fn, w.args[0])
            plain = w if any(w is s for s in sers) else None
        rets = [s for s in statements(fn) if isinstance(s, ast.Return)]
        if pa is None or not rets:
            ctx.undecided("R4", "AGREE", enc, "return cipher.encrypt(metadata.dumps())", "plaintext argument / return not located")
        elif plain is None and isinstance(_inl(fn, pa), ast.Call) and _mentions(_inl(fn, pa), {src(s) for s in sers} | {src(inline(fn, s)) for s in sers} | {mp}):
            ctx.undecided("R4", "AGREE", enc, "return cipher.encrypt(metadata.dumps())", f"the plaintext `{src(_inl(fn, pa))[:70]}` is computed from the serialised metadata in a way the rule does not follow")
        else:
            bad = [r for r in rets if r.value is None or _unbytes(origin(fn, r.value)) is not e]
            und = [r for r in bad if r.value is not None and _mentions(inline(fn, r.value), {src(inline(fn, e)), src(e)})]
            ok = plain is not None and not bad
            if plain is not None and bad and len(und) == len(bad):
                ctx.undecided("R4", "AGREE", enc, "return cipher.encrypt(metadata.dumps())", f"the ciphertext is post-processed before it is returned: `{src(_inl(fn, und[0].value))[:70]}`")
            else:
                ctx.ob("R4", "AGREE", enc, "return cipher.encrypt(metadata.dumps())", bool(ok), "encrypts exactly the serialised metadata and returns the ciphertext" if ok else
                       f"does not return cipher.encrypt(<serialised metadata parameter>): plaintext `{src(_inl(fn, pa))[:60]}`, returns {[src(_inl(fn, r.value))[:40] if r.value is not None else None for r in rets]}")
    # ---- the size field is consistent when the metadata is serialised: every path to the serialisation passes a store
    # of the size field (or a test that has just established that it already holds the stored value)
    stores = _size_stores(enc, mp) if mp else []
    if plain is None:
        if len(ce) == 1 and sers:
            pass  # reported above
        else:
            ctx.undecided("R4", "DOM", enc, "size set before dumps()", "the serialisation of the metadata parameter that is encrypted was not located")
    else:
        ser_st = fv.stmt_of(plain)
        via = [cfg.node(st) for st, _t, _v in stores if cfg.has(st) and st is not ser_st]
        texts = {src(_inl(fn, v)) for _s, _t, v in stores if v is not None and not isinstance(v, tuple)}
        for n, st in cfg.stmt.items():
            if isinstance(st, ast.If):
                t = inline(fn, st.test)
                if isinstance(t, ast.Compare) and len(t.ops) == 1 and isinstance(t.ops[0], (ast.Eq, ast.NotEq)):
                    l, r = t.left, t.comparators[0]
                    for a, b in ((l, r), (r, l)):
                        if isinstance(a, ast.Attribute) and a.attr == "size" and _is_param(fn, a.value, mp) and src(_unbytes(b)) in texts:
                            via.append(cfg.edge_node(st, "true" if isinstance(t.ops[0], ast.Eq) else "false"))
        ok = bool(stores) and cfg.has(ser_st) and cfg.all_paths_pass(ENTRY, cfg.node(ser_st), via)
        conds = sorted({t for st, _t, _v in stores for t, _p, _n in dominating_conditions(ctx, enc, st)})
        ctx.ob("R4", "DOM", enc, "size set before dumps()", ok, "the size field is made consistent on every path before serialising" if ok else
               ("metadata is serialised without updating its size field" if not stores else
                f"a path reaches the serialisation without passing the store of the size field (store is conditional on {conds} / comes later): a stale size is encrypted"), ser_st)
    # ---- every info length that fits the modulus must be accepted: an explicit rejection in encrypt_metadata must use the
    # exact PKCS#1 v1.5 bound (len > k - 11)
    latom = _len_atom(fn, mp) if mp else (lambda e: None)

    def atom(e):
        a = latom(e)
        if a:
            return a
        if isinstance(e, ast.Call) and not e.args and not e.keywords and isinstance(e.func, ast.Attribute) and e.func.attr == "size_in_bytes" and kp and _is_param(fn, e.func.value, kp):
            return "K"
        return None

    for r in cfg.raise_stmts():
        if _in_handler(fv, r) is not None:
            continue  # translating / re-raising an exception that was already raised rejects nothing new
        forms = []
        for _t, pol, n in dominating_conditions(ctx, enc, r):
            n = inline(fn, n)
            if isinstance(n, ast.Compare) and len(n.ops) == 1:
                forms.append((_gt0(n.left, n.ops[0], n.comparators[0], pol, atom), n, pol))
        # the condition is `len - k + c > 0`: with c == 11 exactly the lengths that do not fit, with c < 11 only lengths the
        # library refuses anyway; c > 11 (or a bound that ignores the key size) refuses a length that fits
        def fits(g):
            return g is not None and set(g) <= {"LEN", "K", ""} and g.get("LEN") == 1 and g.get("K") == -1 and g.get("", 0) <= 11

        exact = [1 for g, _n, _p in forms if fits(g)]
        wrong = [(g, n, p) for g, n, p in forms if g is not None and g.get("LEN") and set(g) <= {"LEN", "K", ""} and not fits(g)]
        text = "explicit rejection of a plaintext length"
        if exact and not wrong:
            ctx.ob("R4", "ABS", enc, text, True, "rejects only lengths above k - 11 (which PKCS#1 v1.5 cannot encrypt)", r)
        elif wrong:
            g, n, p = wrong[0]
            ctx.ob("R4", "ABS", enc, text, False, f"encrypt_metadata rejects when `{src(n)}` is {p}: not the exact PKCS#1 v1.5 bound `len(data) > k - 11` (a length that fits is refused, or the bound does not follow the key size)", r)
        else:
            ctx.undecided("R4", "ABS", enc, text, f"`{src(r)[:50]}` is raised under {[src(n)[:50] for _g, n, _p in forms] or 'no length condition'}: not recognised as a bound on the plaintext length", r)


# ================================================================================================================== R5
class _D:
    """Classification of an expression: kind in aes | hmac | pair | keys | bad; seed = expression the SHA-256 is taken of."""

    def __init__(self, kind, seed=None, why=""):
        self.kind, self.seed, self.why = kind, seed, why

    def __repr__(self):
        return f"{self.kind}({src(self.seed) if self.seed is not None else ''}{self.why})"


def _digest_of(ctx, f, e):
    """(algorithm, data expression | None) if the inlined expression e is `<hashlib constructor>(data).digest()`."""
    if not (isinstance(e, ast.Call) and isinstance(e.func, ast.Attribute) and e.func.attr == "digest" and not e.args and not e.keywords):
        return None
    h = e.func.value
    if not isinstance(h, ast.Call):
        return None
    name = _ext_name(ctx, f, h)
    if name == "hashlib.new" or name.endswith(".hashlib.new"):
        algo = _c(_arg(h, 0, "name"))
        return (str(algo).lower().replace("-", ""), _arg(h, 1, "data")) if isinstance(algo, str) else None
    if name.startswith("hashlib."):
        a0 = h.args[0] if h.args and not isinstance(h.args[0], ast.Starred) else (kwarg(h, "string") or kwarg(h, "data"))
        return name.split(".", 1)[1].lower(), a0
    if name.startswith("Crypto.Hash.") and name.endswith(".new"):
        return name.split(".")[2].lower(), _arg(h, 0, "data")
    if name in ("sha256", "sha1", "md5", "sha512", "sha384", "sha224"):
        return name, (h.args[0] if h.args else None)
    return None


def _half(ctx, f, sub, base):
    """Which half of a 32-byte digest the (inlined) slice expression `sub` of digest expression `base` selects: 'aes'
    (first 16), 'hmac' (last 16), 'bad', or None (bounds not constant).  Length domain: a SHA-256 digest has exactly 32
    bytes (so `len(<digest>)` folds to 32), and `slice(lo, hi, step).indices(32)` is Python's normalisation of slice
    bounds for a sequence of that length - `d[:16]`, `d[0:16]`, `d[:-16]`, `d[:len(d) // 2]` all normalise to (0, 16, 1)."""
    if not (isinstance(sub, ast.Subscript) and isinstance(sub.slice, ast.Slice)):
        return None
    env = _Env({f"len({src(base)})": 32, f"len({src(_unbytes(base))})": 32}, consts=_cenv(ctx, f))
    try:
        lo, hi, stp = (None if x is None else _val(x, env) for x in (sub.slice.lower, sub.slice.upper, sub.slice.step))
        if not all(x is None or (isinstance(x, int) and not isinstance(x, bool)) for x in (lo, hi, stp)):
            return None
        norm = slice(lo, hi, stp).indices(32)
    except (_Unk, ValueError):
        return None
    return "aes" if norm == (0, 16, 1) else "hmac" if norm == (16, 32, 1) else "bad"


def _item(d, i):
    if d is None or d.kind == "bad":
        return d
    if d.kind in ("pair", "keys") and i in (0, 1):
        return _D("aes" if i == 0 else "hmac", d.seed)
    return None


def _agree(ds):
    if not ds or any(d is None for d in ds):
        return None
    for d in ds:
        if d.kind == "bad":
            return d
    if len({d.kind for d in ds}) != 1 or len({src(d.seed) if d.seed is not None else None for d in ds}) != 1:
        return None
    return ds[0]


def _subst(e, binding):
    class _S(ast.NodeTransformer):
        ok = True

        def visit_Name(self, node):
            if node.id in binding:
                if binding[node.id] is None:
                    _S.ok = False
                    return node
                return copy.deepcopy(binding[node.id])
            return node

    _S.ok = True
    out = _S().visit(copy.deepcopy(e))
    return out if _S.ok else None


def _is_method(g):
    if g.cls is None:
        return False
    return not any(dotted(d) == "staticmethod" for d in getattr(g.node, "decorator_list", []))


def _summary(ctx, g, depth):
    """Classification of what package function g returns, seed expressed over g's parameters."""
    cache = ctx.__dict__.setdefault("_c06_summary", {})
    if g.fq in cache:
        return cache[g.fq]
    cache[g.fq] = None  # recursion guard
    rets = [s for s in statements(g.node) if isinstance(s, ast.Return)]
    d = _agree([_classify(ctx, g, r.value, depth + 1) if r.value is not None else None for r in rets])
    if d is not None and d.kind != "bad":
        seed = inline(g.node, d.seed) if d.seed is not None else None
        d = _D(d.kind, seed)
    cache[g.fq] = d
    return d


def _class_fields(ctx, fq):
    mname, _, q = fq.partition(".")
    node = ctx.repo.modules[mname].classes.get(q) if mname in ctx.repo.modules else None
    if node is None:
        return None
    return [st.target.id for st in node.body if isinstance(st, ast.AnnAssign) and isinstance(st.target, ast.Name) and dotted(st.annotation) != "ClassVar"]


def _bind_slots(ctx, f, call, depth=0):
    """{parameter / field name: expression | _D} of a call to a package function or class; star arguments that are a
    derived pair are spread over two positions.  None if the callee's parameters are not known."""
    cal = ctx.rs.resolve_call(f, call)
    names = None
    if cal.kind == "class":
        init = cal.fq + ".__init__"
        if ctx.repo.has_func(init):
            names = params(ctx.repo.func(init).node)[1:]
        else:
            names = _class_fields(ctx, cal.fq)
    elif cal.kind == "func" and cal.func is not None and not isinstance(cal.func.node, ast.Lambda):
        names = params(cal.func.node)
        if _is_method(cal.func) and names:
            names = names[1:]
    args = call.args
    if names is None and isinstance(call.func, ast.Attribute) and call.func.attr == "_make" and len(call.args) == 1 and not call.keywords:
        # NamedTuple._make(iterable): the elements of a literal sequence fill the fields in order
        t = ctx.rs.expr_type(f, call.func.value) or ""
        t = t[5:] if t.startswith("type:") else None
        if t is None and dotted(call.func.value):
            sym = ctx.rs.lookup_dotted(f.module.name, dotted(call.func.value))
            t = sym.fq if sym is not None and sym.kind == "class" else None
        seq = inline(f.node, call.args[0])
        if t and isinstance(seq, (ast.Tuple, ast.List)) and not ctx.repo.has_func(t + ".__init__"):
            names = _class_fields(ctx, t)
            args = seq.elts
    if names is None:
        if any(k.arg in _SLOTS for k in call.keywords):
            return {k.arg: k.value for k in call.keywords if k.arg}
        return None
    out = {}
    pos = 0
    for a in args:
        if isinstance(a, ast.Starred):
            d = _classify(ctx, f, a.value, depth + 1)
            if d is not None and d.kind == "pair":
                for i in (0, 1):
                    if pos < len(names):
                        out[names[pos]] = _item(d, i)
                    pos += 1
                continue
            if d is not None and d.kind == "bad":
                for i in (0, 1):
                    if pos < len(names):
                        out[names[pos]] = d
                    pos += 1
                continue
            break
        if pos < len(names):
            out[names[pos]] = a
        pos += 1
    for k in call.keywords:
        if k.arg:
            out[k.arg] = k.value
    out["*"] = None if any(k.arg is None for k in call.keywords) else list(names)  # the callee's slot names (None: `**kw` may bind more)
    return out


def _classify(ctx, f, e, depth=0):
    """_D of expression e of function f, or None if e is not (recognisably) derived session-key material."""
    if e is None or depth > 10:
        return None
    if isinstance(e, _D):
        return e
    if isinstance(e, tuple):  # (value, index) of a tuple-unpacking assignment
        return _item(_classify(ctx, f, e[0], depth + 1), e[1])
    fn = f.node
    e = _unbytes(e)
    if isinstance(e, ast.Name):
        if e.id in params(fn):
            return None
        res = []
        for st, v in assignments_to(fn, e.id):
            if v is not None:
                res.append(_classify(ctx, f, v, depth + 1))
            elif isinstance(st, ast.Assign):
                got = None
                for t in st.targets:
                    for te, tv in _pairs(t, st.value):
                        if isinstance(te, ast.Name) and te.id == e.id:
                            got = _classify(ctx, f, tv, depth + 1)
                res.append(got)
            else:
                res.append(None)
        return _agree(res)
    if isinstance(e, ast.Attribute):
        b = _classify(ctx, f, e.value, depth + 1)
        if b is not None and b.kind == "bad":
            return b
        if b is not None and b.kind == "keys" and e.attr in _SLOTS:
            return _D(_SLOTS[e.attr], b.seed)
        d = dotted(e)
        if d and isinstance(e.ctx, ast.Load):
            vals = [v for _s, t, v in _attr_stores(fn, e.attr) if dotted(t) == d]
            if vals:
                return _agree([_classify(ctx, f, v, depth + 1) if v is not None else None for v in vals])
        return None
    if isinstance(e, ast.Subscript):
        if isinstance(e.slice, ast.Slice):
            whole = inline(fn, e)
            base = whole.value if isinstance(whole, ast.Subscript) else None
            dg = _digest_of(ctx, f, _unbytes(base)) if base is not None else None
            if dg is None:
                return None
            algo, data = dg
            # prefer the original node of the hashed data (keeps node identity for `_def_node`)
            o = _unbytes(origin(fn, e.value))
            if isinstance(o, ast.Call) and isinstance(o.func, ast.Attribute) and o.func.attr == "digest":
                ho = origin(fn, o.func.value)
                dgo = _digest_of(ctx, f, ast.Call(func=ast.Attribute(value=ho, attr="digest", ctx=ast.Load()), args=[], keywords=[])) if isinstance(ho, ast.Call) else None
                if dgo is not None and dgo[0] == algo and dgo[1] is not None:
                    data = dgo[1]
            if algo != "sha256":
                return _D("bad", None, f"the digest is {algo}, not SHA-256")
            h = _half(ctx, f, whole, base)
            if h is None or data is None:
                return None
            if h == "bad":
                return _D("bad", None, f"`{src(e.slice)}` of the SHA-256 digest is neither its first nor its second half")
            return _D(h, data)
        i = _c(e.slice)
        if isinstance(i, int):
            return _item(_classify(ctx, f, e.value, depth + 1), i)
        return None
    if isinstance(e, ast.Tuple) and len(e.elts) == 2:
        a, b = (_classify(ctx, f, x, depth + 1) for x in e.elts)
        if a is None or b is None:
            return None
        for x in (a, b):
            if x.kind == "bad":
                return x
        if (a.kind, b.kind) == ("aes", "hmac"):
            return _D("pair", a.seed) if src(a.seed) == src(b.seed) else _D("bad", None, "the two halves are taken of different digests")
        if (a.kind, b.kind) == ("hmac", "aes"):
            return _D("bad", None, "the halves are swapped: (second half, first half) instead of (aes_key, hmac_key)")
        if a.kind in ("aes", "hmac") and b.kind in ("aes", "hmac"):
            return _D("bad", None, f"the pair is ({a.kind} half, {b.kind} half) instead of (aes half, hmac half)")
        return None
    if isinstance(e, ast.Call):
        cal = ctx.rs.resolve_call(f, e)
        if cal.kind == "func" and cal.func is not None and not isinstance(cal.func.node, ast.Lambda):
            g = cal.func
            s = _summary(ctx, g, depth)
            if s is not None and s.kind == "bad" and g.fq != _DERIVE:
                return s
            if (s is None or s.kind == "bad") and g.fq == _DERIVE:
                # the contract of the derivation function (its body has an obligation of its own)
                ps = params(g.node)
                s = _D("pair", ast.Name(id=ps[0], ctx=ast.Load())) if ps else None
            if s is None:
                return None
            if s.seed is None:
                return _D(s.kind, None)
            b = bind_args(e, g.node, skip_self=_is_method(g))
            return _D(s.kind, _subst(s.seed, {p: b.get(p) for p in params(g.node)}))
        if cal.kind == "class" or (isinstance(e.func, ast.Attribute) and e.func.attr == "_make"):
            slots = _bind_slots(ctx, f, e, depth)
            if slots and "*" in slots and "aes_key" in slots:
                a = _classify(ctx, f, slots["aes_key"], depth + 1)
                if a is not None and a.kind in ("aes", "bad"):
                    return a if a.kind == "bad" else _D("keys", a.seed)
        return None
    return None


def _relevant(fn):
    for n in ast.walk(fn):
        t = n.attr if isinstance(n, ast.Attribute) else n.id if isinstance(n, ast.Name) else n.arg if isinstance(n, (ast.keyword, ast.arg)) else None
        if t and (t in _SLOTS or t in ("derive_aes_hmac_keys", "from_aes_rand", "from_beacon_metadata", "BeaconKeys", "digest")):
            return True
    return False


def _sinks(ctx, f):
    """[(description, node, {slot: _D})]: places in f where classified key material enters an aes_key / hmac_key slot."""
    out = []
    fn = f.node
    for st in statements(fn):
        if isinstance(st, (ast.Assign, ast.AnnAssign)) and st.value is not None:
            got, names = {}, []
            for t in (st.targets if isinstance(st, ast.Assign) else [st.target]):
                for te, v in _pairs(t, st.value):
                    slot = te.attr if isinstance(te, ast.Attribute) else _c(te.slice) if isinstance(te, ast.Subscript) else None
                    if slot in _SLOTS:
                        d = _classify(ctx, f, v)
                        if d is not None:
                            got.setdefault(slot, []).append(d)
                            names.append(dotted(te) or slot)
            if got:
                out.append(("store into " + "/".join(sorted(set(names))), st, got))
    for c in fn_calls(fn):
        slots = _bind_slots(ctx, f, c)
        if not slots:
            continue
        got = {}
        for slot, v in slots.items():
            if slot in _SLOTS:
                d = _classify(ctx, f, v)
                if d is not None:
                    got.setdefault(slot, []).append(d)
        names = slots.get("*")
        if names and any(n in _SLOTS for n in names):
            # a derived half that is handed to another parameter / field of a callee that has key slots is misplaced
            for slot, v in slots.items():
                if slot not in _SLOTS and slot != "*":
                    d = _classify(ctx, f, v)
                    if d is not None and d.kind in ("aes", "hmac"):
                        got.setdefault(d.kind + "_key", []).append(_D("bad", None, f"nothing: the derived {d.kind} half is passed as `{slot}`"))
        if any(x.kind == "aes" for x in got.get("aes_key", [])) and names and "hmac_key" in names and not any(isinstance(a, ast.Starred) for a in c.args):
            h = slots.get("hmac_key")
            if h is None or (isinstance(h, ast.Constant) and h.value is None):
                got.setdefault("hmac_key", []).append(_D("bad", None, "nothing (left to its default): the derived HMAC key is dropped"))
        if got:
            cal = ctx.rs.resolve_call(f, c)
            who = cal.fq if cal.kind in ("class", "func") and cal.fq else (cal.func.fq if cal.func is not None else (dotted(c.func) or "call").split(".")[-1])
            out.append((f"{who}(..)", c, got))
    return out


def _roots(ctx, f, sinks):
    """[(node, _D)]: the places in f where session keys are derived: a call of a package function that returns derived
    keys; a half of a SHA-256 digest that reaches one of the key slots `sinks` (a digest slice that is used for something
    else is no key derivation)."""
    out = []
    fn = f.node
    used = {src(x.seed) for _d, _n, got in sinks for ds in got.values() for x in ds if x.kind != "bad" and x.seed is not None}
    from csverif.astutil import body_walk

    for n in body_walk(fn):
        if isinstance(n, ast.Subscript) and isinstance(n.slice, ast.Slice):
            d = _classify(ctx, f, n)
            if d is not None and d.kind != "bad" and d.seed is not None and src(d.seed) in used:
                out.append((n, d))
        elif isinstance(n, ast.Call):
            cal = ctx.rs.resolve_call(f, n)
            if cal.kind == "func" and cal.func is not None:
                d = _classify(ctx, f, n)
                if d is not None and d.kind != "bad":
                    out.append((n, d))
    return out


def _def_node(fn, e, depth=0):
    """The expression node that defines the value of e: single-definition locals and attributes with a single store in
    fn are followed (`x = E; self.a = x` makes `x`, `self.a` and E the same value).  Node identity is kept."""
    e = _unbytes(e)
    if depth > 8:
        return e
    if isinstance(e, ast.Name) and e.id not in params(fn):
        defs = assignments_to(fn, e.id)
        if len(defs) == 1 and defs[0][1] is not None:
            return _def_node(fn, defs[0][1], depth + 1)
    elif isinstance(e, ast.Attribute) and dotted(e):
        st = [v for _s, t, v in _attr_stores(fn, e.attr) if dotted(t) == dotted(e)]
        if len(st) == 1 and st[0] is not None and not isinstance(st[0], tuple):
            return _def_node(fn, st[0], depth + 1)
    return e


def _same_def(fn, a, b):
    x, y = _def_node(fn, a), _def_node(fn, b)
    if x is y:
        return True
    pure = (ast.Name, ast.Attribute, ast.Constant)
    return isinstance(x, pure) and isinstance(y, pure) and src(x) == src(y)


def _seed_verdict(f, seed):
    """(True | False | None, text) - is the seed the 16 random bytes (an `aes_rand` field / the function's own parameter)?
    None: a value whose origin the rule does not follow (a call, a rebound local)."""
    if seed is None:
        return None, "?"
    fn = f.node
    s = _inl(fn, seed)
    t = src(s)
    if isinstance(s, ast.Attribute):
        return s.attr == "aes_rand", t
    if isinstance(s, ast.Subscript) and not isinstance(s.slice, ast.Slice) and isinstance(_c(s.slice), str):
        return _c(s.slice) == "aes_rand", t
    if isinstance(s, ast.Name):
        return (True if s.id in params(fn) else None), t
    # the very value that is (also) stored as an `aes_rand` attribute
    dn = _def_node(fn, seed)
    if any(v is not None and not isinstance(v, tuple) and _def_node(fn, v) is dn for _s, _t, v in _attr_stores(fn, "aes_rand")):
        return True, t
    if isinstance(s, ast.Call):
        # a transformation of the random bytes (strip, slice, re-hash ..) is not the random bytes; any other call is a
        # value whose origin is not followed
        uses = any((isinstance(n, ast.Attribute) and n.attr == "aes_rand") or (isinstance(n, ast.Name) and n.id in params(fn) and "aes_rand" in n.id) for n in ast.walk(s))
        return (False if uses else None), t
    return False, t


def r5(ctx):
    d = ctx.repo.func(_DERIVE)
    text = "SHA-256 halves returned as (aes_key, hmac_key)"
    rets = [s for s in statements(d.node) if isinstance(s, ast.Return)]
    ctx.__dict__.pop("_c06_summary", None)
    res = [_classify(ctx, d, r.value) if r.value is not None else None for r in rets]
    dp = params(d.node)
    bad = [x for x in res if x is not None and x.kind == "bad"]
    if bad:
        ctx.ob("R5", "AGREE", d, text, False, f"derive_aes_hmac_keys: {bad[0].why}")
    elif not rets or any(x is None for x in res):
        ctx.undecided("R5", "AGREE", d, text, f"the returned value(s) {[src(_inl(d.node, r.value))[:70] if r.value is not None else None for r in rets]} are not recognised as slices of a hashlib digest")
    else:
        seeds = [src(_inl(d.node, x.seed)) if x.seed is not None else None for x in res]
        ok = all(x.kind == "pair" for x in res) and bool(dp) and all(s == dp[0] for s in seeds)
        ctx.ob("R5", "AGREE", d, text, ok, f"returns {[x.kind for x in res]} of sha256({seeds}); required the pair (first half, second half) of sha256({dp[0] if dp else '?'})")
    # ---- every place where derived key material enters an aes_key / hmac_key slot, in the whole package
    n_sites = 0
    located = {}
    for f in ctx.repo.all_funcs():
        if isinstance(f.node, ast.Lambda) or not _relevant(f.node):
            continue
        sinks = _sinks(ctx, f)
        roots = _roots(ctx, f, sinks)
        located[f.fq] = len(sinks) + len(roots)
        for desc, node, got in sinks:
            n_sites += 1
            wrong = [(slot, x) for slot, ds in got.items() for x in ds if x.kind != _SLOTS[slot]]
            ctx.ob("R5", "AGREE", f, f"derived keys -> {desc}", not wrong,
                   "; ".join(f"{slot} <- {x.kind} half" for slot, ds in sorted(got.items()) for x in ds) if not wrong else
                   "; ".join(f"the {slot} slot receives " + (x.why if x.kind == "bad" else f"the {x.kind} half") for slot, x in wrong), node)
        seen = set()
        for node, x in roots:
            v, t = _seed_verdict(f, x.seed)
            if (v, t) in seen:
                continue
            seen.add((v, t))
            n_sites += 1
            if v is None:
                ctx.undecided("R5", "AGREE", f, "session keys derive from aes_rand", f"the keys are derived from `{t[:60]}`, whose origin is not followed", node)
            else:
                ctx.ob("R5", "AGREE", f, "session keys derive from aes_rand", v, f"derived from {t[:60]} (the 16 random bytes)" if v else f"derived from `{t[:60]}`: not the 16 aes_rand bytes", node)
    for fq in _KEY_FUNCS:
        f = ctx.repo.func(fq)
        if not located.get(fq):
            ctx.undecided("R5", "AGREE", f, "session key derivation", "no derivation of session keys (SHA-256 halves / derive_aes_hmac_keys / BeaconKeys.from_*) was located here")
    fields = _class_fields(ctx, "c2.BeaconKeys") or []
    ctx.ob("R5", "TABLE", "c2.py::BeaconKeys", "field order", fields[:3] == ["aes_key", "hmac_key", "iv"], f"BeaconKeys fields {fields}")
    # ---- the metadata the client sends carries the very bytes its keys are derived from
    run = ctx.repo.func("client.HttpBeaconClient.run")
    seeds = [x.seed for _n, x in _roots(ctx, run, _sinks(ctx, run)) if x.seed is not None]
    carried, dynamic = _metadata_field_values(ctx, run, "aes_rand")
    text = "metadata.aes_rand = self.aes_rand"
    if not seeds:
        ctx.undecided("R5", "AGREE", run, text, "the client's key derivation was not located")
    elif carried:
        vals = [v for _s, v in carried]
        ok = all(v is not None and not isinstance(v, tuple) and all(_same_def(run.node, v, sd) for sd in seeds) for v in vals)
        ctx.ob("R5", "AGREE", run, text, ok, "the metadata carries the bytes the client derived its keys from" if ok else
               f"metadata.aes_rand is {[src(_inl(run.node, v)) if v is not None and not isinstance(v, tuple) else None for v in vals]}, the client's keys derive from {sorted({src(_inl(run.node, sd)) for sd in seeds})}")
    elif _builds_metadata(ctx, run) and not dynamic:
        ctx.ob("R5", "AGREE", run, text, False, "the client builds a BeaconMetadata but never stores its aes_rand")
    else:
        ctx.undecided("R5", "AGREE", run, text, "no BeaconMetadata construction / aes_rand store located in run()")
    ctx.rep.count("derivation_sites", n_sites, floor=6)


# ================================================================================================================== R9
def _value_origins(fn, e, seen=None):
    """Every expression the value of e may come from: all definitions of a local (chained and element-wise tuple
    assignments included), both arms of a conditional expression, every operand of `and` / `or`, the value of a walrus.
    A binding without a plain value expression (loop target, unpacking of a call ..) leaves the name itself."""
    seen = set() if seen is None else seen
    e = _unbytes(e)
    if id(e) in seen or len(seen) > 200:
        return []
    seen.add(id(e))
    if isinstance(e, ast.Name) and e.id not in params(fn):
        defs = assignments_to(fn, e.id)
        if defs and all(v is not None for _s, v in defs):
            out = []
            for _s, v in defs:
                out.extend(_value_origins(fn, v, seen))
            return out
        return [e]
    if isinstance(e, ast.IfExp):
        return _value_origins(fn, e.body, seen) + _value_origins(fn, e.orelse, seen)
    if isinstance(e, ast.BoolOp):
        return [o for x in e.values for o in _value_origins(fn, x, seen)]
    if isinstance(e, ast.NamedExpr):
        return _value_origins(fn, e.value, seen)
    if (isinstance(e, ast.Call) and isinstance(e.func, ast.Attribute) and e.func.attr in ("get", "setdefault", "pop") and len(e.args) == 2
            and not e.keywords and not any(isinstance(a, ast.Starred) for a in e.args)):
        # `C.get(K, V)` / `C.setdefault(K, V)` / `C.pop(K, V)`: the element found under K, or V
        return [e] + _value_origins(fn, e.args[1], seen)
    return [e]


def _outlives_call(fn, c, depth=0):
    """Is the container expression c an object that exists before and after the call of fn: a module-level / class-level
    object, or state of `self` / `cls`?  True / False (a container built in this call) / None (not followed: the result of
    a call, a container handed in as an argument)."""
    c = _unbytes(c)
    if depth > 6:
        return None
    if isinstance(c, (ast.Dict, ast.DictComp, ast.List, ast.ListComp, ast.Tuple, ast.Set, ast.SetComp)):
        return False
    if isinstance(c, ast.Call):
        return False if dotted(c.func) in ("dict", "list", "OrderedDict", "collections.OrderedDict", "defaultdict", "collections.defaultdict") else None
    if isinstance(c, (ast.Attribute, ast.Subscript)):
        return _outlives_call(fn, c.value, depth + 1)
    if isinstance(c, ast.Name):
        ps = params(fn)
        if c.id in ps:
            return True if ps.index(c.id) == 0 and c.id in ("self", "cls") else None
        defs = assignments_to(fn, c.id)
        if not defs:
            declared_local = any(isinstance(n, ast.Name) and n.id == c.id and isinstance(n.ctx, (ast.Store, ast.Del)) for n in ast.walk(fn))
            return None if declared_local else True  # a name the function never binds: module / class level
        res = {(_outlives_call(fn, v, depth + 1) if v is not None else None) for _s, v in defs}
        return res.pop() if len(res) == 1 else None
    return None


def _state_lookup(fn, o):
    """(container, key) if expression o reads an element of a container that outlives the call: `C[K]`, `C.get(K, ..)`,
    `C.setdefault(K, ..)`, `C.pop(K, ..)`, `C.__getitem__(K)`; else None."""
    if isinstance(o, ast.Subscript) and not isinstance(o.slice, ast.Slice) and isinstance(o.ctx, ast.Load):
        c, k = o.value, o.slice
    elif (isinstance(o, ast.Call) and isinstance(o.func, ast.Attribute) and o.func.attr in ("get", "setdefault", "pop", "__getitem__")
          and o.args and not isinstance(o.args[0], ast.Starred)):
        c, k = o.func.value, o.args[0]
    else:
        return None
    return (c, k) if _outlives_call(fn, c) is True else None


def _metadata_scalar_fields(ctx):
    from csverif import AnalysisError

    try:
        cd = ctx.cdefs("c_c2").get("c2struct")
        return {x.name for x in cd.struct("BeaconMetadata").fields} if cd is not None else set()
    except AnalysisError:
        return set()


def _key_vs_seed(ctx, f, key, seeds):
    """Relation of a look-up key to the seed(s) of the derivation of f: 'same' (the key is the seed, or a tuple that has
    the seed as an element: equal keys => equal seeds), 'independent' (the key is built only of constants, of *other*
    fields of the structure that carries the seed and of other parameters: the property quantifies over every field and
    every 16-byte seed independently, so equal keys do not imply equal seeds), else 'unknown'.  Another parameter counts as
    independent only when the seed itself enters the function through a parameter."""
    fn = f.node
    k = _inl(fn, key)
    stexts = {src(s) for s in seeds}
    bases = {src(s.value): s for s in seeds if isinstance(s, (ast.Attribute, ast.Subscript))}
    seed_names = {a for s in seeds for a in ([s.attr] if isinstance(s, ast.Attribute) else [_c(s.slice)] if isinstance(s, ast.Subscript) else [])}
    fields = _metadata_scalar_fields(ctx)
    ps = params(fn)

    def root(e):
        while isinstance(e, (ast.Attribute, ast.Subscript)):
            e = e.value
        return e.id if isinstance(e, ast.Name) else None

    roots = {root(s) for s in seeds}
    seed_from_params = all(r in ps and not (ps.index(r) == 0 and r in ("self", "cls")) for r in roots)

    def same(e):
        e = _unbytes(e)
        return src(e) in stexts or (isinstance(e, ast.Tuple) and any(same(x) for x in e.elts))

    def indep(e):
        e = _unbytes(e)
        if isinstance(e, ast.Constant):
            return True
        if src(e) in stexts or src(e) in bases:
            return False
        if isinstance(e, ast.Attribute):
            return src(e.value) in bases and e.attr in fields and e.attr not in seed_names
        if isinstance(e, ast.Subscript) and not isinstance(e.slice, ast.Slice) and isinstance(_c(e.slice), str):
            return src(e.value) in bases and _c(e.slice) in fields and _c(e.slice) not in seed_names
        if isinstance(e, ast.Name):
            # another parameter - an independent input only when the seed itself comes in through a parameter (a seed that
            # is computed in the function may be determined by the other parameters)
            return e.id in ps and not (ps.index(e.id) == 0 and e.id in ("self", "cls")) and seed_from_params and e.id not in roots
        if isinstance(e, ast.Tuple):
            return all(indep(x) for x in e.elts)
        if isinstance(e, ast.BinOp):
            return indep(e.left) and indep(e.right)
        if isinstance(e, ast.Call) and dotted(e.func) in ("int", "str", "hex", "hash", "repr", "abs") and not e.keywords:
            return all(not isinstance(a, ast.Starred) and indep(a) for a in e.args)
        return False

    if same(k):
        return "same"
    return "independent" if indep(k) else "unknown"


def r9(ctx):
    """The session keys a function hands out for a metadata are those of *that* metadata.  A function that derives session
    keys from a seed (R5 located the derivation) and returns them / stores them into an attribute must not, on another
    path, hand out a value taken from state that outlives the call (a module- / class-level or `self` container: registry,
    memo, cache) under a key that does not determine the seed: the element was put there for an *earlier* seed."""
    n_subjects = 0
    for f in ctx.repo.all_funcs():
        if isinstance(f.node, ast.Lambda) or not _relevant(f.node):
            continue
        fn = f.node
        seeds = []
        for _n, x in _roots(ctx, f, _sinks(ctx, f)):
            if x.seed is not None and _seed_verdict(f, x.seed)[0] is True:
                s = _inl(fn, x.seed)
                if src(s) not in {src(y) for y in seeds}:
                    seeds.append(s)
        if not seeds:
            continue
        subjects = []  # (description, node, [value expressions])
        rets = [s for s in statements(fn) if isinstance(s, ast.Return) and s.value is not None]
        if rets:
            subjects.append(("returned value", rets[0], [r.value for r in rets]))
        by_target = {}
        for st in statements(fn):
            if isinstance(st, (ast.Assign, ast.AnnAssign)) and st.value is not None:
                for t in (st.targets if isinstance(st, ast.Assign) else [st.target]):
                    for te, v in _pairs(t, st.value):
                        if isinstance(te, ast.Attribute) and dotted(te):
                            by_target.setdefault(dotted(te), []).append((st, v))
        for name, stores in sorted(by_target.items()):
            subjects.append((f"value stored into {name}", stores[0][0], [v for _s, v in stores]))
        # containers into which this function puts derived keys (`C[K] = <derived>`, also as one target of a chained
        # assignment): an element read back from such a container is session-key material that is handed out
        fed = set()
        for st in statements(fn):
            if isinstance(st, ast.Assign) and any(isinstance(t, ast.Subscript) for t in st.targets):
                d = _classify(ctx, f, st.value)
                if d is not None and d.kind != "bad":
                    fed.update(src(t.value) for t in st.targets if isinstance(t, ast.Subscript))
        for desc, node, values in subjects:
            origins, n_derived = [], 0
            for v in values:
                if isinstance(v, tuple):  # element of an unpacked value
                    d = _classify(ctx, f, v)
                    n_derived += d is not None and d.kind != "bad"
                    continue
                for o in _value_origins(fn, v):
                    d = _classify(ctx, f, o)
                    if d is not None and d.kind != "bad":
                        n_derived += 1
                    elif d is None:
                        origins.append(o)
                        lk = _state_lookup(fn, o)
                        n_derived += lk is not None and src(lk[0]) in fed
            if not n_derived:
                continue  # not a place where derived session keys are handed out
            n_subjects += 1
            text = f"handed-out session keys are those of the given seed ({desc})"
            bad, open_ = [], []
            for o in origins:
                if (isinstance(o, ast.Constant) and o.value is None) or (isinstance(o, ast.Name) and o.id in params(fn)):
                    continue  # no keys / keys supplied by the caller
                lk = _state_lookup(fn, o)
                if lk is None:
                    open_.append(f"`{src(o)[:60]}` (origin not followed)")
                    continue
                rel = _key_vs_seed(ctx, f, lk[1], seeds)
                if rel == "independent":
                    bad.append((o, f"`{src(o)[:70]}`: an element of `{src(lk[0])[:40]}`, which outlives the call, selected by `{src(_inl(fn, lk[1]))[:40]}` - "
                                   f"that key does not determine the seed `{src(seeds[0])[:40]}`, so for a second metadata with the same key and other "
                                   f"random bytes the keys of the earlier one are handed out, not SHA-256 halves of the bytes it carries"))
                else:
                    open_.append(f"`{src(o)[:60]}` (look-up in state that outlives the call, key {'is' if rel == 'same' else 'may depend on'} the seed; the stored elements are not followed)")
            if bad:
                ctx.ob("R9", "AGREE", f, text, False, "; ".join(t for _o, t in bad), bad[0][0])
            elif open_:
                ctx.undecided("R9", "AGREE", f, text, f"next to the derivation from `{src(seeds[0])[:40]}` the value may also be " + "; ".join(open_), node)
            else:
                ctx.ob("R9", "AGREE", f, text, True, f"every value that reaches it is derived from `{', '.join(src(s)[:40] for s in seeds)}` in this call (or supplied by the caller / None)", node)
    ctx.rep.count("key_handout_sites", n_subjects, floor=3)


# ================================================================================================================== R6
def _generator_cm(ctx, f, e, active=()):
    """(g, yield statement) if expression e is a call of a package function g that is a generator-based context manager
    (decorated with contextlib.contextmanager - import aliases resolved) whose body has exactly one `yield`, as a statement
    of its own and outside every loop; else None."""
    if not isinstance(e, ast.Call):
        return None
    cal = ctx.rs.resolve_call(f, e)
    g = cal.func if cal.kind == "func" else None
    if g is None or not isinstance(g.node, ast.FunctionDef) or g.fq == f.fq or g.fq in active:
        return None

    def is_cm(d):
        sym = ctx.rs.lookup_dotted(g.module.name, dotted(d)) if dotted(d) else None
        return sym is not None and sym.kind == "external" and sym.name == "contextlib.contextmanager"

    if len(g.node.decorator_list) != 1 or not is_cm(g.node.decorator_list[0]):
        return None
    ys = [n for n in body_walk(g.node) if isinstance(n, (ast.Yield, ast.YieldFrom, ast.Await))]
    if len(ys) != 1 or not isinstance(ys[0], ast.Yield):
        return None
    fv = FuncView.of(g.node)
    st = fv.stmt_of(ys[0])
    if not (isinstance(st, ast.Expr) and st.value is ys[0]) or fv.enclosing(st, (ast.For, ast.AsyncFor, ast.While)) is not None:
        return None
    return g, st


def _class_cm_exit(ctx, f, e):
    """The `__exit__` method (own or inherited, of the package) of the class instantiated by expression e when that method
    can change the exception flow of a `with` body: it raises, or returns something other than a falsy constant (a truthy
    result swallows the exception).  None otherwise."""
    if not isinstance(e, ast.Call):
        return None
    cal = ctx.rs.resolve_call(f, e)
    if cal.kind != "class" or not cal.fq:
        return None
    mname, _, cname = cal.fq.partition(".")
    sym = ctx.rs.lookup_dotted(mname, f"{cname}.__exit__")
    g = ctx.repo.modules[sym.module].funcs.get(sym.name) if sym is not None and sym.kind == "func" and sym.module in ctx.repo.modules else None
    if g is None:
        return None
    for st in statements(g.node):
        if isinstance(st, ast.Raise):
            return g
        if isinstance(st, ast.Return) and st.value is not None and not (isinstance(st.value, ast.Constant) and not st.value.value):
            return g
    return None


def _escape_engine(ctx):
    """The escape analysis of the engine (csverif.effects.Escape) with the meaning of a generator-based context manager:
    `with g(..): BODY` for a package function g decorated with contextlib.contextmanager that has exactly one `yield`
    statement (outside loops) runs g's body with BODY in the place of the `yield` - contextlib throws an exception of BODY
    into the generator at the `yield`, what the generator raises (or lets through) leaves the `with`, what it catches and
    does not re-raise is swallowed.  So the may-raise set of the statement is that of g's body with the `yield` statement
    standing for BODY; the engine's own treatment of try / except then applies to g's handlers.  A `with` over a package
    class whose `__exit__` raises or may return a truthy value translates / swallows exceptions of BODY in a way that is
    not followed: what `__enter__` / `__exit__` raise is charged, and the sites of BODY are *uncertain* (the engine reports
    an escape that hinges on them as undecided).  Any other `with` is the engine's (context expression + body, nothing
    filtered).  Syntax-tree weaving over resolved callees (1)/(2)."""
    from csverif import effects

    class _Escape(effects.Escape):
        def __init__(self, c):
            super().__init__(c)
            self._woven = {}  # id(yield statement) -> may-raise set of the with-body that stands in its place

        def stmt(self, f, st):
            if isinstance(st, ast.Expr) and id(st) in self._woven:
                return set(self._woven[id(st)])
            if isinstance(st, ast.With) and any(_generator_cm(self.ctx, f, i.context_expr, self.active) or _class_cm_exit(self.ctx, f, i.context_expr) for i in st.items):
                return self._with(f, st, 0)
            return super().stmt(f, st)

        def _with(self, f, st, i):
            """`with i0, i1, ..: BODY` is `with i0: with i1: ..: BODY`"""
            if i == len(st.items):
                return self.block(f, st.body)
            c = st.items[i].context_expr
            cm = _generator_cm(self.ctx, f, c, self.active)
            ex = _class_cm_exit(self.ctx, f, c) if cm is None else None
            if ex is not None:
                frame = f"{f.fq}:{c.lineno}"
                out = self.exprs(f, st, [c])
                enter = self.repo.modules[ex.module.name].funcs.get(ex.qualname.rsplit(".", 1)[0] + ".__enter__")
                for m in (enter, ex):
                    if m is not None:
                        out |= {e.via(frame) for e in self.function_effects(m)}
                inner = self._with(f, st, i + 1)
                self.uncertain_sites |= {e.site for e in inner}
                return out | inner
            if cm is None:
                return self.exprs(f, st, [c]) | self._with(f, st, i + 1)
            g, ystmt = cm
            out = self.exprs(f, st, list(c.args) + [k.value for k in c.keywords])
            inner = self._with(f, st, i + 1)
            saved = self._woven.get(id(ystmt))
            self._woven[id(ystmt)] = inner
            self.active.add(g.fq)
            self.visited_funcs.add(g.fq)
            try:
                woven = self.block(g, g.node.body)
            finally:
                self.active.discard(g.fq)
                if saved is None:
                    self._woven.pop(id(ystmt), None)
                else:
                    self._woven[id(ystmt)] = saved
            frame = f"{f.fq}:{c.lineno}"
            return out | {e if e in inner else e.via(frame) for e in woven}

    return _Escape(ctx)


def r6(ctx):
    """Blobs that do not decrypt / do not parse are rejected with ValueError: escape set of decrypt_metadata."""
    from csverif import effects

    effects.check_escape(ctx, "R6", ["c2.decrypt_metadata"], {"ValueError"}, esc=_escape_engine(ctx))
    # the emptiness of the decrypted plaintext is tested as well: some pycryptodome versions hand back b"" instead of
    # the (non-bytes) sentinel for a padding failure
    f, d, _ctor = _decrypt_subject(ctx)
    if d is None or any(isinstance(n, ast.Match) for n in ast.walk(f.node)):
        ctx.undecided("R6", "DOM", f, "empty plaintext rejected", "cannot locate the PKCS#1 decryption" if d is None else "`match` statements are not modelled by the control-flow graph")
        return
    fv = FuncView.of(f.node)
    fl = _scenario(ctx, f, d, b"")
    parses = _struct_parses(ctx, f)
    reach = [c for c in parses if fl.live(fv.stmt_of(c))]
    dst = fv.stmt_of(d)
    if reach and fl.opaque:
        ctx.undecided("R6", "DOM", f, "empty plaintext rejected", f"a test of the decryption result could not be evaluated for b'': {[src(s.test)[:50] for s in fl.opaque]}", dst)
    elif not parses:
        ctx.undecided("R6", "DOM", f, "empty plaintext rejected", "no struct parse located in decrypt_metadata", dst)
    else:
        ctx.ob("R6", "DOM", f, "empty plaintext rejected", not reach, "an empty decryption result never reaches the struct parse" if not reach else
               "an empty (but not None) decryption result reaches BeaconMetadata(pt): with pycryptodome >= 3.20 a padding failure yields b'' for a non-bytes sentinel", dst)


# ================================================================================================================== R8
_MAX_MODULUS = 256  # bytes of the largest modulus in the property's quantifier (RSA-2048)
_PKCS1_OVERHEAD = 11  # PKCS#1 v1.5: a message of more than k - 11 bytes cannot be encrypted


def _wellformed_fields(ctx):
    """({field: assumed value}, description) for "a metadata that encrypt_metadata produced" - the domain the property
    quantifies over, read from the C definition: the magic is 0xBEEF; the length field named by the trailing array
    `info[<field> - k]` is k + len(info) with 0 <= len(info) and fixed part + len(info) <= modulus - 11, i.e. the interval
    [k, k + 256 - 11 - fixed]; every other integer field is any value of its width; array fields are opaque.
    (None, why) if the layout is not of that shape."""
    from csverif import AnalysisError

    try:
        cd = ctx.cdefs("c_c2").get("c2struct")
        s = cd.struct("BeaconMetadata") if cd is not None else None
    except AnalysisError as e:
        return None, str(e)
    if s is None or not s.fields:
        return None, "struct BeaconMetadata not found"
    info = s.fields[-1]
    lf = _count_form(info, _grammar_consts(ctx, "c_c2", cd), {x.name for x in s.fields})
    names = [k for k in (lf or {}) if k]
    lenfld = s.field(names[0]) if len(names) == 1 else None
    if lf is None or info.size is not None or lenfld is None or lenfld is info or lenfld.count is not None or lf[names[0]] != 1 or any(x.size is None for x in s.fields[:-1]):
        return None, f"the variable part is not a trailing array `[<length field> - k]` (got [{info.count}])"
    lenf, k = names[0], -lf.get("", 0)
    fixed = s.fixed_prefix_size
    lo, hi = k, k + _MAX_MODULUS - _PKCS1_OVERHEAD - fixed
    out = {}
    for x in s.fields:
        if x.count is not None or x.size is None:
            out[x.name] = _Sym(f"field {x.name}", notnone=True)
        elif x.name == lenf:
            out[x.name] = _Sym(f"field {x.name}", notnone=True, width=None if x.signed else 8 * x.size, rng=(lo, hi + 1))
        elif x.signed:
            out[x.name] = _Sym(f"field {x.name}", notnone=True, rng=(-(1 << (8 * x.size - 1)), 1 << (8 * x.size - 1)))
        else:
            out[x.name] = _Sym(f"field {x.name}", notnone=True, width=8 * x.size)
    out["magic"] = MAGIC
    # the plaintext (the serialised metadata) has fixed + len(info) = <length field> + (fixed - k) bytes
    out[None] = _Sym("len(plaintext)", notnone=True, rng=(fixed, _MAX_MODULUS - _PKCS1_OVERHEAD + 1), affine=(out[lenf], fixed - k))
    return out, (f"magic 0xBEEF, {lenf} = {k} + len({info.name}) in [{lo}, {hi}] (every {info.name} length from 0 up to the PKCS#1 v1.5 limit of "
                 f"RSA-{8 * _MAX_MODULUS}: {_MAX_MODULUS} - {_PKCS1_OVERHEAD} - {fixed} fixed bytes), every other integer field any value of its width")


def _catches(handler, cls):
    """Does `except <handler.type>` catch an exception of class `cls`?  True / False, None = not known (a class that is not
    a builtin exception: its bases are not known).  Class names are resolved with Python's builtin exception hierarchy."""
    import builtins

    if handler.type is None:
        return True
    if cls is None:
        return None
    c = getattr(builtins, cls.split(".")[-1], None) if "." not in cls or cls.startswith("builtins.") else None
    verdict = False
    for t in (handler.type.elts if isinstance(handler.type, ast.Tuple) else [handler.type]):
        n = dotted(t)
        h = getattr(builtins, n, None) if n and "." not in n else None
        if n and n == cls:
            return True
        if not (isinstance(c, type) and issubclass(c, BaseException) and isinstance(h, type) and issubclass(h, BaseException)):
            verdict = None
        elif issubclass(c, h):
            return True
    return verdict


def _local_handler(fv, r, cls):
    """The handler inside the function that catches the exception of class `cls` raised by `r` (a raise in a `try` body),
    None if it leaves the function, "?" if that is not known."""
    child = r
    for a in fv.ancestors(r):
        if isinstance(a, ast.Try) and any(child is b for b in a.body):
            for h in a.handlers:
                c = _catches(h, cls)
                if c is None:
                    return "?"
                if c:
                    return h
            if a.finalbody:
                return "?"
        child = a
    return None


def r8(ctx):
    """Every metadata that encrypt_metadata can produce is accepted by decrypt_metadata: no rejection (raise / failing
    assert) is reached for a value of the domain of well-formed metadata."""
    f, d, ctor = _decrypt_subject(ctx)
    fn = f.node
    text = "well-formed metadata is not rejected"
    if any(isinstance(n, ast.Match) for n in ast.walk(fn)):
        ctx.undecided("R8", "ABS", f, text, "decrypt_metadata branches with `match` statements, which the control-flow graph does not model")
        return
    if d is None:
        ctx.undecided("R8", "ABS", f, text, f"cannot locate the PKCS#1 decryption: {ctor}")
        return
    fields, desc = _wellformed_fields(ctx)
    if fields is None:
        ctx.undecided("R8", "ABS", f, text, f"domain of well-formed metadata not established: {desc}")
        return
    cfg = ctx.cfg(f)
    fv = FuncView.of(fn)
    plain = _Sym("plaintext", truth=True, notnone=True, pytype=bytes, length=fields.pop(None))
    fl = _scenario(ctx, f, d, plain, fields=fields, no_exceptions=True)
    raises = cfg.raise_stmts()
    cls_of = {id(r): _raise_cls(fv, r, fl) for r in raises}
    handler = {id(r): _local_handler(fv, r, cls_of[id(r)]) for r in raises}
    dist = fl.both_count({k: h for k, h in handler.items() if isinstance(h, ast.ExceptHandler)})

    def conds(node):
        """The branch outcomes that dominate `node` and are not decided by the assumptions."""
        out = []
        for st in cfg.stmt.values():
            if isinstance(st, (ast.If, ast.While)) and fl.verdict.get(id(st)) not in (True, False):
                for label in ("true", "false"):
                    if cfg.dominates(cfg.edge_node(st, label), cfg.node(node)):
                        out.append(("" if label == "true" else "not ") + f"`{src(st.test)[:60]}`")
        return out

    # a raise that a handler of the function catches is a jump to that handler (whose own outcome is judged), not a rejection
    rejections = [(r, None) for r in raises if not isinstance(handler[id(r)], ast.ExceptHandler)]
    rejections += [(a, a.test) for a in statements(fn) if isinstance(a, ast.Assert) and cfg.has(a)]
    for r, test in rejections:
        what = src(r).split("\n")[0][:60]
        if not fl.live(r):
            ctx.ob("R8", "ABS", f, text, True, f"`{what}` is not reached for a well-formed metadata ({desc}; no library call raises)", r)
            continue
        n = dist.get(cfg.node(r))
        if test is not None:
            # an assert rejects when its test is false
            v = fl._truth3(test, fl.IN[cfg.node(r)][0])
            if v is True:
                ctx.ob("R8", "ABS", f, text, True, f"`{what}` holds for every well-formed metadata ({desc})", r)
                continue
            if v == BOTH and n is not None:
                n += 1
            elif v is not False:
                n = None
            escapes = _local_handler(fv, r, "AssertionError") is None
            why = conds(r) + [f"not `{src(test)[:60]}`"]
        else:
            escapes = handler[id(r)] is None
            why = conds(r)
        if n is not None and n <= 1 and escapes:
            ctx.ob("R8", "ABS", f, text, False,
                   f"decrypt_metadata rejects a metadata that encrypt_metadata produces: `{what}` is reached "
                   + (f"when {' and '.join(why)}, which is true for some well-formed metadata" if n == 1 and why else "for every well-formed metadata")
                   + f" (domain: {desc}); encrypt -> decrypt does not round-trip for those values", r)
        else:
            ctx.undecided("R8", "ABS", f, text, f"`{what}` may be reached for a well-formed metadata, under conditions that could not be evaluated over its domain "
                          f"({' and '.join(why) or 'none located'}; domain: {desc})", r)


# ================================================================================================================= R10
_TOTAL_BYTES_METHODS = ("strip", "lstrip", "rstrip", "lower", "upper", "replace", "expandtabs", "title", "capitalize", "swapcase")
_STRICT_CODECS = ("utf-8", "utf8", "utf_8", "u8", "ascii", "us-ascii", "646")
_LENIENT_ERRORS = ("ignore", "replace", "backslashreplace", "surrogateescape")


def _array_fields(ctx):
    """{name: fixed number of elements | None (variable, may be empty)} of the array fields of struct BeaconMetadata."""
    from csverif import AnalysisError

    try:
        cd = ctx.cdefs("c_c2").get("c2struct")
        s = cd.struct("BeaconMetadata") if cd is not None else None
    except AnalysisError:
        return {}
    out = {}
    for x in (s.fields if s is not None else []):
        if x.count is not None:
            n = None
            if x.size is not None:
                try:
                    n = _c(ast.parse(x.count.strip(), mode="eval").body)
                except (SyntaxError, ValueError):
                    n = None
            out[x.name] = n if isinstance(n, int) and not isinstance(n, bool) and x.size is not None else None
    return out


def _free_form(fl, st, e, arrays):
    """The name of the array field if the (inlined) expression e is the byte string of an array field of a parsed metadata,
    possibly passed through total bytes -> bytes methods (strip, lower ..) - only when the field is of variable length
    (its content *and* length are arbitrary, the empty string included).  (field, min length 0) or None."""
    e = _unbytes(e)
    if isinstance(e, ast.Call) and isinstance(e.func, ast.Attribute) and e.func.attr in _TOTAL_BYTES_METHODS:
        return _free_form(fl, st, e.func.value, arrays)
    if isinstance(e, ast.Subscript) and isinstance(e.slice, ast.Slice):
        return _free_form(fl, st, e.value, arrays)  # a slice of arbitrary bytes is arbitrary bytes (and may be empty)
    if isinstance(e, ast.Attribute) and e.attr in arrays and arrays[e.attr] is None:
        v = fl.value(st, e.value)
        if isinstance(v, _Sym) and v.label in fl.parses:
            return e.attr
    return None


def _split_parts(fl, st, e, arrays):
    """(field, least number of parts) if e is `<free-form field>.split(..)` / rsplit / splitlines: for the empty string
    (which is in the domain: info length 0) `b"".split(sep)` has one part, `b"".split()` / `b"".splitlines()` none."""
    if isinstance(e, ast.Call) and isinstance(e.func, ast.Attribute) and e.func.attr in ("split", "rsplit", "splitlines"):
        fld = _free_form(fl, st, e.func.value, arrays)
        if fld is not None:
            sep = _arg(e, 0, "sep") if e.func.attr != "splitlines" else None
            none_sep = sep is None or (isinstance(sep, ast.Constant) and sep.value is None)
            return fld, (0 if none_sep else 1)
    return None


def _partial_ops(ctx, f, fl, arrays):
    """[(statement, node, description, exception class, verdict)] - operations in f that are *partial* on the content of a
    free-form field of the parsed metadata (terms by substitution of single-definition locals (3)); verdict False = fails
    for a named well-formed value (lemma in the description), None = partial, no witness claimed."""
    fn = f.node
    fv = FuncView.of(fn)
    out = []
    for st in statements(fn):
        if not fl.cfg.has(st):
            continue
        # -- unpacking into a fixed number of targets
        if isinstance(st, ast.Assign):
            for t in st.targets:
                if isinstance(t, (ast.Tuple, ast.List)) and not isinstance(st.value, (ast.Tuple, ast.List)):
                    need = sum(1 for x in t.elts if not isinstance(x, ast.Starred))
                    exact = not any(isinstance(x, ast.Starred) for x in t.elts)
                    sp = _split_parts(fl, st, _inl(fn, st.value), arrays)
                    if sp is not None:
                        fld, least = sp
                        if need > 1 or (need == 1 and least == 0):
                            out.append((st, st, f"unpacks the parts of `{src(_inl(fn, st.value))[:60]}` into {'exactly' if exact else 'at least'} {need} names; the {fld} field is a free-form "
                                                f"byte string - an empty {fld} (length 0 is in the domain) splits into {least} part(s)", "ValueError", False))
                        elif exact:
                            out.append((st, st, f"unpacks the parts of `{src(_inl(fn, st.value))[:60]}` into exactly {need} name(s); the number of parts depends on the content of {fld}", "ValueError", None))
                    elif _free_form(fl, st, _inl(fn, st.value), arrays) is not None:
                        fld = _free_form(fl, st, _inl(fn, st.value), arrays)
                        if need >= 1:
                            out.append((st, st, f"unpacks the bytes of the free-form {fld} field into {'exactly' if exact else 'at least'} {need} names; an empty {fld} (length 0 is in the domain) has none", "ValueError", False))
        heads = [st.test] if isinstance(st, (ast.If, ast.While)) else [st.iter] if isinstance(st, (ast.For, ast.AsyncFor)) else \
            [i.context_expr for i in st.items] if isinstance(st, (ast.With, ast.AsyncWith)) else [] if isinstance(st, (ast.Try, ast.ExceptHandler, ast.FunctionDef, ast.AsyncFunctionDef, ast.ClassDef)) else [st]
        for h in heads:
            for n in ast.walk(h):
                if isinstance(n, ast.Subscript) and not isinstance(n.slice, ast.Slice) and isinstance(n.ctx, ast.Load):
                    k = _c(n.slice, _cenv(ctx, f))
                    if not isinstance(k, int) or isinstance(k, bool):
                        continue
                    base = _inl(fn, n.value)
                    sp = _split_parts(fl, st, base, arrays)
                    fld = _free_form(fl, st, base, arrays)
                    if sp is not None and not (sp[1] == 1 and k in (0, -1)):
                        out.append((st, n, f"element [{k}] of `{src(base)[:60]}`: an empty {sp[0]} (length 0 is in the domain) splits into {sp[1]} part(s)", "IndexError", False))
                    elif fld is not None:
                        out.append((st, n, f"byte [{k}] of the free-form {fld} field: an empty {fld} (length 0 is in the domain) has none", "IndexError", False))
                elif isinstance(n, ast.Call) and isinstance(n.func, ast.Attribute) and n.func.attr == "decode":
                    fld = _free_form(fl, st, _inl(fn, n.func.value), arrays)
                    if fld is None:
                        continue
                    enc, err = _arg(n, 0, "encoding"), _arg(n, 1, "errors")
                    encv = _c(inline(fn, enc), _cenv(ctx, f)) if enc is not None else "utf-8"
                    errv = _c(inline(fn, err), _cenv(ctx, f)) if err is not None else "strict"
                    if errv in _LENIENT_ERRORS:
                        continue
                    strict = isinstance(encv, str) and encv.lower() in _STRICT_CODECS and errv == "strict"
                    out.append((st, n, f"`{src(n)[:60]}` decodes the free-form {fld} field strictly" + (f" as {encv}: a byte string that contains 0xFF (in the domain: every byte string is a value of {fld}) is neither valid UTF-8 nor ASCII" if strict else ""),
                                "UnicodeDecodeError", False if strict else None))
                elif isinstance(n, ast.Call) and isinstance(n.func, ast.Attribute) and n.func.attr in ("index", "rindex") and n.args:
                    fld = _free_form(fl, st, _inl(fn, n.func.value), arrays)
                    k = _c(inline(fn, n.args[0]), _cenv(ctx, f))
                    if fld is not None:
                        witness = (isinstance(k, (bytes, str)) and len(k) > 0) or (isinstance(k, int) and not isinstance(k, bool))
                        out.append((st, n, f"`{src(n)[:60]}` on the free-form {fld} field" + (f": an empty {fld} (length 0 is in the domain) does not contain it" if witness else ""), "ValueError", False if witness else None))
                elif isinstance(n, ast.Call) and dotted(n.func) in ("int", "float") and n.args and not isinstance(n.args[0], ast.Starred):
                    fld = _free_form(fl, st, _inl(fn, n.args[0]), arrays)
                    if fld is not None:
                        out.append((st, n, f"`{src(n)[:60]}` parses the free-form {fld} field as a number: an empty {fld} (length 0 is in the domain) is none", "ValueError", False))
    return [(st, n, d, c, v, fv) for st, n, d, c, v in out]


def r10(ctx):
    """Field-for-field round trip for *every* field value: on the path on which decrypt_metadata accepts a well-formed
    metadata no operation may fail for some content of a free-form field (char info[size - k]: any byte string of any
    length from 0).  Partial operations on such a field (fixed-arity unpacking / indexing of its split parts, indexing of
    its bytes, strict decoding, index(), int()) that are reached for well-formed metadata and whose exception leaves the
    function reject metadata the property says must be handed back."""
    f, d, ctor = _decrypt_subject(ctx)
    fn = f.node
    text = "no field content makes the accept path fail"
    if d is None or any(isinstance(n, ast.Match) for n in ast.walk(fn)):
        ctx.undecided("R10", "ABS", f, text, f"cannot locate the PKCS#1 decryption: {ctor}" if d is None else "`match` statements are not modelled by the control-flow graph")
        return
    fields, desc = _wellformed_fields(ctx)
    arrays = _array_fields(ctx)
    if fields is None or not arrays:
        ctx.undecided("R10", "ABS", f, text, f"domain of well-formed metadata not established: {desc if fields is None else 'no array field in struct BeaconMetadata'}")
        return
    cfg = ctx.cfg(f)
    plain = _Sym("plaintext", truth=True, notnone=True, pytype=bytes, length=fields.pop(None))
    fl = _scenario(ctx, f, d, plain, fields=fields, no_exceptions=True)
    if not fl.parses:
        ctx.undecided("R10", "ABS", f, text, "no struct parse located in decrypt_metadata")
        return
    ops = _partial_ops(ctx, f, fl, arrays)
    free = sorted(k for k, v in arrays.items() if v is None)
    if not ops:
        ctx.ob("R10", "ABS", f, text, True, f"no partial operation (fixed-arity unpacking / indexing of split parts, byte indexing, strict decode, index(), int()) on the free-form field(s) {free} of the parsed metadata")
        return
    dist = None
    for st, n, what, cls, verdict, fv in ops:
        if not fl.live(st):
            ctx.ob("R10", "ABS", f, text, True, f"{what} - not reached for a well-formed metadata", n)
            continue
        h = _local_handler(fv, st, cls)
        if isinstance(h, ast.ExceptHandler):
            ctx.ob("R10", "ABS", f, text, True, f"{what} - the {cls} is caught inside decrypt_metadata (`except {src(h.type) if h.type is not None else ''}`)", n)
            continue
        if dist is None:
            raises = cfg.raise_stmts()
            hs = {id(r): _local_handler(fv, r, _raise_cls(fv, r, fl)) for r in raises}
            dist = fl.both_count({k: x for k, x in hs.items() if isinstance(x, ast.ExceptHandler)})
        cnt = dist.get(cfg.node(st))
        if verdict is False and h is None and cnt == 0:
            ctx.ob("R10", "ABS", f, text, False, f"decrypt_metadata {what}; the {cls} leaves decrypt_metadata, so a correctly encrypted metadata with magic 0xBEEF is rejected "
                                                  f"instead of being returned field for field (reached for every well-formed metadata: {desc})", n)
        else:
            why = "no witness value is claimed for this operation" if verdict is not False else "it is reached only under conditions that could not be evaluated / may be caught"
            ctx.undecided("R10", "ABS", f, text, f"{what}; {why}", n)


# ================================================================================================================= R11
def _seed_content_uses(test, texts, cenv):
    """[(node, both)] - the places where the (inlined) test looks at the *content* of the seed (an expression whose text is
    in `texts`).  Looking at its shape is no content use: its truthiness (a bytes value is truthy iff it is not empty: `if
    seed`, `not seed`, operand of and / or, element of a literal sequence handed to any() / all()), `len(seed)`, `seed is
    None`, isinstance / bool.  both = True for the forms for which a lemma says that both outcomes occur among the 16-byte
    seeds: any(seed) / all(seed) (sixteen 0x00 bytes; sixteen 0xFF bytes) and ==, !=, in, not in against constant 16-byte
    strings (that string; a string that differs in one bit)."""
    out = []

    def is_seed(e):
        return src(_unbytes(e)) in texts or src(e) in texts

    def scan(e, truth):
        if is_seed(e):
            if not truth:
                out.append((e, False))
            return
        if isinstance(e, ast.UnaryOp) and isinstance(e.op, ast.Not):
            return scan(e.operand, True)
        if isinstance(e, ast.BoolOp):
            for v in e.values:
                scan(v, truth)
            return
        if isinstance(e, ast.Compare):
            operands = [e.left] + list(e.comparators)
            if any(is_seed(x) for x in operands):
                consts = [_c(x, cenv) for x in operands if not is_seed(x)]
                if all(isinstance(op, (ast.Is, ast.IsNot)) for op in e.ops) and all(c is None for c in consts):
                    return
                if len(e.ops) == 1 and isinstance(e.ops[0], (ast.Eq, ast.NotEq)) and all(c is None and isinstance(x, ast.Constant) for c, x in zip(consts, [x for x in operands if not is_seed(x)])):
                    return  # == None
                both = len(e.ops) == 1 and is_seed(e.left) and (
                    (isinstance(e.ops[0], (ast.Eq, ast.NotEq)) and isinstance(consts[0], bytes) and len(consts[0]) == 16)
                    or (isinstance(e.ops[0], (ast.In, ast.NotIn)) and isinstance(consts[0], (tuple, list)) and len(consts[0]) > 0 and all(isinstance(k, bytes) and len(k) == 16 for k in consts[0])))
                out.append((e, bool(both)))
                for x in operands:
                    if not is_seed(x):
                        scan(x, False)
                return
        if isinstance(e, ast.Call) and not e.keywords and len(e.args) == 1 and dotted(e.func) in ("len", "bool", "any", "all"):
            a = e.args[0]
            name = dotted(e.func)
            if is_seed(a):
                if name in ("any", "all"):
                    out.append((e, True))
                return
            if name in ("any", "all") and isinstance(a, (ast.List, ast.Tuple)):
                for x in a.elts:
                    scan(x, True)
                return
        if isinstance(e, ast.Call) and dotted(e.func) == "isinstance" and e.args and is_seed(e.args[0]):
            return
        for c in ast.iter_child_nodes(e):
            if isinstance(c, ast.expr):
                scan(c, False)
            elif isinstance(c, (ast.keyword, ast.comprehension)):
                for cc in ast.walk(c):
                    if isinstance(cc, ast.expr) and is_seed(cc):
                        out.append((cc, False))
                        break

    scan(test, True)
    return out


def r11(ctx):
    """Session keys are the SHA-256 halves of the random bytes for *every* 16-byte seed: a function that derives session
    keys from a seed must not make the outcome depend on the content of the seed - no raise / failing assert / return of
    something that is not derived from the seed under a test of the seed's bytes (an in-band sentinel such as "all zero
    means not set" refuses a seed the property quantifies over).  Tests of the shape of the seed (None, empty, length,
    type) are not content tests."""
    n_subjects = 0
    for f in ctx.repo.all_funcs():
        if isinstance(f.node, ast.Lambda) or not _relevant(f.node):
            continue
        fn = f.node
        texts = set()
        first = None
        for _n, x in _roots(ctx, f, _sinks(ctx, f)):
            if x.seed is not None and _seed_verdict(f, x.seed)[0] is True:
                first = first or src(_inl(fn, x.seed))
                texts |= {src(x.seed), src(_inl(fn, x.seed)), src(_unbytes(x.seed))}
        if not texts and f.fq == _DERIVE and params(fn):
            first = params(fn)[0]  # the derivation function itself: its parameter is the seed (R5 judges its body)
            texts = {first}
        if not texts:
            continue
        n_subjects += 1
        cfg = ctx.cfg(f)
        fv = FuncView.of(fn)
        cenv = _cenv(ctx, f)
        text = "derivation does not depend on the content of the seed"
        # "some 16-byte seed": a bytes value of length 16 (truthy, not None) about which nothing else is assumed - used to
        # decide the shape tests (None / empty / length / type) that dominate a content test
        anyseed = _Sym("a 16-byte seed", truth=True, notnone=True, pytype=bytes, length=16)
        senv = _Env(consts=cenv)
        for t in texts:
            dict.__setitem__(senv, t, anyseed)

        def unconditional(st):
            """Is st reached for every 16-byte seed as far as the branch tests before it are concerned: every dominating
            condition is decided, with the required outcome, by the shape of the seed alone."""
            for _t, pol, test in dominating_conditions(ctx, f, st):
                v = _tv(test, senv)
                if v is None:
                    v = _tv(inline(fn, test), senv)
                if v is not pol:
                    return False
            return True
        exits = [r for r in cfg.raise_stmts() if _in_handler(fv, r) is None]
        for r in cfg.return_stmts():
            d = _classify(ctx, f, r.value) if r.value is not None else None
            if d is None or d.kind == "bad":
                exits.append(r)
        def core(t):
            """The operand that decides the test for a 16-byte seed: negations stripped; operands of `and` that are true /
            of `or` that are false by the shape of the seed alone dropped (when exactly one operand is left)."""
            while True:
                if isinstance(t, ast.UnaryOp) and isinstance(t.op, ast.Not):
                    t = t.operand
                    continue
                if isinstance(t, ast.BoolOp):
                    neutral = isinstance(t.op, ast.And)
                    rest = [v for v in t.values if _tv(v, senv) is not neutral]
                    if len(rest) == 1:
                        t = rest[0]
                        continue
                return t

        findings = []  # (node, description, decided)
        for st in statements(fn):
            if not cfg.has(st):
                continue
            if isinstance(st, (ast.If, ast.While, ast.Assert)):
                uses = [u for e in {src(st.test): st.test, src(inline(fn, st.test)): inline(fn, st.test)}.values() for u in _seed_content_uses(e, texts, cenv)]
                if not uses:
                    continue
                if isinstance(st, ast.Assert):
                    controlled = [st]
                else:
                    edges = [cfg.edge_node(st, lab) for lab in ("true", "false")]
                    controlled = [x for x in exits if cfg.has(x) and any(cfg.dominates(e, cfg.node(x)) for e in edges)]
                if not controlled:
                    continue  # the test decides nothing about the keys (logging ..)
                t = core(inline(fn, st.test))
                exact = any(both and src(n) == src(t) for n, both in uses)
                top = unconditional(st)
                findings.append((st, f"`{src(st.test)[:60]}` looks at the bytes of the seed `{first[:40]}` and decides whether `{src(controlled[0]).splitlines()[0][:60]}` is reached", exact and top))
            for h in ([st] if not isinstance(st, (ast.If, ast.While, ast.For, ast.AsyncFor, ast.With, ast.AsyncWith, ast.Try, ast.ExceptHandler, ast.FunctionDef, ast.AsyncFunctionDef, ast.ClassDef)) else []):
                for n in ast.walk(h):
                    if isinstance(n, ast.IfExp) and _seed_content_uses(inline(fn, n.test), texts, cenv) and isinstance(st, (ast.Return, ast.Assign, ast.AnnAssign, ast.Raise)):
                        findings.append((st, f"the conditional expression `{src(n)[:60]}` selects a value by the bytes of the seed `{first[:40]}`", False))
        if not findings:
            ctx.ob("R11", "DOM", f, text, True, f"no raise / assert / return of non-derived keys is decided by a test of the bytes of `{first[:40]}` (shape tests - None, empty, length, type - aside)")
            continue
        for st, what, decided in findings:
            if decided:
                ctx.ob("R11", "DOM", f, text, False, f"{what}: both outcomes of the test occur among the 16-byte seeds (lemma: any / all - sixteen 0x00 resp. 0xFF bytes; a comparison with a constant "
                                                     f"16-byte string - that string and one that differs in a bit), so for some seed the session keys are not the halves of SHA-256 over it", st)
            else:
                ctx.undecided("R11", "DOM", f, text, f"{what}; whether both outcomes occur among the 16-byte seeds is not decided", st)
    ctx.rep.count("seed_content_subjects", n_subjects, floor=3)


# ============================================================================================================= R12
def r12(ctx):
    """A magic test made on the raw plaintext covers the whole field (round 8, seeded C06o).  The magic is the unsigned 32-bit
    big-endian field at offset 0 (R1 reads that from the C definition).  A test `<pt>[a:b].endswith(K)` / `.startswith(K)` /
    `<pt>[a:b] == K` / `!= K` on the name that is handed to BeaconMetadata(..) in decrypt_metadata, with constant bounds that lie in
    the first four bytes and a constant bytes K, decides the magic only if it compares the four bytes [0:4] with 00 00 BE EF; a
    comparison of fewer bytes (a suffix / prefix test with a shorter K, a narrower slice) accepts every plaintext whose remaining
    magic bytes are arbitrary.  Violated only for such a narrower comparison that is the *only* magic test (no `.magic` read in the
    function); anything else is left to R2 (which reports raw-plaintext computations as undecided)."""
    f = ctx.repo.func("c2.decrypt_metadata")
    ptnames = set()
    for c in fn_calls(f.node):
        if dotted(c.func) and dotted(c.func).split(".")[-1] == "BeaconMetadata" and len(c.args) == 1 and isinstance(c.args[0], ast.Name):
            ptnames.add(c.args[0].id)
    if not ptnames:
        return
    has_field_test = any(isinstance(n, ast.Attribute) and n.attr == "magic" for n in ast.walk(f.node))
    mod_consts = {}
    for st in ctx.repo.module("c2").tree.body if hasattr(ctx.repo.module("c2"), "tree") else []:
        if isinstance(st, ast.Assign) and len(st.targets) == 1 and isinstance(st.targets[0], ast.Name):
            mod_consts[st.targets[0].id] = st.value

    def kbytes(e, depth=0):
        if isinstance(e, ast.Name) and e.id in mod_consts and depth < 3:
            return kbytes(mod_consts[e.id], depth + 1)
        if isinstance(e, ast.Constant) and isinstance(e.value, bytes):
            return e.value
        if isinstance(e, ast.Call) and isinstance(e.func, ast.Attribute) and e.func.attr == "to_bytes" and len(e.args) == 2 and not e.keywords:
            try:
                v, n, bo = const_eval(e.func.value), const_eval(e.args[0]), const_eval(e.args[1])
                return int(v).to_bytes(int(n), bo)
            except Exception:
                return None
        try:
            v = const_eval(e)
            return v if isinstance(v, bytes) else None
        except Exception:
            return None

    def window(e):
        if isinstance(e, ast.Subscript) and isinstance(e.value, ast.Name) and e.value.id in ptnames and isinstance(e.slice, ast.Slice) and e.slice.step is None:
            try:
                lo = 0 if e.slice.lower is None else const_eval(e.slice.lower)
                hi = const_eval(e.slice.upper) if e.slice.upper is not None else None
            except Exception:
                return None
            if isinstance(lo, int) and isinstance(hi, int) and 0 <= lo < hi <= 4:
                return lo, hi
        return None

    for n in ast.walk(f.node):
        covered = None
        k = None
        if isinstance(n, ast.Call) and isinstance(n.func, ast.Attribute) and n.func.attr in ("endswith", "startswith") and len(n.args) == 1:
            w = window(n.func.value)
            k = kbytes(n.args[0])
            if w and k is not None and 0 < len(k) <= w[1] - w[0]:
                covered = (w[1] - len(k), w[1]) if n.func.attr == "endswith" else (w[0], w[0] + len(k))
        elif isinstance(n, ast.Compare) and len(n.ops) == 1 and isinstance(n.ops[0], (ast.Eq, ast.NotEq)):
            w = window(n.left)
            k = kbytes(n.comparators[0])
            if w and k is not None and len(k) == w[1] - w[0]:
                covered = w
        if covered is None:
            continue
        full = covered == (0, 4) and k == MAGIC.to_bytes(4, "big")
        if full:
            ctx.ob("R12", "AGREE", f, "raw magic test covers the field", True, f"`{src(n)}` compares the plaintext bytes [0:4] with {k.hex()}", n)
        elif not has_field_test:
            ctx.ob("R12", "AGREE", f, "raw magic test covers the field", False,
                   f"`{src(n)}` compares only the plaintext bytes [{covered[0]}:{covered[1]}] with {k.hex()} and the parsed `magic` field is not tested: the magic is an unsigned "
                   f"32-bit field at offset 0, every blob whose other magic bytes are arbitrary (0x1234BEEF) is returned as genuine metadata", n)
