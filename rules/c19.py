"""C19 - The beacon client keeps a stable identity and dispatches tasks exactly once.

The rules locate their subjects by role (the parameter that is the registration key, the lookups of `self.task_map`
under that key / under the catch-all key, the value that reaches the `bid` / `info` field of the metadata, the draw that
feeds `self.aes_rand`, ...) and decide them on the CFG / with the abstract interpreter; a rule that cannot locate its
subject records an *undecided* obligation, a located subject that fails its necessary condition is a violation.

Technique
---------
(numbers = the ALLOWED devices of RULES_GUIDE.md "What counts as *static* here"; no rule interprets /repo code on data
chosen by the checker: the beacon id enters the abstract interpreter as the top integer, the user/computer/process names
as strings of unknown length, loop-carried and branch-dependent values stay abstract / symbolic; the only concrete
values are constants of the analysed code - R7's cases are the members of the BeaconCommand enum, device 5)

R1  1 + 3: flow-insensitive may-alias / mutation analysis with `self.task_map` as the shared store (csverif.alias: who may
    write a registered handler list, what get_handlers returns); register_task: the statement that stores the handler
    parameter is located through def-use substitution (`inline`), its receiver resolved structurally to the map entry of
    the key parameter; 2: "exactly once on every path" = CFG reachability (not in a cycle, no two stores on one path, no
    ENTRY->EXIT path avoiding the store).
R2  1 + 3: the lookups of `self.task_map` are classified by the role of their key (key parameter / constant -1 /
    other) after def-use substitution, the names that may hold specific / catch-all handlers are a flow-insensitive
    def-use closure; 2: the catch-all sources are controlled by an emptiness decision (CFG dominating branch edges,
    position inside and/or/conditional expressions - shapes `x`, `len(x)`, `len(x) <op> 0|1`, `x == []` recognised
    structurally, anything else that mentions the handlers is undecided), nothing specific is added on a path after the
    decision (CFG reachability); beacon loop: single `for` over get_handlers(..), one handler(task) call per iteration
    (CFG reachability avoiding the loop header), send_callback controlled by the truthiness of the response; 6: constant
    folding of the catch-all key and of the `getattr` name (literals, module / class constants).  The task is located by
    role: the local bound to get_task(), or the target of a `for` over a generator of the package every `yield` of which
    yields a get_task() result (1: resolved callee + def-use substitution in the producer); a task that cannot be located
    makes "handler(task)" undecided, not violated.  Failure containment (1, syntax-tree query on the enclosing statements
    between a site and the dispatch loop, innermost first): the handler call and the send of its response - the code that
    runs for ONE handler - sit in the body of a try statement (or contextlib.suppress) INSIDE the loop body whose `except`
    clause takes class Exception (bare / Exception / BaseException, read off the clause) and does not leave the loop
    (no break / return / raise in it); a try statement around the loop takes the exception only after the iteration over
    the remaining handlers was abandoned.
R3  4: abstract interpretation of run() (csverif.absint.Interp extended by `_Interp`) in the interval x parity domain with
    branch refinement, beacon_id = top; 6: constant operands folded.  Lemmas (all for Python ints, each one line):
      L1  x - x % 2, x - (x & 1), x ^ (x & 1) are even and lie in [x - 1, x]   (they clear bit 0: x % 2 = x & 1 in {0, 1})
      L2  (x >> 1) << 1 and 2 * x are even                                      (a left shift by >= 1 / a factor 2 clears bit 0)
      L3  `x % 2` / `x & 1` truthy (== 1, != 0) <=> x odd; falsy <=> x even      (definition of parity)
      L4  x >= 0 and not (x >> k)  =>  x <= 2**k - 1                            (x >> k = floor(x / 2**k) = 0)
      L5  0 <= x < 2 * 2**k and not (x & 2**k)  =>  x <= 2**k - 1               (bit k is the only bit >= k that can be set)
      L6  x in range(a, b)  <=>  a <= x <= b - 1 for an int x; `a <= x <= b` = `a <= x and x <= b`
      L7  x & m in [0, m] for a constant m >= 0; x % m in [0, m - 1] for m >= 1   (transfer rules of csverif.absint)
    callbacks: 3 (the leaves of the `id` term after def-use substitution); raise class: 1 + 2.
R4  2: random.seed(..) dominates every draw that feeds aes_rand, no store of the id and no RNG use (1: call graph closure
    `_uses_random`) on a CFG path between seed and draw, one draw outside any cycle; 3: the seed argument as a term over
    the normalised id (def-use substitution, structural comparison with the last store of self.beacon_id, names not
    rebound in between by CFG reachability); 4: length-interval domain for "exactly 16 bytes" (int.to_bytes(n) has
    length n, random.randbytes(n) has length n); 6: constant folding of the bit count / class constants.
R5  4: length-interval domain (str.encode() / bytes(str, codec) <= 4 bytes per character, x[:k] / x[a:b] has length
    <= k / b - a for every sliceable x, refinement by `len(x) > k` tests; kind transfer only - length unknown - for
    f-strings, str.format, %-formatting, sep.join and the other str -> str methods); 6: the limit 128 - 11 - fixed part
    comes from the parsed cstruct definition of BeaconMetadata.  A value of unknown kind (built by operations the domain
    does not model) with no slice bound is undecided; a bytes value whose bound is missing or too large is a violation.
R6  3: the returned expression as a polynomial normal form (SymPoly) over sleeptime, jitter and one uniform draw, built by
    def-use substitution, compared structurally with the band ends; lemmas: random.uniform(a, b) lies between a and b,
    random.random() in [0, 1], float(x) = x, and an affine function A + B*U of U in [lo, hi] ranges exactly between
    A + B*lo and A + B*hi.  Not affine / more than one draw / other atoms: undecided.  Settings source: 3 (def-use chain).
R7  5 + 6 + 2 + 3: case analysis over the complete finite vocabulary of the dispatcher - the members of the enum class
    that get_handlers converts its key parameter to (parsed from c_c2.py; one case per distinct value, the first name of a
    value being the canonical `.name`).  Per member the key parameter is that member's value (constant propagation):
    branch edges whose test folds to a constant are removed from a copy of the CFG (2), locals are followed along the
    reaching definitions of the pruned CFG (3), and the name handed to `getattr(self, <name>)` is constant-folded (6:
    str methods / slicing / concatenation / f-string / %-format on constant operands, `.name` / `.value` / truthiness of
    the member).  The folded name is compared with the documented one (`on_` + member name without `COMMAND_`, lower
    case) for every member - a complete table comparison.  No input is chosen by the checker: the cases are exactly the
    values for which `Enum(command_id)` does not raise.  A name that does not fold to a single constant: undecided.
R8  5 + 2 + 3: the sleep settings the client is *configured* with.  Subjects by role: the `self.<attr>` get_sleep_time computes
    its result from (def-use chain of the returned expression) that run() stores, and the override: the optional keyword
    of run() (default None) that carries the attribute's name in the public API, else the one optional parameter that
    flows into that store (def-use chain).  Case analysis over the finite vocabulary
    "override given (not None) and truthy" / "given and falsy" (5: None / not None, boolean flag; the None case is R6's
    settings source).  Per case the branch edges whose test the case decides are removed from a copy of the CFG (2), locals
    and `self.<attr>` stores are followed along the reaching definitions of the pruned CFG, and/or/conditional expressions
    are resolved operand by operand (3: path-wise value flow, undecided tests keep both outcomes).  The necessary
    condition: in both cases every value run() may leave in the attribute is the parameter itself.  Only values that do
    not depend on the parameter -> violated (the override is discarded); a value computed from the parameter by
    operations that are not followed, or a mix -> undecided.  Lemmas (each one line):
      L8  the number 0 is not None and falsy, and it is a sleeptime / a jitter the property quantifies over (band = a point)
      L9  a falsy number equals 0, a truthy number differs from 0   (truthiness of int / float is `!= 0`)
      L10 int(x) = x and float(x) = x for a number x
R9  1 + 3 + 2 + 5/6: the registration decorators `handle(command)` / `catch_all()` (public front ends of register_task) as a
    symbolic application `front_end(..)(FUNC)`: FUNC is a symbol, never a value.  The decorator value is located by role
    through def-use substitution of what the front end returns (3): a nested function / lambda (analysed as a function of
    its first parameter, closure variables looked up in the enclosing function), `functools.partial(self.m, a..)` (= the
    method m with its leading parameters bound to a.. - argument binding into a package callee), or the result of another
    front end (`catch_all()` returning `self.handle(KEY)`); helper methods that receive FUNC as a plain argument are
    followed the same way (resolved callees, 1).  Three necessary conditions per front end:
      - what the application evaluates to (the leaves of the returned expressions; a callee that ends without
        `return <value>` yields None) is FUNC itself on every path - a definite None / constant is a violation (the
        decorated name, and every decorator stacked on top of it, then gets that value instead of the function), a value
        the rule cannot classify (a wrapper, an unresolved call) is undecided;
      - FUNC is handed to register_task as its handler exactly once per application (2: CFG of the decorator - no
        hand-over in a cycle, no two on one path, no ENTRY->EXIT path without one; paths that raise are not EXIT paths);
      - the key of that hand-over: for `handle` the may-flow def-use closure of the key term (through locals, bound
        arguments and closure variables) contains the command parameter; for `catch_all` the key constant-folds (6) to
        -1, the key get_handlers falls back to (R2).  When the key is computed from a constant argument of the analysed
        code (`self.handle(-1)`), the branches that constant decides are removed from a copy of the CFG and the reaching
        definitions of the pruned CFG are folded (5 + 2: constant propagation of a literal of the analysed code).
    Lemmas (each one line):
      L11 `@d` above `def f` binds f to d(f); stacked decorators apply bottom-up, each to the result of the one below
      L12 functools.partial(g, a..)(x) = g(a.., x)
      L13 a call of a function every path of which ends without `return <value>` evaluates to None
      L14 None is falsy, a function object is truthy   (`g(f) or f` is f when g returns None; `(g(f), f)[1]` is f)
      L15 an int literal c is truthy iff c != 0, isinstance(c, int) holds and c is not None
R10 1 + 3 + 2 + 5: object identity of the registration store - "registered on this client" presupposes one table per client and
    one handler list per key.  Subjects by role: every store of `self.task_map` in a method of the client class (assignment,
    annotated assignment, setattr) and every value filed under a key of it (`self.task_map[k] = V`, the default of
    `self.task_map.setdefault(k, V)`).  The objects the stored expression may evaluate to are collected by def-use substitution
    along reaching definitions (3; and/or/conditional expressions operand by operand, package callees through their return
    values with the parameters bound to the arguments) and classified (1): *fresh* (a display, a comprehension, a container
    constructor / copy call, an operator result, a new instance - created by the storing call itself), *arg* (the caller's
    explicit argument), *own* (read out of the client's own table), *shared* (an object Python creates once per process: a
    parameter default, a class-body attribute read through self / cls / the class, a module-level object - each only when it
    is a mutable container), or unknown.  For a parameter that reaches the store and has a default object the case "argument
    omitted" is analysed separately (5: given / omitted is a finite vocabulary of the analysed signature): the parameter then
    IS its default object, whose truthiness and length are read off the default expression (L17); the branch edges these
    decide are removed from a copy of the CFG (2) and the reaching definitions of the pruned CFG are classified again - so
    `task_map={}` with `self.task_map = task_map or {}` / `dict(task_map)` stores a fresh table, `self.task_map = task_map`
    the shared one.  A shallow copy (dict(x), x.copy(), copy.copy(x), {**x}) of a shared table shares the lists kept in it
    unless the table is known to hold none (an empty display) - copy.deepcopy does not; dict.fromkeys(keys, V) files the one
    object V under every key.  Construction: when the class body itself binds `task_map` to a mutable container, no
    ENTRY -> EXIT path of __init__ may avoid a store of self.task_map (2: CFG reachability; a call of a method of the class that
    stores on every path counts as a store).  Any shared object -> violated; only unknown ones -> undecided.  Lemmas:
      L16 a parameter default is evaluated once, when the `def` statement is executed, and that one object is bound in every
          call that omits the argument; a class-body / module-level assignment is executed once per process, and
          `self.X` / `cls.X` / `Class.X` read that one object as long as the instance has no attribute X of its own
      L17 an empty dict / list / set is falsy and has length 0, a non-empty one is truthy; a display or a constructor call
          without arguments shows its length; such an object is not None
      L18 displays, comprehensions, container constructors, `x.copy()`, copy.copy / deepcopy and binary operators on
          builtin containers yield an object that did not exist before the evaluation; calling a class yields a new instance
"""

from __future__ import annotations

import ast
import copy
from dataclasses import replace

from csverif import absint
from csverif.absint import SymPoly, sympoly
from csverif.alias import Alias
from csverif.astutil import assignments_to, bind_args, body_walk, compare_parts, const_eval, dotted, fn_calls, kwarg, NotConst, params, src, statements
from csverif.cfg import ENTRY, EXIT
from csverif.q import FuncView, dominating_conditions, inline, raise_class

ADDERS = {"append": 0, "appendleft": 0, "add": 0, "insert": 1, "extend": 0, "extendleft": 0}


def _c(node):
    try:
        return const_eval(node) if node is not None else None
    except (NotConst, TypeError):
        return None


def _const(ctx, f, e):
    """Constant value of expression `e` evaluated in function `f`, else None: literals and arithmetic on them (incl. small
    powers), module-level constants, class-level constants of f's class read as self.X / cls.X / Class.X (when no method
    stores that attribute), all through single-definition locals."""
    if e is None:
        return None
    e = inline(f.node, e)
    cattrs = {}
    if f.cls:
        cfq = f"{f.module.name}.{f.cls}"
        try:
            cattrs = dict(ctx.repo.class_attrs(cfq))
        except Exception:
            cattrs = {}
        if cattrs:
            stored = {n.attr for m in ctx.repo.methods(cfq) for n in ast.walk(m.node) if isinstance(n, ast.Attribute) and isinstance(n.ctx, (ast.Store, ast.Del))}
            cattrs = {k: v for k, v in cattrs.items() if k not in stored}

    class _Pre(ast.NodeTransformer):
        def visit_Attribute(self, node):
            if isinstance(node.value, ast.Name) and node.value.id in ("self", "cls", f.cls) and node.attr in cattrs:
                return _Pre().visit(copy.deepcopy(cattrs[node.attr]))
            return self.generic_visit(node)

        def visit_BinOp(self, node):
            node = self.generic_visit(node)
            if isinstance(node.op, ast.Pow):
                a, b = _c(node.left), _c(node.right)
                if isinstance(a, int) and isinstance(b, int) and not isinstance(a, bool) and 0 <= b <= 128 and abs(a) <= 1 << 16:
                    return ast.copy_location(ast.Constant(value=a ** b), node)
            return node

    from csverif.astutil import module_env

    try:
        return const_eval(_Pre().visit(copy.deepcopy(e)), module_env(f.module))
    except (NotConst, TypeError, KeyError, RecursionError):
        return None


def run(ctx):
    rep = ctx.rep
    rep.explanation = (
        "Static analysis of client.py: may-alias + mutation analysis with HttpBeaconClient.task_map as the shared store "
        "(only register_task may append to a registered handler list; it adds the handler exactly once under its key); "
        "the catch-all lookups are controlled (CFG dominance or and/or/conditional-expression position) by the emptiness "
        "of an accumulator that has received every specific source, and no specific source is added after that decision; "
        "single dispatch site in the beacon loop (the task = the result of get_task(), also when it arrives through a generator of the package that "
        "yields get_task() results); an Exception raised by the call of one handler or by the send of its response is taken by an except clause inside "
        "the body of the loop over the handlers that goes on with the next handler (a failing handler does not end the dispatch of the task); parity/interval abstract interpretation of the beacon id that reaches "
        "the metadata; random.seed(f(normalised id)) dominates the draw that feeds aes_rand with no intervening RNG use; "
        "length interval of the metadata info bytes against 128-11-59; the sleep time as a polynomial normal form, affine in "
        "one uniform draw, whose values at the ends of the draw's range are compared with the jitter band; the name under "
        "which get_handlers looks up the on_<command> method, constant-folded per member of BeaconCommand (the dispatcher's "
        "complete vocabulary) and compared with the documented name; the value run() leaves in the attributes get_sleep_time "
        "reads, followed path-wise for the two cases of a *given* override parameter (not None and truthy / not None and 0): "
        "it must be the parameter itself, i.e. the choice between override and beacon setting is decided by None-ness only; the registration decorators "
        "handle(command) / catch_all() as a symbolic application to one function symbol (nested function, lambda, functools.partial of a method, delegation to "
        "another front end): the application evaluates to the decorated function itself, hands it to register_task exactly once on every path, under a key "
        "computed from `command` / under the catch-all key -1; the object identity of the registration store: every object stored in self.task_map, "
        "and every list filed under a key of it, is created by the storing call itself or is the caller's explicit argument - never an object that exists once per "
        "process (a parameter default, with the case 'argument omitted' analysed on a CFG pruned by the truthiness / length of the default object; a class-level "
        "attribute; a module-level object), and __init__ replaces a class-level task_map on every path.  No /repo code is run or interpreted on data chosen by "
        "the checker: the beacon id is the top integer, the names are strings of unknown length, the command cases are the "
        "enum members parsed from c_c2.py."
    )
    rep.not_decided = ["behaviour of the loop against a live server", "that handlers themselves behave",
                       "BaseExceptions that are not Exceptions (KeyboardInterrupt, SystemExit) raised by a handler: they end the loop, as intended; exceptions raised by the "
                       "logging call inside the except clause of the dispatch loop",
                       "the on_empty_task lookup for the empty task (command id None / a falsy member)",
                       "that callers (the command line) hand the user's sleeptime / jitter to run() unchanged",
                       "decorators that hand back / register a wrapper of the decorated function instead of the function itself (undecided)",
                       "that handle() files an enum member under exactly its integer value (only: the key is computed from the command argument)",
                       "whether callers hand the same table object to several clients explicitly (an explicit argument is the caller's object); stores of "
                       "`<other object>.task_map` from outside the client class; tables changed through self.task_map.update(..) / |=",
                       "a NEW helper function with a mutable default: the loader's normaliser inlines it into the call site and copies the default expression "
                       "there, so the once-per-process object is no longer visible to the rules (csverif/normalise.py, outside this module)"]
    rep.trusted_base = [
        "CPython ast", "networkx dominators", "interval/parity/length domains and SymPoly in csverif/absint.py",
        "may-alias / mutation analysis in csverif/alias.py",
        "an exception raised in the body of a try statement is taken by the first except clause whose class matches, every handler failure the property is concerned with is an instance "
        "of Exception; a generator body runs only when the consumer asks for the next item (one get_task() per iteration of the consuming for loop)",
        "lemmas (Python ints): x - x % 2, x - (x & 1), x ^ (x & 1) are even and in [x-1, x]; (x >> 1) << 1 and 2*x are even; "
        "x % 2 / x & 1 truthy <=> x odd; x >= 0 and not (x >> k) => x < 2**k; 0 <= x < 2**(k+1) and not (x & 2**k) => x < 2**k; "
        "x in range(a, b) <=> a <= x < b; x & m in [0, m] for m >= 0; x % m in [0, m-1] for m >= 1",
        "int.to_bytes(n, ..) and random.randbytes(n) have length n; str.encode() / bytes(str, codec) yield at most 4 bytes per character; "
        "len(x[:k]) <= k and len(x[a:b]) <= b - a for every sliceable x; str.format / % / join / f-strings yield a str",
        "the documented method-handler convention on_<command name without COMMAND_, lower case> (docs/tutorials/minimal_beacon_client.rst); "
        "Enum(value).name is the first name defined for the value; an IntEnum member is truthy iff its value is non-zero; "
        "CPython's own str methods applied to constant operands (constant folding)",
        "random.uniform(a, b) lies between a and b, random.random() in [0, 1]; an affine function of a draw in [lo, hi] ranges between its values at lo and hi",
        "0 is a number that is not None and falsy, and a sleeptime / jitter of 0 is a configuration the property quantifies over; a falsy number equals 0, "
        "a truthy number differs from 0; int(x) = x and float(x) = x for a number x; stores of self.sleeptime / self.jitter outside run() are not part of the configuration step",
        "`@d` above `def f` binds f to d(f), stacked decorators apply bottom-up; functools.partial(g, a..)(x) = g(a.., x); a call of a function that ends without `return <value>` "
        "evaluates to None; None is falsy, a function object is truthy; an int literal c is truthy iff c != 0, is an instance of int and is not None; "
        "handle and catch_all are the public registration decorators of HttpBeaconClient (their docstrings; docs/tutorials/minimal_beacon_client.rst for handle), -1 is the catch-all key (R2)",
        "a parameter default is evaluated once, when the def statement is executed, and bound in every call that omits the argument; class-body and module-level assignments are "
        "executed once per process and self.X / cls.X / Class.X read that one object while the instance has no attribute X of its own; an empty dict / list / set is falsy and "
        "has length 0, a non-empty one is truthy, neither is None; displays, comprehensions, container constructors, x.copy(), copy.copy / deepcopy and operators on builtin "
        "containers yield a new object, calling a class a new instance; dict(x) / x.copy() / copy.copy(x) / {**x} keep the values of x, dict.fromkeys(keys, v) files the one "
        "object v under every key; HttpBeaconClient instances are created by calling the class (no __new__ / metaclass tricks)",
    ]
    r1(ctx)
    r2(ctx)
    r3(ctx)
    r4(ctx)
    r5(ctx)
    r6(ctx)
    r7(ctx)
    r8(ctx)
    r9(ctx)
    r10(ctx)


# ------------------------------------------------------------------------------------------------ generic helpers
def _is_self_attr(e, attr):
    return isinstance(e, ast.Attribute) and e.attr == attr and isinstance(e.value, ast.Name) and e.value.id == "self"


def _is_name(e, name):
    return isinstance(e, ast.Name) and e.id == name


def _loads(e):
    return {n.id for n in ast.walk(e) if isinstance(n, ast.Name) and isinstance(n.ctx, ast.Load)}


def _chain_nodes(fn, e, all_defs=False):
    """Every AST node of expression `e` and - through local names - of the expressions that define them (node identity
    is kept, unlike `inline`).  With all_defs every definition of a multiply-defined local - and of a parameter that is
    rebound in the function - is followed (may-flow)."""
    out, seen = [], set()

    def go(x, depth):
        for n in ast.walk(x):
            out.append(n)
            if isinstance(n, ast.Name) and isinstance(n.ctx, ast.Load) and (all_defs or n.id not in params(fn)) and n.id not in seen and depth < 8:
                defs = [v for _s, v in assignments_to(fn, n.id) if v is not None]
                if defs and (all_defs or len(assignments_to(fn, n.id)) == 1):
                    seen.add(n.id)
                    for v in defs:
                        go(v, depth + 1)

    go(e, 0)
    return out


def _expr_conditions(fv, node):
    """Conditions that control the evaluation of `node` *inside its own statement*: the test of an enclosing conditional
    expression, the earlier operands of an enclosing `and` / `or`.  -> [(test expression, polarity)]"""
    out = []
    child = node
    par = fv.parent.get(id(child))
    while par is not None and not isinstance(par, (ast.stmt, ast.ExceptHandler)):
        if isinstance(par, ast.IfExp):
            if child is par.body:
                out.append((par.test, True))
            elif child is par.orelse:
                out.append((par.test, False))
        elif isinstance(par, ast.BoolOp) and child in par.values:
            for v in par.values[: par.values.index(child)]:
                out.append((v, isinstance(par.op, ast.And)))
        child, par = par, fv.parent.get(id(par))
    return out


def _flatten_condition(e, pol, out):
    """push negations inwards; split `a and b` holding / `a or b` failing into their parts"""
    while isinstance(e, ast.UnaryOp) and isinstance(e.op, ast.Not):
        e, pol = e.operand, not pol
    if isinstance(e, ast.BoolOp) and (isinstance(e.op, ast.And) == pol):
        for v in e.values:
            _flatten_condition(v, pol, out)
        return
    out.append((e, pol))


def _controlling_conditions(ctx, f, node):
    """[(test expression, polarity, statement that evaluates the test)] for every condition known to hold when `node`
    is evaluated: branch edges dominating its statement (CFG) and its position inside and/or/conditional expressions."""
    fv = FuncView.of(f.node)
    out = []
    for _t, pol, e in dominating_conditions(ctx, f, node):
        st = fv.stmt_of(e)
        if st is None:
            continue  # synthesised mirror of a comparison; the original is listed as well
        out.append((e, pol, st))
    st = fv.stmt_of(node)
    for e, pol in _expr_conditions(fv, node):
        flat = []
        _flatten_condition(e, pol, flat)
        out.extend((e2, p2, st) for e2, p2 in flat)
    return out


def _empty_name(fn, e, pol, stop=frozenset()):
    """The local name that the condition (e, polarity) establishes to be an *empty* collection, else None.
    Understands `x`, `len(x)`, `len(x) <op> 0|1`, `x == []` (either orientation), through single-definition temporaries
    (the names in `stop` are the collections of interest and are not substituted)."""
    e = inline(fn, e, stop=frozenset(stop))
    flat = []
    _flatten_condition(e, pol, flat)
    if len(flat) != 1:
        return None
    e, pol = flat[0]

    def coll(x):
        if isinstance(x, ast.Name):
            return x.id
        return None

    def length(x):
        if isinstance(x, ast.Call) and dotted(x.func) == "len" and len(x.args) == 1:
            return coll(x.args[0])
        return None

    if coll(e) and not pol:
        return coll(e)
    if length(e) and not pol:
        return length(e)
    if isinstance(e, ast.Call) and dotted(e.func) == "bool" and len(e.args) == 1 and not pol:
        return coll(e.args[0]) or length(e.args[0])
    if isinstance(e, ast.Compare) and len(e.ops) == 1:
        for l, op, r in compare_parts(e):
            n, k = length(l), _c(r)
            if n and isinstance(k, int) and not isinstance(k, bool):
                empty_when_true = (isinstance(op, ast.Eq) and k == 0) or (isinstance(op, ast.Lt) and k == 1) or (isinstance(op, ast.LtE) and k == 0)
                empty_when_false = (isinstance(op, ast.NotEq) and k == 0) or (isinstance(op, ast.Gt) and k == 0) or (isinstance(op, ast.GtE) and k == 1)
                if (empty_when_true and pol) or (empty_when_false and not pol):
                    return n
            n = coll(l)
            if n and isinstance(r, (ast.List, ast.Tuple)) and not r.elts:
                if (isinstance(op, ast.Eq) and pol) or (isinstance(op, ast.NotEq) and not pol):
                    return n
    return None


def _added_values(st):
    """(receiver-or-target expression, [value expressions]) if statement `st` puts values into a variable / container:
    assignments, augmented assignments, `recv.append(v)` & co.  Return statements count with receiver None."""
    if isinstance(st, ast.Assign):
        return [(t, [st.value]) for t in st.targets]
    if isinstance(st, ast.AnnAssign) and st.value is not None:
        return [(st.target, [st.value])]
    if isinstance(st, ast.AugAssign):
        return [(st.target, [st.value])]
    if isinstance(st, ast.Return) and st.value is not None:
        return [(None, [st.value])]
    if isinstance(st, ast.Expr):
        v = st.value
        if isinstance(v, (ast.Yield, ast.YieldFrom)) and v.value is not None:
            return [(None, [v.value])]
        if isinstance(v, ast.Call) and isinstance(v.func, ast.Attribute) and v.func.attr in ADDERS and v.args:
            return [(v.func.value, list(v.args) + [k.value for k in v.keywords])]
    if isinstance(st, (ast.For, ast.AsyncFor)):
        return [(st.target, [st.iter])]
    return []


def _flow_names(fn, seeds, blocked=frozenset(), skip=None):
    """Local names that (flow-insensitively) may hold values derived from the AST nodes `seeds`: closure over
    assignments, `x.append(v)`-style additions, loop targets and walrus bindings.  Names in `blocked` receive but do not
    pass the derivation on; loads for which `skip(node)` holds are ignored."""
    seed_ids = {id(s) for s in seeds}
    names = set()

    def derived(v):
        for n in ast.walk(v):
            if id(n) in seed_ids:
                return True
            if isinstance(n, ast.Name) and isinstance(n.ctx, ast.Load) and n.id in names and n.id not in blocked and not (skip is not None and skip(n)):
                return True
        return False

    changed = True
    while changed:
        changed = False
        for st in statements(fn):
            for tgt, vals in _added_values(st):
                if tgt is None or not any(derived(v) for v in vals):
                    continue
                for t in ast.walk(tgt):
                    if isinstance(t, ast.Name) and t.id not in names:
                        # `a.b.append(v)` / `a[i] = v`: the root name holds the value too
                        names.add(t.id)
                        changed = True
        for n in body_walk(fn):
            if isinstance(n, ast.NamedExpr) and n.target.id not in names and derived(n.value):
                names.add(n.target.id)
                changed = True
    return names


# ------------------------------------------------------------------------------------------------ R1
def _map_access(fn, e, mapname="task_map"):
    """(kind, key expression) if `e` reads/creates the entry of self.<mapname> under a key: `m[k]`, `m.get(k, ..)`,
    `m.setdefault(k, ..)`, `m.__getitem__(k)`, `m.pop(k, ..)`."""
    if isinstance(e, ast.Subscript) and _is_self_attr(e.value, mapname) and not isinstance(e.slice, ast.Slice):
        return "item", e.slice
    if isinstance(e, ast.Call) and isinstance(e.func, ast.Attribute) and _is_self_attr(e.func.value, mapname) and e.args and e.func.attr in ("get", "setdefault", "__getitem__", "pop"):
        return e.func.attr, e.args[0]
    return None


def _get_or_create(fn, recv, K):
    """`recv` is a local every definition of which is the list kept under key K of self.task_map: read from the map
    (`m[K]`, `m.setdefault(K, ..)`, `m.get(K)` without a substitute default) or created and stored in the same
    (chained) assignment `x = m[K] = []`."""
    if not isinstance(recv, ast.Name) or recv.id in params(fn):
        return False
    defs = assignments_to(fn, recv.id)
    if not defs:
        return False
    for st, v in defs:
        if v is None:
            return False
        if isinstance(st, ast.Assign) and any((_map_access(fn, t) or ("", None))[0] == "item" and _is_name(inline(fn, _map_access(fn, t)[1]), K) for t in st.targets):
            continue
        acc = _map_access(fn, inline(fn, v, stop=frozenset({recv.id})))
        if acc is None or not _is_name(inline(fn, acc[1]), K):
            return False
        kind = acc[0]
        if kind in ("item", "setdefault", "__getitem__"):
            continue
        call = inline(fn, v, stop=frozenset({recv.id}))
        if kind == "get" and (len(call.args) == 1 or (len(call.args) == 2 and isinstance(call.args[1], ast.Constant) and call.args[1].value is None)) and not call.keywords:
            continue
        return False
    return True


def _register_rule(ctx):
    """register_task(key, handler) adds `handler` exactly once, on every path, to the list kept under `key`."""
    reg = ctx.repo.func("client.HttpBeaconClient.register_task")
    text = "self.task_map[command_id].append(func)"
    ps = params(reg.node)
    if len(ps) < 3:
        ctx.undecided("R1", "AGREE", reg, text, f"register_task has no (key, handler) parameter pair any more: {ps}")
        return
    K, F = ps[1], ps[2]
    cfg = ctx.cfg(reg)
    good, bad, unknown = [], [], []
    for st in statements(reg.node):
        for tgt, vals in _added_values(st):
            n_f = sum(1 for v in vals for n in ast.walk(inline(reg.node, v)) if _is_name(n, F))
            if not n_f:
                continue
            if tgt is None:
                unknown.append(f"`{src(st)[:60]}` hands the handler out")
                continue
            recv = inline(reg.node, tgt)
            acc = _map_access(reg.node, recv)
            if acc is None and _get_or_create(reg.node, recv, K):
                # x = m.get(k) / if x is None: x = m[k] = [] / x.append(f): x is the list stored under k on every path
                if n_f != 1:
                    bad.append(f"`{src(st)[:60]}` adds the handler {n_f} times")
                else:
                    good.append(st)
                continue
            if acc is None:
                if any(_is_self_attr(n, "task_map") for n in ast.walk(recv)):
                    bad.append(f"`{src(st)[:60]}` does not address the entry of the key parameter")
                else:
                    unknown.append(f"receiver of `{src(st)[:60]}` is not resolved to an entry of self.task_map")
                continue
            kind, key = acc
            if not _is_name(inline(reg.node, key), K):
                bad.append(f"`{src(st)[:60]}` files the handler under `{src(key)}`, not under the key parameter")
                continue
            if isinstance(st, (ast.Assign, ast.AnnAssign)):
                # m[k] = <old entries> + [f]: the handlers registered before must be kept
                old = [n for v in vals for n in ast.walk(inline(reg.node, v)) if (_map_access(reg.node, n) or (None, None))[1] is not None and _is_name(inline(reg.node, _map_access(reg.node, n)[1]), K)]
                if not old:
                    bad.append(f"`{src(st)[:60]}` replaces the handlers registered before")
                    continue
            elif kind not in ("item", "setdefault", "__getitem__"):
                bad.append(f"`{src(st)[:60]}` adds to the result of .{kind}(), which is not stored when the key is new")
                continue
            if n_f != 1:
                bad.append(f"`{src(st)[:60]}` adds the handler {n_f} times")
                continue
            good.append(st)
    if bad:
        ctx.ob("R1", "AGREE", reg, text, False, "register_task does not append exactly once under its command id: " + "; ".join(bad))
        return
    if unknown and not good:
        ctx.undecided("R1", "AGREE", reg, text, "the statement that stores the handler is not understood: " + "; ".join(unknown))
        return
    if not good:
        ctx.ob("R1", "AGREE", reg, text, False, "register_task does not append exactly once under its command id: the handler parameter is never stored")
        return
    problems = []
    for st in good:
        n = cfg.node(st)
        if cfg.in_cycle(n):
            problems.append(f"`{src(st)[:50]}` is inside a loop")
    for i, a in enumerate(good):
        for b in good[i + 1:]:
            if cfg.reaches(cfg.node(a), cfg.node(b)) or cfg.reaches(cfg.node(b), cfg.node(a)):
                problems.append(f"`{src(a)[:40]}` and `{src(b)[:40]}` are executed for the same registration")
    if cfg.reaches(ENTRY, EXIT, avoiding=[cfg.node(s) for s in good]):
        problems.append("there is a path through register_task that does not store the handler")
    ok = not problems
    ctx.ob("R1", "AGREE", reg, text, ok, "register_task appends the handler once under its command id" if ok else "register_task does not append exactly once under its command id: " + "; ".join(problems))


def r1(ctx):
    def is_source(f, e):
        if isinstance(e, ast.Attribute) and e.attr == "task_map" and isinstance(e.value, ast.Name) and e.value.id == "self" and f.cls == "HttpBeaconClient":
            return "self.task_map (registered handler lists)"
        return None

    owners = {"client.HttpBeaconClient.register_task", "client.HttpBeaconClient.__init__"}
    al = Alias(ctx, is_source, owners).run()
    finds = al.findings()
    g = ctx.repo.func("client.HttpBeaconClient.get_handlers")
    mine = [x for x in finds if x.func.fq == g.fq]
    if not mine:
        ctx.ob("R1", "ALIAS", g, "handler lists", True, "get_handlers never mutates a list that may be a registered task_map value")
    for x in finds:
        ctx.ob("R1", "ALIAS", x.func, f"{x.kind} on {x.target}", False,
               f"`{src(x.node)[:60]}` mutates a list that may be a registered task_map value (grows by one per dispatched task): {x.target} <- {x.why}", x.node)
    # by-reference hand-out: the returned list must not alias the store either
    ret = al.taint_returns.get(g.fq)
    ctx.ob("R1", "ALIAS", g, "return value", ret is None, "returns a fresh list" if ret is None else f"hands out a registered handler list by reference: {ret}")
    # register_task is the only writer
    _register_rule(ctx)
    ctx.rep.count("task_map_reads", sum(1 for f in ctx.repo.all_funcs() for n in body_walk(f.node) if is_source(f, n)), floor=4)


# ------------------------------------------------------------------------------------------------ R2
def _get_handlers_rule(ctx):
    g = ctx.repo.func("client.HttpBeaconClient.get_handlers")
    fn = g.node
    cfg = ctx.cfg(g)
    fv = FuncView.of(fn)
    ps = params(fn)
    T_FALL, T_OC, T_ORDER, T_LOOKUP = "catch-all fallback", "on_catch_all fallback", "emptiness test after all specific sources", "self.task_map.get(command_id, [])"
    if len(ps) < 2:
        for t in (T_FALL, T_OC, T_ORDER, T_LOOKUP):
            ctx.undecided("R2", "DOM", g, t, "get_handlers has no command id parameter any more")
        return
    K = ps[1]
    # ---- locate the sources by role
    specific, fall, other_reads = [], [], []
    accessed = set()
    for n in body_walk(fn):
        acc = _map_access(fn, n)
        if acc is None:
            continue
        accessed.add(id(n.value if isinstance(n, ast.Subscript) else n.func.value))
        key = inline(fn, acc[1])
        kv = _const(ctx, g, key)
        if _is_name(key, K):
            specific.append(n)
        elif kv == -1 and not isinstance(kv, bool):
            fall.append(n)
        else:
            other_reads.append(n)
    for n in body_walk(fn):
        if _is_self_attr(n, "task_map") and id(n) not in accessed:
            par = fv.parent.get(id(n))
            # `k in self.task_map` is a membership test, not a read of the handlers
            if isinstance(par, ast.Compare) and any(isinstance(o, (ast.In, ast.NotIn)) for o in par.ops):
                continue
            other_reads.append(n)
    dyn, oc = [], []
    for c in fn_calls(fn):
        if dotted(c.func) == "getattr" and len(c.args) >= 2 and _is_name(c.args[0], "self"):
            name = _const(ctx, g, c.args[1])
            if name == "on_catch_all":
                oc.append(c)
            elif not isinstance(name, str):
                dyn.append(c)
    # plain attribute reads of the catch-all method (`self.on_catch_all`, e.g. after a hasattr test)
    oc += [n for n in body_walk(fn) if _is_self_attr(n, "on_catch_all") and isinstance(n.ctx, ast.Load)]
    sources = specific + dyn
    # names that hold specific handlers; per source for the completeness test
    per_source = [(s, _flow_names(fn, [s])) for s in sources]
    derived_any = set().union(*[names for _s, names in per_source]) if per_source else set()

    # ---- the AGREE part: handlers are looked up under the task's command id
    if specific:
        ctx.ob("R2", "AGREE", g, T_LOOKUP, True, "handlers are looked up under the task's command id")
    elif other_reads:
        ctx.undecided("R2", "AGREE", g, T_LOOKUP, f"self.task_map is read in a way the rule does not understand: {[src(n)[:40] for n in other_reads][:3]}")
    else:
        ctx.ob("R2", "AGREE", g, T_LOOKUP, False, "the handlers registered under the task's command id are never looked up")

    # ---- emptiness decisions that control the catch-all sources
    src_ids = {id(s) for s in sources}

    def guards(node):
        """-> (decisions [(tested name, statement that takes the decision)], a controlling condition mentions specific
        handlers but its shape is not understood)"""
        found, vague = [], False
        for e, pol, st in _controlling_conditions(ctx, g, node):
            n = _empty_name(fn, e, pol, derived_any)
            if n is not None and n in derived_any:
                found.append((n, st))
            elif (_loads(inline(fn, e, stop=frozenset(derived_any))) & derived_any) or any(id(x) in src_ids for x in _chain_nodes(fn, e)):
                vague = True
        return found, vague

    def selected_only_when_empty(c):
        """The catch-all values are computed unconditionally but kept apart from the specific ones: they may flow on
        (into the result or into a list holding specific handlers) only from positions controlled by an emptiness
        decision on the specific accumulator (`return specific or catch_all`, `if specific: return specific`)."""
        found = []

        def guarded_load(n):
            f2, _vague = guards(n)
            found.extend(f2)
            return bool(f2)

        apart = _flow_names(fn, [c], skip=guarded_load)
        if not apart or (apart & derived_any):
            return []
        for st in statements(fn):
            for tgt, vals in _added_values(st):
                if tgt is not None:
                    continue
                for v in vals:
                    for n in ast.walk(v):
                        if (n is c or (isinstance(n, ast.Name) and isinstance(n.ctx, ast.Load) and n.id in apart)) and not guarded_load(n):
                            return []
        return found

    decisions = []

    def fallback_ob(nodes, text, what, absent_detail, ok_detail):
        if not nodes:
            # is there a lookup the rule does not understand that may stand for it?
            if other_reads or (text == T_OC and any(guards(d)[0] for d in dyn)):
                ctx.undecided("R2", "DOM", g, text, f"the {what} cannot be located (the lookups present are not understood)")
            else:
                ctx.ob("R2", "DOM", g, text, False, absent_detail)
            return
        bad, vague_only = [], []
        for c in nodes:
            found, vague = guards(c)
            if not found:
                # computed eagerly, selected later
                found = selected_only_when_empty(c)
            if found:
                decisions.extend(found)
            else:
                (vague_only if vague else bad).append(c)
        if bad:
            ctx.ob("R2", "DOM", g, text, False, f"{what} is not dominated by `not handlers`", bad[0])
        elif vague_only:
            ctx.undecided("R2", "DOM", g, text, f"the {what} depends on the specific handlers through a condition whose shape is not understood: `{src(fv.stmt_of(vague_only[0]))[:60]}`")
        else:
            ctx.ob("R2", "DOM", g, text, True, ok_detail)

    fallback_ob(fall, T_FALL, "catch-all lookup", "the catch-all handlers (key -1) are never consulted", "catch-all handlers are consulted only when no handler was found")
    fallback_ob(oc, T_OC, "on_catch_all lookup", "on_catch_all is never consulted", "on_catch_all is consulted only when no handler was found")

    # ---- "no handler was found" must be decided after *every* specific source was consulted: the tested accumulator has
    # received every specific source, and nothing specific is added once the decision was taken - otherwise a command
    # handled only by an on_<command> method is also dispatched to the catch-all handlers
    if not decisions:
        ctx.undecided("R2", "DOM", g, T_ORDER, "no emptiness decision controlling the catch-all sources was located")
        return
    if not sources:
        ctx.undecided("R2", "DOM", g, T_ORDER, "no specific handler source was located")
        return
    tested = {n for n, _st in decisions}
    problems = []
    for n in sorted(tested):
        for s, names in per_source:
            if n not in names:
                problems.append(f"a list is tested for emptiness that never receives `{src(s)[:50]}`")
    held = _flow_names(fn, sources, blocked=frozenset(tested)) - tested

    def specific_value(x):
        return id(x) in src_ids or (isinstance(x, ast.Name) and isinstance(x.ctx, ast.Load) and x.id in held)

    late = []
    seen = set()
    for _n, tst in decisions:
        if id(tst) in seen or not cfg.has(tst):
            continue
        seen.add(id(tst))
        for st in statements(fn):
            if st is tst or isinstance(st, (ast.For, ast.AsyncFor)) or not cfg.has(st) or not cfg.reaches(cfg.node(tst), cfg.node(st)):
                continue
            if any(specific_value(x) for _tgt, vals in _added_values(st) for v in vals for x in ast.walk(v)):
                late.append(src(st)[:50])
        if not isinstance(tst, (ast.If, ast.While)):
            # decision taken inside an expression (`acc or ..`, `.. if acc else ..`): what it controls comes after it
            for x in ast.walk(tst):
                if specific_value(x) and any(_empty_name(fn, e, pol, derived_any) in tested for e, pol in _expr_conditions(fv, x)):
                    late.append(src(tst)[:50])
    late = sorted(set(late))
    ok = not problems and not late
    ctx.ob("R2", "DOM", g, T_ORDER, ok,
           f"{len(sources)} specific sources all reach the list tested for emptiness and none is added after that decision" if ok else
           "; ".join(sorted(set(problems)) + ([f"specific handlers added after the fallback decision: {late}"] if late else [])))


def _beacon_loop_rule(ctx):
    lp = ctx.repo.func("client.HttpBeaconClient._beacon_loop")
    fn = lp.node
    fv = FuncView.of(fn)
    cfg = ctx.cfg(lp)
    T_ONE, T_CB, T_CID = "single dispatch site", "send_callback on truthy response", "command_id = task.command.value"
    T_FAIL = "failing handler does not end the dispatch"

    def is_method_call(c, name):
        if dotted(c.func) == f"self.{name}":
            return True
        cal = ctx.rs.resolve_call(lp, c)
        return cal.kind == "func" and cal.func is not None and cal.func.fq == f"client.HttpBeaconClient.{name}"

    gh = [c for c in fn_calls(fn) if is_method_call(c, "get_handlers")]
    gt = [c for c in fn_calls(fn) if is_method_call(c, "get_task")]
    if not gh:
        for t in (T_ONE, T_CB, T_CID, T_FAIL):
            ctx.undecided("R2", "DOM", lp, t, "the beacon loop does not call get_handlers; the dispatch cannot be located")
        return
    # the names that hold the task
    task_names = {t.id for st in statements(fn) if isinstance(st, (ast.Assign, ast.AnnAssign)) and st.value is not None and any(st.value is c for c in gt)
                  for t in (st.targets if isinstance(st, ast.Assign) else [st.target]) if isinstance(t, ast.Name)}
    task_names |= {n.target.id for n in body_walk(fn) if isinstance(n, ast.NamedExpr) and any(n.value is c for c in gt)}

    # producer / consumer split: `for task in self._producer():` where the producer is a generator of the package every
    # item of which is the result of a get_task() call - the loop target holds the task (one get_task per iteration:
    # a generator body runs only when the consumer asks for the next item)
    def yields_tasks(callee):
        if callee is None or callee.kind != "func" or callee.func is None:
            return False
        g = callee.func
        ys = [n for n in body_walk(g.node) if isinstance(n, (ast.Yield, ast.YieldFrom))]
        if not ys:
            return False
        for y in ys:
            if isinstance(y, ast.YieldFrom) or y.value is None:
                return False
            v = inline(g.node, y.value)
            if not (isinstance(v, ast.Call) and (dotted(v.func) == "self.get_task" or getattr(ctx.rs.resolve_call(g, v).func, "fq", None) == "client.HttpBeaconClient.get_task")):
                return False
        return True

    for st in statements(fn):
        if isinstance(st, (ast.For, ast.AsyncFor)) and isinstance(st.target, ast.Name):
            it = inline(fn, st.iter)
            if isinstance(it, ast.Call) and dotted(it.func) == "iter" and len(it.args) == 1 and isinstance(it.args[0], ast.Call):
                it = it.args[0]
            if isinstance(it, ast.Call) and yields_tasks(ctx.rs.resolve_call(lp, it)):
                task_names.add(st.target.id)

    def is_task(e):
        e2 = e
        for _ in range(6):
            if isinstance(e2, ast.Name) and e2.id in task_names:
                return True
            if any(e2 is c for c in gt):
                return True
            if isinstance(e2, ast.Name):
                defs = assignments_to(fn, e2.id)
                if len(defs) == 1 and defs[0][1] is not None:
                    e2 = defs[0][1]
                    continue
            return False
        return False

    # ---- loops over the list returned by get_handlers
    def iter_source(e):
        """the get_handlers call that `e` iterates (through single-definition locals and transparent wrappers)"""
        for n in _chain_nodes(fn, e):
            if any(n is c for c in gh):
                return n
        return None

    fors = [s for s in statements(fn) if isinstance(s, (ast.For, ast.AsyncFor)) and iter_source(s.iter) is not None]
    problems = []
    calls = []
    if len(gh) != 1:
        problems.append(f"get_handlers is called at {len(gh)} sites")
    if len(fors) != 1:
        if not fors:
            ctx.undecided("R2", "DOM", lp, T_ONE, "no `for` loop over the result of get_handlers(..) was located; the dispatch has a shape the rule does not understand")
            ctx.undecided("R2", "DOM", lp, T_CB, "the dispatch loop was not located")
            ctx.undecided("R2", "ESC", lp, T_FAIL, "the dispatch loop was not located")
            _cid_rule(ctx, lp, gh, task_names, T_CID)
            return
        problems.append(f"{len(fors)} loops iterate over the handlers")
    loop = fors[0]
    # what is iterated: the list itself, possibly through wrappers that keep every element at most once
    # (list/tuple/iter/reversed/sorted/filter); the list twice (x + x, x * 2, chain(x, x)) is a double dispatch
    wrapped = inline(fn, loop.iter, stop=frozenset(task_names))
    unknown_wrapper = None
    w = wrapped
    while isinstance(w, ast.Call) and not is_method_call(w, "get_handlers"):
        d = dotted(w.func)
        if d in ("list", "tuple", "iter", "reversed", "sorted") and w.args:
            w = w.args[0]
        elif d == "filter" and len(w.args) == 2:
            w = w.args[1]
        else:
            break
    if not (isinstance(w, ast.Call) and is_method_call(w, "get_handlers")):
        n_lists = sum(1 for n in ast.walk(wrapped) if isinstance(n, ast.Call) and is_method_call(n, "get_handlers"))
        if n_lists >= 2 or any(isinstance(n, ast.BinOp) and isinstance(n.op, (ast.Mult, ast.Add)) for n in ast.walk(wrapped)):
            problems.append(f"the loop iterates `{src(wrapped)[:60]}`, not the handler list itself")
        else:
            unknown_wrapper = src(wrapped)[:60]
    hv = loop.target.id if isinstance(loop.target, ast.Name) else None
    if hv is None:
        ctx.undecided("R2", "DOM", lp, T_ONE, "the loop over the handlers does not bind a single name")
        ctx.undecided("R2", "DOM", lp, T_CB, "the handler call was not located")
        ctx.undecided("R2", "ESC", lp, T_FAIL, "the handler call was not located")
        _cid_rule(ctx, lp, gh, task_names, T_CID)
        return
    calls = [c for c in ast.walk(loop) if isinstance(c, ast.Call) and _is_name(c.func, hv)]
    header = cfg.node(loop)
    task_unknown = None
    if not calls:
        problems.append("the handler is never called in the loop")
    for c in calls:
        cargs = list(c.args) + [k.value for k in c.keywords if k.arg is not None]
        if len(cargs) != 1 or any(k.arg is None for k in c.keywords) or isinstance(cargs[0], ast.Starred):
            problems.append(f"`{src(c)[:40]}` is not handler(task)")
        elif not is_task(cargs[0]):
            if task_names or isinstance(inline(fn, cargs[0]), ast.Constant):
                problems.append(f"`{src(c)[:40]}` is not handler(task)")
            else:
                # no local of the loop was recognised as the result of get_task(): the task comes from a producer the rule
                # does not follow (not: a located task that is not handed over)
                task_unknown = f"`{src(c)[:40]}`: the value that holds the task received from get_task() was not located in the loop"
        inner = [a for a in fv.ancestors(c) if isinstance(a, (ast.For, ast.AsyncFor, ast.While, ast.ListComp, ast.SetComp, ast.GeneratorExp, ast.DictComp)) and a is not loop and loop in fv.ancestors(a)]
        if inner:
            problems.append(f"`{src(c)[:40]}` sits in a nested loop")
    for i, a in enumerate(calls):
        for b in calls[i + 1:]:
            sa, sb = fv.stmt_of(a), fv.stmt_of(b)
            if sa is sb or cfg.reaches(cfg.node(sa), cfg.node(sb), avoiding=[header]) or cfg.reaches(cfg.node(sb), cfg.node(sa), avoiding=[header]):
                problems.append(f"two handler calls for one handler of one task: `{src(sa)[:40]}` / `{src(sb)[:40]}`")
    # the handler variable is not rebound inside the loop
    if any(isinstance(s, (ast.Assign, ast.AugAssign, ast.AnnAssign)) and hv in {n.id for n in ast.walk(s) if isinstance(n, ast.Name) and isinstance(n.ctx, ast.Store)} for s in ast.walk(loop) if isinstance(s, ast.stmt)):
        problems.append("the loop variable is rebound inside the loop")
    ok = not problems
    if ok and unknown_wrapper:
        ctx.undecided("R2", "DOM", lp, T_ONE, f"the loop iterates `{unknown_wrapper}`; whether that keeps every handler exactly once is not known")
    elif ok and task_unknown:
        ctx.undecided("R2", "DOM", lp, T_ONE, task_unknown)
    else:
        ctx.ob("R2", "DOM", lp, T_ONE, ok, "each handler of the list returned by get_handlers(command_id) is called exactly once with the task" if ok else
               "dispatch is not one `for handler in get_handlers(..)` with one handler(task) call: " + "; ".join(problems))

    # ---- a callback is sent only for a truthy handler response, and it is that response
    sc = [c for c in fn_calls(fn) if is_method_call(c, "send_callback")]
    if not sc or not calls:
        ctx.undecided("R2", "DOM", lp, T_CB, "no send_callback call / handler call located in the beacon loop")
    else:
        resp_names = _flow_names(fn, calls)
        bad = []
        for c in sc:
            args = list(c.args) + [k.value for k in c.keywords]
            from_resp = any((isinstance(n, ast.Name) and isinstance(n.ctx, ast.Load) and n.id in resp_names) or any(n is h for h in calls) for a in args for n in ast.walk(a))
            if not from_resp:
                if loop in fv.ancestors(c):
                    bad.append(f"`{src(c)[:50]}` does not send the handler's response")
                continue
            guarded = False
            for e, pol, _st in _controlling_conditions(ctx, lp, c):
                flat = []
                _flatten_condition(inline(fn, e, stop=frozenset(resp_names)), pol, flat)
                if any(p2 and isinstance(e2, ast.Name) and e2.id in resp_names for e2, p2 in flat):
                    guarded = True
            if not guarded:
                bad.append(f"`{src(c)[:50]}` is not guarded by the handler's response")
        ctx.ob("R2", "DOM", lp, T_CB, not bad, "a callback is sent only for a truthy handler response" if not bad else "send_callback not guarded by the handler's response: " + "; ".join(bad))
    _containment_rule(ctx, lp, fv, fors, calls, [c for c in sc if any(l in fv.ancestors(c) for l in fors)], T_FAIL)
    _cid_rule(ctx, lp, gh, task_names, T_CID)


def _catches_exception(h):
    """the `except` clause takes every exception of class Exception: bare, `Exception`, `BaseException` (also in a tuple)"""
    if h.type is None:
        return True
    ts = h.type.elts if isinstance(h.type, ast.Tuple) else [h.type]
    return any(dotted(t) in ("Exception", "BaseException", "builtins.Exception", "builtins.BaseException") for t in ts)


def _leaving_statements(body, depth=0):
    """statements of `body` (no nested defs) that transfer control out of the enclosing loop: return, raise, and a
    `break` that is not inside a loop nested in `body`"""
    out = []
    for st in body:
        if isinstance(st, (ast.Return, ast.Raise)) or (isinstance(st, ast.Break) and depth == 0):
            out.append(st)
        elif isinstance(st, (ast.FunctionDef, ast.AsyncFunctionDef, ast.ClassDef)):
            continue
        elif isinstance(st, (ast.For, ast.AsyncFor, ast.While)):
            out += _leaving_statements(st.body, depth + 1) + _leaving_statements(st.orelse, depth)
        else:
            for field in ("body", "orelse", "finalbody"):
                out += _leaving_statements(getattr(st, field, []) or [], depth)
            for h in getattr(st, "handlers", []) or []:
                out += _leaving_statements(h.body, depth)
            for c in getattr(st, "cases", []) or []:
                out += _leaving_statements(c.body, depth)
    return out


def _containment_rule(ctx, lp, fv, loops, calls, sends, text):
    """One iteration of the dispatch loop = one handler.  "Every handler registered for the command receives the task" can
    only hold when the code that runs for one handler (the handler(task) call - foreign code - and the send of its
    response) cannot end the iteration over the *remaining* handlers: an exception of class Exception raised there must be
    taken by an `except` clause (or contextlib.suppress) that lies INSIDE the loop body, and that clause must not leave the
    loop (break / return / raise).  Decided on the syntax tree (enclosing try statements between the site and the loop,
    innermost first); the class caught is read off the `except` clause.  A try statement around the loop, or around a call
    that contains the loop, takes the exception only after the iteration was abandoned."""
    sites = [(c, "handler call") for c in calls] + [(c, "send of the response") for c in sends]
    if not sites:
        ctx.undecided("R2", "ESC", lp, text, "no handler call located in the dispatch loop")
        return
    bad, unknown = [], []
    for site, what in sites:
        anc = fv.ancestors(site)
        loop = next((l for l in loops if l in anc), None)
        if loop is None:
            continue
        # the chain site -> loop, innermost first
        chain, child = [], site
        par = fv.parent.get(id(child))
        while par is not None and par is not loop:
            chain.append((par, child))
            child, par = par, fv.parent.get(id(par))
        if par is None:
            unknown.append(f"`{src(site)[:40]}`: enclosing statements not resolved")
            continue
        if any(isinstance(p, (ast.FunctionDef, ast.AsyncFunctionDef, ast.Lambda)) for p, _c in chain):
            unknown.append(f"`{src(site)[:40]}` sits in a nested function")
            continue
        verdict = None
        for p, ch in chain:
            if isinstance(p, (ast.With, ast.AsyncWith)) and any(ch is b for b in p.body):
                for it in p.items:
                    e = it.context_expr
                    if isinstance(e, ast.Call) and dotted(e.func) in ("suppress", "contextlib.suppress") and any(dotted(a) in ("Exception", "BaseException") for a in e.args):
                        verdict = True
                if verdict:
                    break
            if (isinstance(p, ast.Try) or p.__class__.__name__ == "TryStar") and any(ch is b for b in p.body):
                taken = None
                for h in p.handlers:
                    leaves = _leaving_statements(h.body)
                    if leaves and taken is None:
                        taken = f"the `except {src(h.type) if h.type is not None else ''}` clause around the {what} `{src(site)[:40]}` leaves the loop over the handlers (`{src(leaves[0])[:30]}`)"
                    if _catches_exception(h):
                        verdict = taken is None
                        if taken:
                            bad.append(taken)
                        break
                if verdict is not None:
                    break
        if verdict is None:
            outer = [a for a in fv.ancestors(loop) if (isinstance(a, ast.Try) or a.__class__.__name__ == "TryStar")]
            where = "is only caught by a try statement around the whole loop" if outer else "is not caught inside the loop"
            bad.append(f"an exception raised by the {what} `{src(site)[:40]}` {where}: the handlers after the failing one never receive the task")
    if bad:
        ctx.ob("R2", "ESC", lp, text, False, "; ".join(sorted(set(bad))))
    elif unknown:
        ctx.undecided("R2", "ESC", lp, text, "; ".join(unknown))
    else:
        ctx.ob("R2", "ESC", lp, text, True, f"an Exception raised by one handler (or by sending its response) is taken by an except clause inside the loop body that goes on with the next handler ({len(sites)} sites)")


def _cid_rule(ctx, lp, gh, task_names, text):
    """the command id handed to get_handlers is derived from the task's command"""
    fn = lp.node
    bad, unknown = [], []
    for c in gh:
        a = c.args[0] if c.args and not isinstance(c.args[0], ast.Starred) else kwarg(c, "command_id")
        if a is None:
            unknown.append(f"`{src(c)[:50]}` passes no recognisable command id")
            continue
        nodes = _chain_nodes(fn, a, all_defs=True)
        cmd = [n for n in nodes if isinstance(n, ast.Attribute) and n.attr == "command" and isinstance(n.value, ast.Name) and (n.value.id in task_names or not task_names)]
        if not cmd:
            bad.append(f"`{src(inline(fn, a, stop=frozenset(task_names)))[:60]}`")
    if bad:
        ctx.ob("R2", "AGREE", lp, text, False, f"command id not derived from the task's command: {bad}")
    elif unknown:
        ctx.undecided("R2", "AGREE", lp, text, "; ".join(unknown))
    else:
        ctx.ob("R2", "AGREE", lp, text, True, f"command id derived from the task: {[src(inline(fn, c.args[0] if c.args else kwarg(c, 'command_id'), stop=frozenset(task_names)))[:60] for c in gh]}")


def r2(ctx):
    _get_handlers_rule(ctx)
    _beacon_loop_rule(ctx)


# ------------------------------------------------------------------------------------------------ abstract interpreter
class _Interp(absint.Interp):
    """absint.Interp plus: refinement through chained comparisons (`0 <= x <= C`), parity refinement by `x % 2` /
    `x & 1` tests, the other spellings of "clear bit 0", keyword arguments of int.to_bytes, random.randbytes."""

    @staticmethod
    def _bit0_of(e):
        """X if e is `X % 2` or `X & 1` / `1 & X`"""
        if isinstance(e, ast.BinOp):
            if isinstance(e.op, ast.Mod) and _c(e.right) == 2:
                return e.left
            if isinstance(e.op, ast.BitAnd):
                if _c(e.right) == 1:
                    return e.left
                if _c(e.left) == 1:
                    return e.right
        return None

    def _parity_fact(self, test, outcome):
        x = self._bit0_of(test)
        if x is not None:
            return x, (1 if outcome else 0)
        if isinstance(test, ast.Compare) and len(test.ops) == 1 and isinstance(test.ops[0], (ast.Eq, ast.NotEq)):
            for l, r in ((test.left, test.comparators[0]), (test.comparators[0], test.left)):
                x, k = self._bit0_of(l), _c(r)
                if x is not None and k in (0, 1) and not isinstance(k, bool):
                    same = isinstance(test.ops[0], ast.Eq) == outcome
                    return x, (k if same else 1 - k)
        return None

    def _ev(self, e, env):
        if isinstance(e, (ast.BinOp, ast.UnaryOp)):
            k = _c(e)
            if k is None and isinstance(e, ast.BinOp) and isinstance(e.op, ast.Pow):
                a, b = _c(e.left), _c(e.right)
                if isinstance(a, int) and isinstance(b, int) and 0 <= b <= 128 and abs(a) <= 1 << 16:
                    k = a ** b
            if isinstance(k, int) and not isinstance(k, bool):
                return absint.aint(k, k, k % 2)
        return super()._ev(e, env)

    def _range_fact(self, test, env, outcome):
        """bounds implied for a dotted name by `x in range(a, b)`, a falsy `x >> k`, a falsy `x & 2**k` (x < 2**(k+1))"""
        if isinstance(test, ast.Compare) and len(test.ops) == 1 and isinstance(test.ops[0], (ast.In, ast.NotIn)):
            r = test.comparators[0]
            if isinstance(r, ast.Call) and dotted(r.func) == "range" and 1 <= len(r.args) <= 2 and not r.keywords and (isinstance(test.ops[0], ast.In) == outcome):
                lo = _c(r.args[0]) if len(r.args) == 2 else 0
                hi = _c(r.args[-1])
                if isinstance(lo, int) and isinstance(hi, int):
                    return test.left, absint.Itv(lo, hi - 1)
        if not outcome and isinstance(test, ast.BinOp):
            v = self.ev(test.left, env)
            k = _c(test.right)
            if v.kind == "int" and v.itv.nonneg and isinstance(k, int) and not isinstance(k, bool) and k >= 0:
                if isinstance(test.op, ast.RShift) and k <= 128:
                    return test.left, absint.Itv(0, (1 << k) - 1)
                if isinstance(test.op, ast.BitAnd) and k > 0 and k & (k - 1) == 0 and v.itv.hi is not None and v.itv.hi < 2 * k:
                    return test.left, absint.Itv(0, k - 1)
        return None

    def refine(self, test, env, outcome):
        rf = self._range_fact(test, env, outcome)
        if rf is not None:
            d = dotted(rf[0])
            v = env.get(d) if d else None
            if v is not None and v.kind == "int":
                m = v.itv.meet(rf[1])
                if m is None:
                    return None
                out = dict(env)
                out[d] = replace(v, itv=m)
                return out
        if isinstance(test, ast.Compare) and len(test.ops) > 1:
            parts = compare_parts(test, mirrored=False)
            conj = ast.BoolOp(op=ast.And(), values=[ast.Compare(left=l, ops=[op], comparators=[r]) for l, op, r in parts])
            return self.refine(ast.copy_location(conj, test), env, outcome)
        out = super().refine(test, env, outcome)
        if out is None:
            return None
        pf = self._parity_fact(test, outcome)
        if pf is not None:
            d = dotted(pf[0])
            v = out.get(d) if d else None
            if v is not None and v.kind == "int":
                if v.parity is not None and v.parity != pf[1]:
                    return None
                out = dict(out)
                out[d] = replace(v, parity=pf[1])
        return out

    def _clears_bit0(self, e):
        l, r = e.left, e.right
        if isinstance(e.op, (ast.Sub, ast.BitXor)):
            x = self._bit0_of(r)
            if x is not None and src(x) == src(l):
                return True  # X - X % 2, X - (X & 1), X ^ (X & 1)
        if isinstance(e.op, ast.LShift) and _c(r) == 1 and isinstance(l, ast.BinOp) and isinstance(l.op, ast.RShift) and _c(l.right) == 1:
            return True  # (X >> 1) << 1
        if isinstance(e.op, ast.Mult) and 2 in (_c(l), _c(r)):
            return True
        return False

    # str -> str / bytes -> bytes methods whose result length the domain does not bound (kind transfer only)
    _TEXT_METHODS = frozenset({
        "format", "format_map", "join", "replace", "strip", "lstrip", "rstrip", "title", "capitalize", "casefold", "swapcase",
        "lower", "upper", "expandtabs", "center", "ljust", "rjust", "zfill", "translate", "removeprefix", "removesuffix"})

    def _slice(self, base, sl, env):
        # x[None:k], x[a:b:1] are x[:k], x[a:b]
        lower = None if isinstance(sl.lower, ast.Constant) and sl.lower.value is None else sl.lower
        upper = None if isinstance(sl.upper, ast.Constant) and sl.upper.value is None else sl.upper
        step = None if sl.step is None or _c(sl.step) == 1 or (isinstance(sl.step, ast.Constant) and sl.step.value is None) else sl.step
        return super()._slice(base, ast.Slice(lower=lower, upper=upper, step=step), env)

    def _binop(self, e, env):
        v = super()._binop(e, env)
        if v.kind is None and isinstance(e.op, ast.Mod):
            a = self.ev(e.left, env)
            if a.kind in ("str", "bytes"):
                return absint.AVal(a.kind)  # printf-style formatting yields the kind of the format, length unknown
        if v.kind == "int" and v.parity != 0 and self._clears_bit0(e):
            v = replace(v, parity=0)
            if isinstance(e.op, (ast.Sub, ast.BitXor)):
                a = self.ev(e.left, env)
                if a.kind == "int":
                    lo = None if a.itv.lo is None else a.itv.lo - 1
                    v = replace(v, itv=absint.Itv(lo, a.itv.hi))
        return v

    def _call(self, c, env):
        v = super()._call(c, env)
        name = dotted(c.func)
        if isinstance(c.func, ast.Attribute) and c.func.attr == "to_bytes" and not (v.kind == "bytes" and v.length.hi is not None):
            n = kwarg(c, "length")
            if n is not None:
                nv = self.ev(n, env)
                if nv.kind == "int" and nv.itv.nonneg:
                    return absint.AVal("bytes", absint.TOP, nv.itv)
        if name in ("random.randbytes", "os.urandom", "secrets.token_bytes") and c.args:
            nv = self.ev(c.args[0], env)
            if nv.kind == "int" and nv.itv.nonneg:
                return absint.AVal("bytes", absint.TOP, nv.itv)
        if v.kind is None and isinstance(c.func, ast.Attribute) and c.func.attr in self._TEXT_METHODS:
            recv = self.ev(c.func.value, env)
            if recv.kind in ("str", "bytes"):
                return absint.AVal(recv.kind)  # "{}".format(..), sep.join(..), x.replace(..): same kind, length unknown
        if v.kind is None and name in ("bytes", "bytearray") and c.args:
            # bytes(text, "utf-8") is text.encode("utf-8")
            a0 = self.ev(c.args[0], env)
            if a0.kind == "str" and (len(c.args) == 2 or kwarg(c, "encoding") is not None):
                hi = None if a0.length.hi is None else 4 * a0.length.hi
                return absint.AVal("bytes", absint.TOP, absint.Itv(0, hi))
        if v.kind is None and name in ("str.encode",) and c.args:
            a0 = self.ev(c.args[0], env)
            if a0.kind == "str":
                hi = None if a0.length.hi is None else 4 * a0.length.hi
                return absint.AVal("bytes", absint.TOP, absint.Itv(0, hi))
        return v


def _run_interp(f):
    it = _Interp(f.node, {"beacon_id": absint.aint(), "user": absint.AVal("str"), "computer": absint.AVal("str"), "process": absint.AVal("str")})
    it.run()
    return it


def _metadata_field_values(f, field):
    """[(statement, value expression)] of every place where `field` of the beacon metadata gets its value:
    `<..>.metadata.<field> = v`, `BeaconMetadata(<field>=v)`, `setattr(<..>metadata, "<field>", v)`."""
    out = []
    for st in statements(f.node):
        if isinstance(st, (ast.Assign, ast.AnnAssign)) and st.value is not None:
            for t in (st.targets if isinstance(st, ast.Assign) else [st.target]):
                d = dotted(t) or ""
                if isinstance(t, ast.Attribute) and t.attr == field and d.split(".")[-2:-1] and "metadata" in d.split(".")[-2].lower():
                    out.append((st, st.value))
                elif isinstance(t, ast.Attribute) and t.attr == field and isinstance(t.value, ast.Name):
                    # a local that holds the metadata object
                    defs = [v for _s, v in assignments_to(f.node, t.value.id) if v is not None]
                    if any(isinstance(v, ast.Call) and (dotted(v.func) or "").endswith("BeaconMetadata") for v in defs):
                        out.append((st, st.value))
    fv = FuncView.of(f.node)
    for c in fn_calls(f.node):
        d = dotted(c.func) or ""
        if d.endswith("BeaconMetadata") and kwarg(c, field) is not None:
            out.append((fv.stmt_of(c), kwarg(c, field)))
        if d == "setattr" and len(c.args) == 3 and _c(c.args[1]) == field and "metadata" in src(c.args[0]).lower():
            out.append((fv.stmt_of(c), c.args[2]))
    return out


# ------------------------------------------------------------------------------------------------ R3
def r3(ctx):
    f = ctx.repo.func("client.HttpBeaconClient.run")
    text = "self.metadata.bid = self.beacon_id"
    it = _run_interp(f)
    stores = _metadata_field_values(f, "bid")
    if not stores:
        ctx.undecided("R3", "ABS", f, text, "the place where the beacon id enters the metadata (field `bid`) was not located in run()")
    for st, value in stores:
        env = it.before.get(id(st))
        if env is None:
            ctx.undecided("R3", "ABS", f, text, f"`{src(st)[:60]}` is not reached by the abstract interpreter (unreachable or inside a construct it skips)", st)
            continue
        v = it.ev(value, env)
        if v.kind != "int":
            ctx.undecided("R3", "ABS", f, text, f"the value stored at `{src(st)[:60]}` is computed by operations the interval/parity domain does not model (no int value inferred)", st)
            continue
        ok = v.parity == 0 and v.itv.within(0, 2**31 - 1)
        ctx.ob("R3", "ABS", f, text, ok,
               f"at `{src(st)[:60]}` the id has interval {v.itv} and parity {'even' if v.parity == 0 else 'odd' if v.parity == 1 else 'unknown'} for an arbitrary integer input; required even and within [0, 2^31)", st)
    # the id sent in callbacks is the same normalised attribute
    g = ctx.repo.func("client.HttpBeaconClient.send_callback")
    t2 = "str(self.beacon_id).encode()"
    ids = []
    for c in fn_calls(g.node):
        d = dotted(c.func) or ""
        a = kwarg(c, "id")
        if a is None and d.endswith("C2Data") and len(c.args) >= 3 and not any(isinstance(x, ast.Starred) for x in c.args[:3]):
            a = c.args[2]
        if a is not None and (d.endswith("C2Data") or kwarg(c, "id") is not None):
            ids.append(a)
    if not ids:
        ctx.undecided("R3", "AGREE", g, t2, "the `id` handed to the client C2 data in send_callback was not located")
    else:
        def leaves(e):
            e = inline(g.node, e)
            par = {}
            for n in ast.walk(e):
                for ch in ast.iter_child_nodes(n):
                    par[id(ch)] = n
            return {dotted(n) for n in ast.walk(e) if isinstance(n, (ast.Name, ast.Attribute)) and dotted(n) and not isinstance(par.get(id(n)), ast.Attribute)
                    and not (isinstance(par.get(id(n)), ast.Call) and par[id(n)].func is n)}

        ok = all(any(x in ("self.beacon_id", "self.metadata.bid") for x in leaves(a)) for a in ids)
        ctx.ob("R3", "AGREE", g, t2, ok, "callbacks carry the normalised id" if ok else f"callbacks do not use self.beacon_id: id={[src(a)[:40] for a in ids]}")
    # out-of-range ids are rejected with ValueError
    cfg = ctx.cfg(f)
    fv = FuncView.of(f.node)
    for r in cfg.raise_stmts():
        branch = fv.enclosing(r, (ast.If,))
        if branch is not None and "beacon_id" in src(inline(f.node, branch.test)):
            ctx.ob("R3", "EXIT", f, "raise on out-of-range beacon id", raise_class(r) == "ValueError", f"out-of-range id raises {raise_class(r)}", r)


# ------------------------------------------------------------------------------------------------ R4
def _uses_random(ctx, f, call):
    cache = ctx.__dict__.setdefault("_c19_uses_random", {})
    cal = ctx.rs.resolve_call(f, call)
    d = dotted(call.func) or ""
    if d.startswith("random.") and d not in ("random.Random", "random.SystemRandom"):
        return True
    if cal.kind == "func" and cal.func is not None:
        fq = cal.func.fq
        if fq not in cache:
            cache[fq] = False
            cache[fq] = any(_uses_random(ctx, cal.func, c) for c in fn_calls(cal.func.node))
        return cache[fq]
    return False


def _is_global_random(c):
    d = dotted(c.func) or ""
    return d.startswith("random.") and d not in ("random.Random", "random.SystemRandom", "random.seed")


def r4(ctx):
    f = ctx.repo.func("client.HttpBeaconClient.run")
    fn = f.node
    cfg = ctx.cfg(f)
    fv = FuncView.of(fn)
    text = "random.seed(g(beacon_id)) -> aes_rand"
    seeds = [c for c in fn_calls(fn) if dotted(c.func) == "random.seed"]
    rand = [(s, v) for s in statements(fn) for t, vals in _added_values(s) if t is not None and _is_self_attr(t, "aes_rand") for v in vals]
    # tuple assignment `self.aes_rand, x = a, b`
    for s in statements(fn):
        if isinstance(s, ast.Assign):
            for t in s.targets:
                if isinstance(t, (ast.Tuple, ast.List)) and isinstance(s.value, (ast.Tuple, ast.List)) and len(t.elts) == len(s.value.elts):
                    rand += [(s, ve) for te, ve in zip(t.elts, s.value.elts) if _is_self_attr(te, "aes_rand")]
    if not rand:
        ctx.undecided("R4", "DOM", f, text, "no assignment of self.aes_rand was located in run()")
        return
    if len(rand) != 1:
        ctx.ob("R4", "DOM", f, text, False, f"{len(rand)} assignments of self.aes_rand")
        return
    rst, rval = rand[0]
    # the draws that feed aes_rand (through locals)
    chain = _chain_nodes(fn, rval, all_defs=True)
    draws = [n for n in chain if isinstance(n, ast.Call) and _is_global_random(n)]
    if not draws:
        if any(isinstance(n, ast.Call) and (dotted(n.func) or "") in ("random.Random", "random.SystemRandom", "os.urandom", "secrets.token_bytes") for n in chain):
            ctx.ob("R4", "DOM", f, text, False, f"aes_rand is drawn from a generator that random.seed(id) does not control: `{src(inline(fn, rval))[:70]}`", rst)
        else:
            ctx.undecided("R4", "DOM", f, text, f"aes_rand is not drawn from the random module (`{src(inline(fn, rval))[:70]}`); its dependence on the id is not analysed", rst)
        return
    if len(seeds) != 1:
        ctx.ob("R4", "DOM", f, text, False, f"{len(seeds)} random.seed calls for the draw that feeds aes_rand")
        return
    sst = fv.stmt_of(seeds[0])
    dsts = [fv.stmt_of(d) for d in draws]
    arg = seeds[0].args[0] if seeds[0].args else kwarg(seeds[0], "a")
    # ---- the seed is a function of the normalised id only
    stores = [s for s in statements(fn) for t, _v in _added_values(s) if t is not None and _is_self_attr(t, "beacon_id")]
    last = [s for s in stores if cfg.has(s) and not any(o is not s and cfg.has(o) and cfg.reaches(cfg.node(s), cfg.node(o)) for o in stores)]
    norm_texts = set()
    for s in last:
        if isinstance(s, (ast.Assign, ast.AnnAssign)) and s.value is not None:
            v = inline(fn, s.value)
            if any(isinstance(n, ast.Attribute) for n in ast.walk(v)):
                continue
            # the same text denotes the same value at the seed only if none of its names is rebound in between
            rebound = False
            for nm in {n.id for n in ast.walk(v) if isinstance(n, ast.Name)}:
                for dst, _dv in assignments_to(fn, nm):
                    d2 = dst if isinstance(dst, ast.stmt) else fv.stmt_of(dst)
                    if d2 is not None and cfg.has(d2) and cfg.reaches(cfg.node(s), cfg.node(d2)) and cfg.reaches(cfg.node(d2), cfg.node(sst)):
                        rebound = True
            if not rebound:
                norm_texts.add(src(v))
    names = set()
    if arg is not None:
        e = inline(fn, arg)

        class _Sub(ast.NodeTransformer):
            def generic_visit(self, node):
                if isinstance(node, ast.expr) and src(node) in norm_texts:
                    return ast.copy_location(ast.Attribute(value=ast.Name(id="self", ctx=ast.Load()), attr="beacon_id", ctx=ast.Load()), node)
                return super().generic_visit(node)

        e = _Sub().visit(copy.deepcopy(e))
        par = {}
        for n in ast.walk(e):
            for ch in ast.iter_child_nodes(n):
                par[id(ch)] = n
        names = {src(n) for n in ast.walk(e) if isinstance(n, (ast.Name, ast.Attribute)) and not isinstance(par.get(id(n)), ast.Attribute)
                 and not (isinstance(par.get(id(n)), ast.Call) and par[id(n)].func is n) and _const(ctx, f, n) is None}
    dep_ok = names == {"self.beacon_id"}
    dom = all(cfg.dominates(cfg.node(sst), cfg.node(d)) for d in dsts)
    # the normalisation precedes the seed: no store of the id is executed after the seed was taken
    after_norm = bool(stores) and not any(cfg.has(n) and cfg.reaches(cfg.node(sst), cfg.node(n)) for n in stores) and any(cfg.has(n) and cfg.dominates(cfg.node(n), cfg.node(sst)) for n in stores)
    # ---- no RNG use between the seed and the draw, exactly one draw
    draw_ids = {id(d) for d in draws}
    between = []
    for c in fn_calls(fn):
        if c is seeds[0] or id(c) in draw_ids:
            continue
        cst = fv.stmt_of(c)
        if cst is None or not cfg.has(cst):
            continue
        if not _uses_random(ctx, f, c):
            continue
        for dst in dsts:
            if cst is dst or (cfg.reaches(cfg.node(sst), cfg.node(cst), avoiding=[cfg.node(dst)]) and cfg.reaches(cfg.node(cst), cfg.node(dst), avoiding=[cfg.node(sst)])):
                between.append(src(c)[:40])
                break
    one_draw = len(draws) == 1 and not any(cfg.in_cycle(cfg.node(d)) for d in dsts) and not any(
        isinstance(a, (ast.ListComp, ast.GeneratorExp, ast.SetComp, ast.DictComp)) for d in draws for a in fv.ancestors(d))
    # ---- fixed width: the value is exactly 16 bytes (the width of the metadata field the server hashes)
    it = _run_interp(f)
    env = it.before.get(id(rst))
    v = it.ev(rval, env) if env is not None else absint.UNKNOWN
    b_ok = v.kind == "bytes" and v.length.lo == 16 and v.length.hi == 16
    if b_ok:
        # int.to_bytes(n) raises OverflowError for a draw of more than 8n bits
        for d in draws:
            if dotted(d.func) == "random.getrandbits" and d.args:
                k = _c(inline(fn, d.args[0]))
                if not (isinstance(k, int) and k <= 128):
                    b_ok = False
    ok = dep_ok and dom and after_norm and not between and b_ok and one_draw
    # a width the length domain cannot determine (an unrecognised way of building the bytes) is not a located wrong width
    width_unknown = not b_ok and (v.kind != "bytes" or v.length.hi is None) \
        and dep_ok and dom and after_norm and not between and one_draw
    # ... but a *minimal-width* integer encoding is a located wrong form: its length varies with the drawn value
    # (leading zero bytes are dropped), so the 16-byte field the server hashes and the bytes hashed here can differ
    rv_in = inline(fn, rval)
    for c in [n for n in ast.walk(rv_in) if isinstance(n, ast.Call)]:
        d = (dotted(c.func) or "").split(".")[-1]
        if d == "long_to_bytes" and len(c.args) < 2 and not any(k.arg == "blocksize" for k in c.keywords):
            width_unknown = False
        if d in ("lstrip", "rstrip", "strip") and isinstance(c.func, ast.Attribute):
            width_unknown = False  # stripping bytes off a fixed-width value makes its width depend on the drawn value
        if d in ("pack", "pack_be") and len(c.args) < 2 and not any(k.arg == "size" for k in c.keywords):
            cal = ctx.rs.resolve_call(f, c)
            if cal.kind == "func" and cal.func is not None and cal.func.fq == "utils.pack" and "size" not in cal.bound:
                width_unknown = False
    ctx.ob("R4", "DOM", f, text, ok,
           f"seed depends only on the normalised id={dep_ok} ({sorted(names)}); follows the normalisation={after_norm}; dominates the aes_rand draw={dom}; "
           f"RNG uses in between={between}; single draw={one_draw}; aes_rand = exactly 16 bytes={b_ok} (length {v.length if v.kind == 'bytes' else 'unknown'})", rst, undecided=width_unknown)


# ------------------------------------------------------------------------------------------------ R5
def r5(ctx):
    f = ctx.repo.func("client.HttpBeaconClient.run")
    text = "self.metadata.info = info_bytes"
    cd = ctx.cdefs("c_c2").get("c2struct")
    fixed = cd.struct("BeaconMetadata").fixed_prefix_size if cd else None
    limit = 128 - 11 - (fixed or 0)
    it = _run_interp(f)
    stores = _metadata_field_values(f, "info")
    if not stores:
        ctx.undecided("R5", "ABS", f, text, "the place where the info string enters the metadata (field `info`) was not located in run()")
        return
    for st, value in stores:
        env = it.before.get(id(st))
        if env is None:
            ctx.undecided("R5", "ABS", f, text, f"`{src(st)[:60]}` is not reached by the abstract interpreter", st)
            continue
        v = it.ev(value, env)
        # a bound established by slicing holds for every sliceable value (len(x[a:b]) <= b - a), also when the operations
        # that built x are not modelled (kind unknown); without such a bound an unmodelled value is not a located overflow
        ok = v.kind in ("bytes", None) and v.length.hi is not None and v.length.hi <= limit
        if not ok and v.kind is None:
            ctx.undecided("R5", "ABS", f, text, f"the value stored at `{src(st)[:60]}` is built by operations the length domain does not model "
                          f"(`{src(inline(f.node, value))[:80]}`); no bound on its length is inferred", st)
            continue
        ctx.ob("R5", "ABS", f, text, ok,
               f"len(info bytes) has interval {v.length} (kind {v.kind}) for arbitrary user/computer/process names (str.encode() is up to 4 bytes per character); "
               f"the metadata must fit a 1024-bit RSA key: 128 - 11 (PKCS#1 v1.5) - {fixed} (fixed part) = {limit} bytes", st)


# ------------------------------------------------------------------------------------------------ R6
def r6(ctx):
    f = ctx.repo.func("client.HttpBeaconClient.get_sleep_time")
    fn = f.node
    text = "return self.sleeptime - random.uniform(0, self.sleeptime * self.jitter / 100)"
    rets = [s for s in statements(fn) if isinstance(s, ast.Return) and s.value is not None]
    S, J = SymPoly.atom("self.sleeptime"), SymPoly.atom("self.jitter")
    band = {S - (S * J).div_const(100), S}
    if not rets:
        ctx.undecided("R6", "ABS", f, text, "get_sleep_time has no return value")
    for ret in rets:
        unis = {}

        def subst(x, depth=[0]):
            if isinstance(x, ast.Call) and dotted(x.func) == "random.uniform" and len(x.args) == 2 and not x.keywords:
                unis.setdefault(id(x), (f"U{len(unis)}", x))
                return SymPoly.atom(unis[id(x)][0])
            if isinstance(x, ast.Call) and dotted(x.func) == "random.random" and not x.args:
                unis.setdefault(id(x), (f"U{len(unis)}", x))
                return SymPoly.atom(unis[id(x)][0])
            if isinstance(x, ast.Call) and dotted(x.func) == "float" and len(x.args) == 1:
                return sympoly(x.args[0], subst)
            if isinstance(x, ast.Name) and x.id not in params(fn):
                defs = assignments_to(fn, x.id)
                if len(defs) == 1 and defs[0][1] is not None and depth[0] < 6:
                    depth[0] += 1
                    try:
                        return sympoly(defs[0][1], subst)
                    finally:
                        depth[0] -= 1
            return None

        total = sympoly(ret.value, subst)
        if total is None or len(unis) != 1 or not (total.atoms() - {"U0"}) <= {"self.sleeptime", "self.jitter"}:
            ctx.undecided("R6", "ABS", f, text, f"the returned expression `{src(inline(fn, ret.value))[:80]}` is not a polynomial in sleeptime, jitter and one uniform draw", ret)
            continue
        (_name, u), = unis.values()
        if dotted(u.func) == "random.random":
            lo, hi = SymPoly.const(0), SymPoly.const(1)
        else:
            lo, hi = sympoly(u.args[0], subst), sympoly(u.args[1], subst)
        # total = A + B*U, affine in the draw
        A, B, affine = {}, {}, lo is not None and hi is not None
        for k, c in total.terms.items():
            n = k.count("U0")
            if n == 0:
                A[k] = c
            elif n == 1:
                kk = list(k)
                kk.remove("U0")
                B[tuple(kk)] = c
            else:
                affine = False
        if not affine or (lo.atoms() | hi.atoms()) & {"U0"}:
            ctx.undecided("R6", "ABS", f, text, f"the returned expression is not affine in the uniform draw: {total}", ret)
            continue
        A, B = SymPoly(A), SymPoly(B)
        ends = {A + B * lo, A + B * hi}
        ok = ends == band
        ctx.ob("R6", "ABS", f, text, ok,
               f"returns {total} with U0 in [{lo}, {hi}]: the value ranges between {A + B * lo} and {A + B * hi}; required: between S - S*J/100 and S (S = sleeptime, J = jitter >= 0)", ret)
    run = ctx.repo.func("client.HttpBeaconClient.run")
    t2 = "sleeptime/jitter source"
    found = {}
    for attr, setting in (("sleeptime", "SETTING_SLEEPTIME"), ("jitter", "SETTING_JITTER")):
        vals = [v for st in statements(run.node) for t, vs in _added_values(st) if t is not None and _is_self_attr(t, attr) for v in vs]
        for st in statements(run.node):
            if isinstance(st, ast.Assign):
                for t in st.targets:
                    if isinstance(t, (ast.Tuple, ast.List)) and isinstance(st.value, (ast.Tuple, ast.List)) and len(t.elts) == len(st.value.elts):
                        vals += [ve for te, ve in zip(t.elts, st.value.elts) if _is_self_attr(te, attr)]
        if not vals:
            found[attr] = None
            continue
        found[attr] = any(setting in src(n) for v in vals for n in _chain_nodes(run.node, v, all_defs=True) if isinstance(n, (ast.Constant, ast.Attribute, ast.Name)))
    if any(v is None for v in found.values()):
        ctx.undecided("R6", "AGREE", run, t2, f"run() does not store {[k for k, v in found.items() if v is None]} on the client; the source of the sleep settings was not located")
    else:
        ok = all(found.values())
        ctx.ob("R6", "AGREE", run, t2, ok, "sleeptime and jitter default to the beacon's SETTING_SLEEPTIME / SETTING_JITTER" if ok else f"sleeptime/jitter not taken from the beacon settings: {found}")


# ------------------------------------------------------------------------------------------------ R7
# The documented registration convention for method handlers (docs/tutorials/minimal_beacon_client.rst, "Subclassed
# client": "defining a ``on_<command>`` method", e.g. `on_sleep` for COMMAND_SLEEP): the method of command
# COMMAND_<X> is `on_<x>`, <x> = <X> in lower case.
METHOD_PREFIX = "on_"
MEMBER_PREFIX = "COMMAND_"

# str methods that are constant-folded when receiver and arguments are constants
_FOLD_STR_METHODS = frozenset({
    "replace", "lower", "upper", "casefold", "lstrip", "rstrip", "strip", "removeprefix", "removesuffix", "title", "capitalize",
    "swapcase", "split", "rsplit", "partition", "rpartition", "startswith", "endswith", "format", "join", "find", "rfind",
    "index", "rindex", "count", "isupper", "islower", "ljust", "rjust", "center", "zfill"})
_MAX_ALTS = 12


class _Unk(Exception):
    """the value of an expression is not a constant the per-member constant propagation can determine"""


class _Member(tuple):
    """an enum member as a constant: (canonical name, value)"""
    __slots__ = ()

    def __new__(cls, name, value):
        return tuple.__new__(cls, (name, value))

    name = property(lambda self: self[0])
    value = property(lambda self: self[1])


def _enum_members(ctx, fq):
    """[(canonical name, value)] of the enum class `fq`, one entry per distinct value (the first name given to a value is
    the canonical one: Enum(value).name), or None when `fq` is not a parsed Enum class with constant int members."""
    try:
        cls = ctx.repo.cls(fq)
        attrs = ctx.repo.class_attrs(fq)
    except Exception:
        return None
    if not any((dotted(b) or "").split(".")[-1] in ("IntEnum", "Enum", "IntFlag", "Flag") for b in getattr(cls, "bases", [])):
        return None
    seen, out = set(), []
    for name, vexpr in attrs.items():
        if name.startswith("_"):
            continue
        v = _c(vexpr)
        if not isinstance(v, int) or isinstance(v, bool):
            return None
        if v not in seen:
            seen.add(v)
            out.append((name, v))
    return out


class _MemberEval:
    """Constant propagation through one function for ONE value of its key parameter (a member of the enum the function
    dispatches on): branch edges whose test folds to a constant under that value are removed from a copy of the CFG,
    locals are followed along the reaching definitions of the pruned CFG, constant expressions over str / int / tuple
    constants are folded.  The result of `values(expr, at)` is the set of constants `expr` may have, `_Unk` is raised when
    some alternative is not a constant this folding determines."""

    def __init__(self, ctx, f, key, enum_fq, enum_local, by_value, member):
        self.ctx, self.f, self.fn = ctx, f, f.node
        self.key, self.enum_fq, self.enum_local, self.by_value, self.member = key, enum_fq, enum_local, by_value, member
        self.fv = FuncView.of(self.fn)
        base = ctx.cfg(f)
        self.cfg = copy.copy(base)
        self.cfg.g = base.g.copy()
        self.cfg._idom = None
        self.cfg._ipdom = None
        self._prune()

    # ---- CFG pruning (device 2): only edges whose test is a constant for this member are removed
    def _prune(self):
        for _round in range(4):
            changed = False
            for n, st in list(self.cfg.stmt.items()):
                if not isinstance(st, (ast.If, ast.While)) or not self.cfg.reaches(ENTRY, n):
                    continue
                try:
                    truth = {self._truth(v) for v in self.values(st.test, st)}
                except _Unk:
                    continue
                if len(truth) != 1:
                    continue
                dead = self.cfg.edge_node(st, "false" if truth.pop() else "true")
                if self.cfg.g.has_edge(n, dead):
                    self.cfg.g.remove_edge(n, dead)
                    changed = True
            if not changed:
                break

    def live(self, st):
        return st is not None and self.cfg.has(st) and self.cfg.reaches(ENTRY, self.cfg.node(st))

    def _reaching(self, name, at):
        """definitions (statement, value) of local `name` that reach statement `at` in the pruned CFG"""
        cfg = self.cfg
        if at is None or not cfg.has(at):
            raise _Unk(f"use of `{name}` outside the CFG")
        use = cfg.node(at)
        nodes = []
        for st, v in assignments_to(self.fn, name):
            s = st if isinstance(st, ast.stmt) else self.fv.stmt_of(st)
            if s is None or not cfg.has(s):
                raise _Unk(f"binding of `{name}` outside the CFG")
            n = cfg.edge_node(s, "iter") if isinstance(s, (ast.For, ast.AsyncFor)) else cfg.node(s)
            nodes.append((n, s, v))
        all_nodes = [n for n, _s, _v in nodes]
        out = []
        for n, s, v in nodes:
            if n == use or not cfg.reaches(ENTRY, n):
                continue
            if cfg.reaches(n, use, avoiding=[x for x in all_nodes if x != n]):
                out.append((s, v))
        return out

    @staticmethod
    def _truth(v):
        return bool(v.value) if isinstance(v, _Member) else bool(v)  # an IntEnum member is truthy iff its value is not 0

    @staticmethod
    def _plain(v):
        return v.value if isinstance(v, _Member) else v  # IntEnum members compare (and hash) as their int value

    @staticmethod
    def _norm(v):
        if isinstance(v, list):
            v = tuple(v)
        if isinstance(v, tuple) and not isinstance(v, _Member):
            if not all(isinstance(x, (str, int, type(None))) for x in v):
                raise _Unk("non-constant tuple")
            return v
        if isinstance(v, (str, int, type(None), _Member)):
            return v
        raise _Unk(f"result of type {type(v).__name__}")

    def _product(self, exprs, at, depth):
        combos = [()]
        for e in exprs:
            vs = self.values(e, at, depth + 1)
            combos = [c + (v,) for c in combos for v in vs]
            if len(combos) > _MAX_ALTS:
                raise _Unk("too many alternatives")
        return combos

    def values(self, e, at, depth=0):
        out = self._values(e, at, depth)
        if not out or len(out) > _MAX_ALTS:
            raise _Unk("no / too many alternatives")
        return out

    def _values(self, e, at, depth):
        if depth > 14:
            raise _Unk("expression too deep")
        if isinstance(e, ast.Constant):
            if isinstance(e.value, (str, int, type(None))):
                return {e.value}
            raise _Unk(f"constant of type {type(e.value).__name__}")
        if isinstance(e, ast.Name):
            if e.id == self.key:
                if assignments_to(self.fn, e.id):
                    raise _Unk("the key parameter is rebound")
                return {self.member.value}
            if e.id in params(self.fn):
                raise _Unk(f"parameter `{e.id}`")
            defs = self._reaching(e.id, at)
            if not defs:
                k = _const(self.ctx, self.f, e)
                if isinstance(k, (str, int)):
                    return {k}
                raise _Unk(f"`{e.id}` has no reaching definition")
            out = set()
            for st, v in defs:
                if v is None:
                    raise _Unk(f"`{e.id}` is bound by a statement without a plain value")
                out |= self.values(v, st, depth + 1)
            return out
        if isinstance(e, ast.Attribute):
            if isinstance(e.value, ast.Name) and e.value.id == self.enum_local and not assignments_to(self.fn, e.value.id):
                attrs = self.ctx.repo.class_attrs(self.enum_fq)
                if e.attr in attrs:
                    v = _c(attrs[e.attr])
                    if v in self.by_value:
                        return {_Member(self.by_value[v], v)}
                raise _Unk(f"`{src(e)}`")
            if e.attr in ("name", "value", "_name_", "_value_"):
                out = set()
                for b in self.values(e.value, at, depth + 1):
                    if not isinstance(b, _Member):
                        raise _Unk(f"`.{e.attr}` of a value that is not an enum member")
                    out.add(b.name if e.attr in ("name", "_name_") else b.value)
                return out
            k = _const(self.ctx, self.f, e)
            if isinstance(k, (str, int)):
                return {k}
            raise _Unk(f"`{src(e)[:40]}`")
        if isinstance(e, ast.Call):
            return self._call(e, at, depth)
        if isinstance(e, ast.Subscript):
            out = set()
            if isinstance(e.slice, ast.Slice):
                parts = [p if p is not None else ast.Constant(value=None) for p in (e.slice.lower, e.slice.upper, e.slice.step)]
                idxs = [slice(*c) for c in self._product(parts, at, depth)]
            else:
                idxs = list(self.values(e.slice, at, depth + 1))
            for b in self.values(e.value, at, depth + 1):
                for i in idxs:
                    if not isinstance(b, (str, tuple)) or isinstance(b, _Member) or not (isinstance(i, slice) or (isinstance(i, int) and not isinstance(i, bool))):
                        raise _Unk("subscript of a non-sequence constant")
                    try:
                        out.add(self._norm(b[i]))
                    except (IndexError, TypeError, ValueError):
                        raise _Unk("subscript raises")
            return out
        if isinstance(e, ast.JoinedStr):
            parts = []
            for p in e.values:
                if isinstance(p, ast.FormattedValue):
                    if p.conversion not in (-1, 115) or p.format_spec is not None:
                        raise _Unk("formatted value with a conversion / format spec")
                    parts.append(p.value)
                else:
                    parts.append(p)
            out = set()
            for c in self._product(parts, at, depth):
                if not all(isinstance(x, str) or (isinstance(x, int) and not isinstance(x, (bool, _Member))) for x in c):
                    raise _Unk("f-string over a non-str constant")
                out.add("".join(str(x) for x in c))
            return out
        if isinstance(e, ast.BinOp):
            out = set()
            for a, b in self._product([e.left, e.right], at, depth):
                a, b = self._plain(a), self._plain(b)
                try:
                    if isinstance(e.op, ast.Add) and type(a) is type(b) and isinstance(a, (str, int, tuple)):
                        out.add(self._norm(a + b))
                    elif isinstance(e.op, ast.Sub) and isinstance(a, int) and isinstance(b, int):
                        out.add(a - b)
                    elif isinstance(e.op, ast.Mod) and isinstance(a, str) and (isinstance(b, str) or (isinstance(b, tuple) and all(isinstance(x, str) for x in b))):
                        out.add(a % b)
                    elif isinstance(e.op, ast.Mult) and isinstance(a, str) and isinstance(b, int) and 0 <= b <= 4:
                        out.add(a * b)
                    else:
                        raise _Unk(f"operator in `{src(e)[:40]}`")
                except (TypeError, ValueError):
                    raise _Unk("operator raises")
            return out
        if isinstance(e, ast.IfExp):
            try:
                truth = {self._truth(v) for v in self.values(e.test, at, depth + 1)}
            except _Unk:
                truth = {True, False}
            out = set()
            if True in truth:
                out |= self.values(e.body, at, depth + 1)
            if False in truth:
                out |= self.values(e.orelse, at, depth + 1)
            return out
        if isinstance(e, ast.BoolOp):
            cur = self.values(e.values[0], at, depth + 1)
            for nxt in e.values[1:]:
                keep = {v for v in cur if self._truth(v) == isinstance(e.op, ast.Or)}
                if len(keep) != len(cur):
                    keep |= self.values(nxt, at, depth + 1)
                cur = keep
            return cur
        if isinstance(e, ast.UnaryOp):
            vs = self.values(e.operand, at, depth + 1)
            if isinstance(e.op, ast.Not):
                return {not self._truth(v) for v in vs}
            if isinstance(e.op, ast.USub) and all(isinstance(self._plain(v), int) for v in vs):
                return {-self._plain(v) for v in vs}
            raise _Unk("unary operator")
        if isinstance(e, ast.Compare) and len(e.ops) == 1:
            out = set()
            op = e.ops[0]
            for a, b in self._product([e.left, e.comparators[0]], at, depth):
                a, b = self._plain(a), self._plain(b)
                try:
                    if isinstance(op, (ast.Eq, ast.NotEq)):
                        out.add((a == b) == isinstance(op, ast.Eq))
                    elif isinstance(op, (ast.Is, ast.IsNot)) and (a is None or b is None):
                        out.add(((a is None) == (b is None)) == isinstance(op, ast.Is))
                    elif isinstance(op, (ast.In, ast.NotIn)) and isinstance(b, (str, tuple)):
                        out.add((a in b) == isinstance(op, ast.In))
                    elif isinstance(op, (ast.Lt, ast.LtE, ast.Gt, ast.GtE)) and isinstance(a, int) and isinstance(b, int):
                        out.add({ast.Lt: a < b, ast.LtE: a <= b, ast.Gt: a > b, ast.GtE: a >= b}[type(op)])
                    else:
                        raise _Unk(f"comparison `{src(e)[:40]}`")
                except TypeError:
                    raise _Unk("comparison raises")
            return out
        if isinstance(e, (ast.Tuple, ast.List)):
            if any(isinstance(x, ast.Starred) for x in e.elts):
                raise _Unk("starred element")
            return {self._norm(tuple(self._plain(x) for x in c)) for c in self._product(list(e.elts), at, depth)}
        raise _Unk(f"`{src(e)[:40]}`")

    def _call(self, c, at, depth):
        if any(isinstance(a, ast.Starred) for a in c.args) or any(k.arg is None for k in c.keywords):
            raise _Unk("star arguments")
        cal = self.ctx.rs.resolve_call(self.f, c)
        if cal.kind == "class" and cal.fq == self.enum_fq:
            if len(c.args) != 1 or c.keywords:
                raise _Unk("enum call with other than one argument")
            out = set()
            for v in self.values(c.args[0], at, depth + 1):
                v = self._plain(v)
                if not isinstance(v, int) or v not in self.by_value:
                    raise _Unk("enum call on a value that is not a member value")
                out.add(_Member(self.by_value[v], v))
            return out
        name = dotted(c.func)
        if name in ("len", "str", "bool", "int") and len(c.args) == 1 and not c.keywords:
            out = set()
            for v in self.values(c.args[0], at, depth + 1):
                if name == "len" and isinstance(v, (str, tuple)) and not isinstance(v, _Member):
                    out.add(len(v))
                elif name == "str" and (isinstance(v, str) or (isinstance(v, int) and not isinstance(v, (bool, _Member)))):
                    out.add(str(v))
                elif name == "bool":
                    out.add(self._truth(v))
                elif name == "int" and isinstance(self._plain(v), int):
                    out.add(int(self._plain(v)))
                else:
                    raise _Unk(f"`{name}` of a constant of type {type(v).__name__}")
            return out
        if isinstance(c.func, ast.Attribute) and c.func.attr in _FOLD_STR_METHODS:
            out = set()
            kw_names = [k.arg for k in c.keywords]
            for combo in self._product([c.func.value] + list(c.args) + [k.value for k in c.keywords], at, depth):
                recv, args, kws = combo[0], combo[1:1 + len(c.args)], combo[1 + len(c.args):]
                if not isinstance(recv, str):
                    raise _Unk(f"`.{c.func.attr}` on a constant that is not a str")
                args = [self._plain(a) for a in args]
                try:
                    out.add(self._norm(getattr(recv, c.func.attr)(*args, **dict(zip(kw_names, (self._plain(k) for k in kws))))))
                except (TypeError, ValueError, IndexError, KeyError, AttributeError):
                    raise _Unk(f"`.{c.func.attr}` raises on its constant operands")
            return out
        raise _Unk(f"call `{src(c)[:40]}`")


def r7(ctx):
    """The method handler of a command is looked up under the documented name: for every member COMMAND_<X> of the enum
    that get_handlers(key) dispatches on, the name handed to getattr(self, ..) is `on_<x>`."""
    g = ctx.repo.func("client.HttpBeaconClient.get_handlers")
    fn = g.node
    text = "getattr(self, f\"on_{command_name}\", None) for every BeaconCommand"
    ps = params(fn)
    if len(ps) < 2:
        ctx.undecided("R7", "VOCAB", g, text, "get_handlers has no command id parameter any more")
        return
    K = ps[1]
    fv = FuncView.of(fn)
    sites = []
    for c in fn_calls(fn):
        if dotted(c.func) == "getattr" and len(c.args) >= 2 and _is_name(c.args[0], "self") and not isinstance(_const(ctx, g, c.args[1]), str):
            sites.append(c)
    if not sites:
        ctx.undecided("R7", "VOCAB", g, text, "no getattr(self, <computed name>) lookup of a method handler was located in get_handlers")
        return
    # the enum the key is converted to: a resolved class call on the key parameter
    enum_fq = enum_local = None
    for c in fn_calls(fn):
        cal = ctx.rs.resolve_call(g, c)
        if cal.kind == "class" and len(c.args) == 1 and _is_name(inline(fn, c.args[0]), K) and isinstance(c.func, ast.Name):
            members = _enum_members(ctx, cal.fq)
            if members:
                enum_fq, enum_local = cal.fq, c.func.id
                break
    if enum_fq is None:
        ctx.undecided("R7", "VOCAB", g, text, "the enum that the command id is converted to was not located (no `Enum(command_id)` call on a parsed Enum class)")
        return
    by_value = {v: n for n, v in members}
    wrong, unknown, checked, skipped = [], [], 0, []
    for mname, mval in members:
        if not mname.startswith(MEMBER_PREFIX) or mval == 0:
            skipped.append(mname)
            continue
        expected = METHOD_PREFIX + mname[len(MEMBER_PREFIX):].lower()
        ev = _MemberEval(ctx, g, K, enum_fq, enum_local, by_value, _Member(mname, mval))
        exact, possible, why = False, False, None
        looked = set()
        for c in sites:
            st = fv.stmt_of(c)
            if not ev.live(st):
                continue
            try:
                names = ev.values(c.args[1], st)
            except _Unk as e:
                possible, why = True, str(e)
                continue
            looked |= {repr(n) for n in names}
            if names == {expected}:
                exact = True
            elif expected in names:
                possible, why = True, "more than one candidate name"
        checked += 1
        if exact:
            continue
        if possible:
            unknown.append(f"{mname}: {why}")
        else:
            wrong.append(f"{mname} -> {', '.join(sorted(looked)) or 'no lookup'} (documented: '{expected}')")
    ctx.rep.count("beacon_commands", checked, floor=50)
    if wrong:
        ctx.ob("R7", "VOCAB", g, text, False,
               f"for {len(wrong)} of {checked} commands the on_<command> method is looked up under another name than the documented one, so a method "
               f"handler registered for the command is never dispatched (and the catch-all handlers run instead): " + "; ".join(wrong[:8]) + (" ..." if len(wrong) > 8 else ""), sites[0])
    elif unknown:
        ctx.undecided("R7", "VOCAB", g, text, f"the looked-up method name is not a constant the per-command constant propagation determines for {len(unknown)} of {checked} commands: " + "; ".join(unknown[:3]), sites[0])
    else:
        ctx.ob("R7", "VOCAB", g, text, True,
               f"for each of the {checked} commands (distinct values of {enum_fq.split('.')[-1]}) the method handler is looked up as on_<command name without {MEMBER_PREFIX}, lower case>"
               + (f"; not covered: {skipped}" if skipped else ""), sites[0])


# ------------------------------------------------------------------------------------------------ R8
_ENTRY_DEF = object()


def _state_key(e):
    """'name' for a local / parameter, 'self.attr' for an attribute of the client object, else None"""
    if isinstance(e, ast.Name):
        return e.id
    if isinstance(e, ast.Attribute) and isinstance(e.value, ast.Name) and e.value.id == "self":
        return "self." + e.attr
    return None


def _is_none(e):
    return isinstance(e, ast.Constant) and e.value is None


class _OverrideCase:
    """Path-wise value flow through one function for ONE case of an optional numeric parameter P that is *given*:
    `P is not None` and bool(P) == `truthy` (the cases None / not None, truthy / falsy of a parameter are a finite
    vocabulary; the falsy case is inhabited by the number 0).  Branch edges whose test is decided by the case are removed
    from a copy of the CFG, locals and `self.<attr>` stores are followed along the reaching definitions of the pruned CFG,
    and/or/conditional expressions are resolved operand by operand.  Nothing is executed: a test the case does not decide
    stays unknown and both outcomes are kept."""

    def __init__(self, ctx, f, P, truthy, prune=True):
        self.ctx, self.f, self.fn, self.P, self.truthy = ctx, f, f.node, P, truthy
        self.fv = FuncView.of(self.fn)
        base = ctx.cfg(f)
        self.cfg = copy.copy(base)
        self.cfg.g = base.g.copy()
        self.cfg._idom = None
        self.cfg._ipdom = None
        # the bindings of a key do not depend on the case: shared between the cases of one function
        self._defs = ctx.__dict__.setdefault("_c19_state_defs", {}).setdefault(id(self.fn), {})
        if prune:
            self._prune()

    # ---- definitions of a local / of self.<attr> inside the function
    def defs(self, key):
        if key in self._defs:
            return self._defs[key]
        out = []
        if not key.startswith("self."):
            for st, v in assignments_to(self.fn, key):
                s = st if isinstance(st, ast.stmt) else self.fv.stmt_of(st)
                out.append((s, v))
        else:
            attr = key[5:]

            def hit(t):
                return _is_self_attr(t, attr)

            for st in statements(self.fn):
                if isinstance(st, ast.Assign):
                    for t in st.targets:
                        if hit(t):
                            out.append((st, st.value))
                        elif isinstance(t, (ast.Tuple, ast.List)) and any(hit(x) for x in ast.walk(t)):
                            if isinstance(st.value, (ast.Tuple, ast.List)) and len(t.elts) == len(st.value.elts) and not any(isinstance(x, ast.Starred) for x in t.elts):
                                out.extend((st, ve) for te, ve in zip(t.elts, st.value.elts) if hit(te))
                                if not any(hit(te) for te in t.elts):
                                    out.append((st, None))
                            else:
                                out.append((st, None))
                elif isinstance(st, ast.AnnAssign) and st.value is not None and hit(st.target):
                    out.append((st, st.value))
                elif isinstance(st, ast.AugAssign) and hit(st.target):
                    out.append((st, None))
                elif isinstance(st, (ast.For, ast.AsyncFor)) and any(hit(x) for x in ast.walk(st.target)):
                    out.append((st, None))
                elif isinstance(st, (ast.With, ast.AsyncWith)) and any(it.optional_vars is not None and any(hit(x) for x in ast.walk(it.optional_vars)) for it in st.items):
                    out.append((st, None))
                elif isinstance(st, ast.Expr) and isinstance(st.value, ast.Call) and dotted(st.value.func) == "setattr" and len(st.value.args) == 3 \
                        and _is_name(st.value.args[0], "self") and _c(st.value.args[1]) == attr:
                    out.append((st, st.value.args[2]))
        self._defs[key] = out
        return out

    def reaching(self, key, at):
        """[(statement | _ENTRY_DEF, value | None)]: the definitions of `key` that reach statement `at` in the pruned CFG;
        None when `key` is never bound in the function (a global, an attribute this function does not store)"""
        cfg = self.cfg
        defs = self.defs(key)
        is_param = key in params(self.fn)
        if not defs and not is_param:
            return None
        if at is None or not cfg.has(at):
            raise _Unk(f"use of `{key}` outside the CFG")
        use = cfg.node(at)
        nodes = []
        for s, v in defs:
            if s is None or not cfg.has(s):
                raise _Unk(f"binding of `{key}` outside the CFG")
            nodes.append((cfg.edge_node(s, "iter") if isinstance(s, (ast.For, ast.AsyncFor)) else cfg.node(s), s, v))
        all_nodes = [n for n, _s, _v in nodes]
        out = []
        for n, s, v in nodes:
            if not cfg.reaches(ENTRY, n):
                continue
            if n == use and not cfg.in_cycle(n):
                continue  # the defining statement reads the key on its right-hand side: reached by the others only
            if cfg.reaches(n, use, avoiding=[x for x in all_nodes if x != n]):
                out.append((s, v))
        if cfg.reaches(ENTRY, use, avoiding=all_nodes) or use == ENTRY:
            out.append((_ENTRY_DEF, None))
        return out

    # ---- the values an expression may have: {(kind, text)}, kind P (the given parameter itself) / OTHER (a value that
    # does not depend on the parameter) / FUNC (computed from the parameter) / UNK (not followed)
    def alts(self, e, at, depth=0):
        if depth > 14:
            return {("UNK", src(e)[:50])}
        while isinstance(e, ast.Call) and dotted(e.func) in ("cast", "typing.cast") and len(e.args) == 2:
            e = e.args[1]
        if isinstance(e, ast.NamedExpr):
            return self.alts(e.value, at, depth + 1)
        if isinstance(e, ast.Call) and dotted(e.func) in ("int", "float") and len(e.args) == 1 and not e.keywords and not isinstance(e.args[0], ast.Starred):
            return self.alts(e.args[0], at, depth + 1)  # int(x) = x, float(x) = x for a number x
        if isinstance(e, ast.IfExp):
            t = self.truth(e.test, at, depth + 1)
            out = set()
            if t is not False:
                out |= self.alts(e.body, at, depth + 1)
            if t is not True:
                out |= self.alts(e.orelse, at, depth + 1)
            return out
        if isinstance(e, ast.BoolOp):
            stop_on = isinstance(e.op, ast.Or)  # `a or b` is a when a is truthy, `a and b` is a when a is falsy
            out = set()
            for v in e.values[:-1]:
                t = self.truth(v, at, depth + 1)
                if t is None:
                    out |= self.alts(v, at, depth + 1)
                elif t == stop_on:
                    return out | self.alts(v, at, depth + 1)
            return out | self.alts(e.values[-1], at, depth + 1)
        key = _state_key(e)
        if key is not None and isinstance(getattr(e, "ctx", None), ast.Load):
            try:
                rd = self.reaching(key, at)
            except _Unk as ex:
                return {("UNK", str(ex))}
            if rd is None:
                return {("OTHER", key)}
            out = set()
            for s, v in rd:
                if s is _ENTRY_DEF:
                    out.add(("P", key) if key == self.P else ("OTHER", key))
                elif v is None:
                    out.add(("UNK", src(s)[:50]))
                else:
                    out |= self.alts(v, s, depth + 1)
            return out or {("UNK", key)}
        if isinstance(e, ast.Constant):
            return {("OTHER", src(e)[:50])}
        return {("FUNC" if self.depends(e, at, depth + 1) else "OTHER", src(e)[:60])}

    def depends(self, e, at, depth):
        """may the value of the compound expression `e` depend on the given parameter?"""
        skip = set()
        for n in ast.walk(e):
            if id(n) in skip:
                continue
            key = _state_key(n)
            if key is None or key == "self" or not isinstance(getattr(n, "ctx", None), ast.Load):
                continue
            if isinstance(n, ast.Attribute):
                skip.add(id(n.value))
            if any(k != "OTHER" for k, _t in self.alts(n, at, depth + 1)):
                return True
        return False

    # ---- three-valued truth of a test under the case
    def _number(self, e, at, depth):
        """the number `e` is known to be under the case: 0 for the parameter in the falsy case (a falsy number is 0),
        constants; else None"""
        k = _c(e)
        if isinstance(k, (int, float)) and not isinstance(k, bool):
            return k
        if not self.truthy and {kd for kd, _t in self.alts(e, at, depth + 1)} == {"P"}:
            return 0
        return None

    def truth(self, t, at, depth=0):
        if depth > 14:
            return None
        if isinstance(t, ast.UnaryOp) and isinstance(t.op, ast.Not):
            v = self.truth(t.operand, at, depth + 1)
            return None if v is None else (not v)
        if isinstance(t, ast.BoolOp):
            vals = [self.truth(v, at, depth + 1) for v in t.values]
            if isinstance(t.op, ast.And):
                return False if any(v is False for v in vals) else True if all(v is True for v in vals) else None
            return True if any(v is True for v in vals) else False if all(v is False for v in vals) else None
        if isinstance(t, ast.NamedExpr):
            return self.truth(t.value, at, depth + 1)
        if isinstance(t, ast.Call) and dotted(t.func) == "bool" and len(t.args) == 1 and not t.keywords:
            return self.truth(t.args[0], at, depth + 1)
        if isinstance(t, ast.Compare):
            parts = compare_parts(t, mirrored=False)
            if len(parts) > 1:
                vals = [self._compare(l, op, r, at, depth) for l, op, r in parts]
                return False if any(v is False for v in vals) else True if all(v is True for v in vals) else None
            return self._compare(*parts[0], at, depth)
        if isinstance(t, ast.Constant):
            return bool(t.value)
        kinds = {k for k, _t in self.alts(t, at, depth + 1)}
        if kinds == {"P"}:
            return self.truthy
        key = _state_key(t)
        if key is not None and isinstance(getattr(t, "ctx", None), ast.Load):
            # a flag computed earlier: the truth of its reaching definitions, when they agree
            try:
                rd = self.reaching(key, at)
            except _Unk:
                return None
            if rd and all(s is not _ENTRY_DEF and v is not None for s, v in rd):
                vals = {self.truth(v, s, depth + 1) for s, v in rd}
                if len(vals) == 1:
                    return vals.pop()
        return None

    def _compare(self, l, op, r, at, depth):
        if _is_none(l) and not _is_none(r):
            l, r = r, l
        if _is_none(r) and isinstance(op, (ast.Is, ast.IsNot, ast.Eq, ast.NotEq)):
            if _is_none(l):
                return isinstance(op, (ast.Is, ast.Eq))
            if {k for k, _t in self.alts(l, at, depth + 1)} == {"P"}:
                return isinstance(op, (ast.IsNot, ast.NotEq))  # the case: the parameter is given
            return None
        a, b = self._number(l, at, depth), self._number(r, at, depth)
        if a is not None and b is not None:
            table = {ast.Eq: a == b, ast.NotEq: a != b, ast.Lt: a < b, ast.LtE: a <= b, ast.Gt: a > b, ast.GtE: a >= b}
            return table.get(type(op))
        if self.truthy and isinstance(op, (ast.Eq, ast.NotEq)):
            # a truthy number is not 0
            for x, y in ((l, b), (r, a)):
                if y == 0 and {k for k, _t in self.alts(x, at, depth + 1)} == {"P"}:
                    return isinstance(op, ast.NotEq)
        return None

    def _prune(self):
        for _round in range(4):
            changed = False
            for n, st in list(self.cfg.stmt.items()):
                if not isinstance(st, (ast.If, ast.While)) or not self.cfg.reaches(ENTRY, n):
                    continue
                t = self.truth(st.test, st)
                if t is None:
                    continue
                dead = self.cfg.edge_node(st, "false" if t else "true")
                if self.cfg.g.has_edge(n, dead):
                    self.cfg.g.remove_edge(n, dead)
                    changed = True
            if not changed:
                break

    def final_stores(self, key):
        """the stores of `key` whose value is the one the function leaves behind on some path of the pruned CFG"""
        cfg = self.cfg
        live = [(s, v) for s, v in self.defs(key) if s is not None and cfg.has(s) and cfg.reaches(ENTRY, cfg.node(s))]
        nodes = [cfg.node(s) for s, _v in live]
        return [(s, v) for s, v in live if cfg.reaches(cfg.node(s), EXIT, avoiding=[x for x in nodes if x != cfg.node(s)])]


def r8(ctx):
    """An explicit override of a sleep setting is the value the client sleeps by: for every attribute that get_sleep_time
    computes the interval from and run() configures from an optional parameter, the value run() leaves in the attribute
    is the parameter itself whenever the parameter is given (not None) - also when the given number is 0."""
    g = ctx.repo.func("client.HttpBeaconClient.get_sleep_time")
    run_f = ctx.repo.func("client.HttpBeaconClient.run")
    fn = run_f.node
    # the attributes of the client the returned sleep time is computed from
    read = []
    for ret in [s for s in statements(g.node) if isinstance(s, ast.Return) and s.value is not None]:
        for n in _chain_nodes(g.node, ret.value, all_defs=True):
            if isinstance(n, ast.Attribute) and isinstance(n.ctx, ast.Load) and isinstance(n.value, ast.Name) and n.value.id == "self" and n.attr not in read:
                read.append(n.attr)
    defaults = {}
    a = fn.args
    pos = list(a.posonlyargs) + list(a.args)
    for p, d in zip(pos[len(pos) - len(a.defaults):], a.defaults):
        defaults[p.arg] = d
    for p, d in zip(a.kwonlyargs, a.kw_defaults):
        if d is not None:
            defaults[p.arg] = d
    optional = {p for p, d in defaults.items() if _is_none(d)}
    subjects = 0
    for attr in read:
        key = "self." + attr
        text = f"an explicit {attr} override is the {attr} the client sleeps by"
        stores = _OverrideCase(ctx, run_f, "", True, prune=False).defs(key)
        if not stores:
            continue
        subjects += 1
        # the override: the optional parameter of run() that flows into the attribute
        flow = set()
        for _s, v in stores:
            if v is not None:
                flow |= {n.id for n in _chain_nodes(fn, v, all_defs=True) if isinstance(n, ast.Name) and isinstance(n.ctx, ast.Load) and n.id in optional}
        if attr in optional:
            flow = {attr}  # the keyword of the public API that carries the override, even when it no longer flows into the attribute
        if len(flow) != 1:
            ctx.undecided("R8", "AGREE", run_f, text, f"the optional parameter of run() that overrides self.{attr} was not located (candidates: {sorted(flow)})")
            continue
        P = next(iter(flow))
        lost, vague, kept = [], [], []
        for truthy, label in ((True, "a non-zero number"), (False, "0")):
            case = _OverrideCase(ctx, run_f, P, truthy)
            finals = case.final_stores(key)
            if not finals:
                vague.append(f"{P} = {label}: no store of self.{attr} is reached")
                continue
            vals = set()
            for s, v in finals:
                vals |= {("UNK", src(s)[:50])} if v is None else case.alts(v, s)
            kinds = {k for k, _t in vals}
            if kinds == {"P"}:
                kept.append(label)
            elif kinds == {"OTHER"}:
                lost.append(f"for {P} = {label} (given, not None) run() leaves `{'` / `'.join(sorted(t for _k, t in vals))[:90]}` in self.{attr}")
            else:
                vague.append(f"{P} = {label}: self.{attr} may be " + ", ".join(sorted(f"{'the override' if k == 'P' else t}" for k, t in vals))[:120])
        if lost:
            ctx.ob("R8", "AGREE", run_f, text, False,
                   f"the explicit override is discarded: {'; '.join(lost)} - get_sleep_time() then draws from a band that is not the configured one "
                   f"(the selection between override and beacon setting must be decided by `{P} is None`, not by a test that a given number can fail)")
        elif vague:
            ctx.undecided("R8", "AGREE", run_f, text, "whether the given override reaches the attribute unchanged is not determined: " + "; ".join(vague))
        else:
            ctx.ob("R8", "AGREE", run_f, text, True, f"for a given `{P}` (not None; cases {', '.join(kept)}) the value run() leaves in self.{attr} is the parameter itself")
    if not subjects:
        ctx.undecided("R8", "AGREE", run_f, "an explicit override is the value the client sleeps by",
                      f"run() stores none of the attributes get_sleep_time reads ({read}); the configuration of the sleep settings was not located")


# ------------------------------------------------------------------------------------------------ R9
_FUNC, _NONE, _CONST, _UNK = "func", "none", "const", "unknown"
_NONE_KEY = object()  # the key expression is the constant None
_MAX_FRAMES = 8


class _Frame:
    """One function of the symbolic application `front_end(..)(FUNC)`.  `subject` is the parameter that holds FUNC (None
    in a decorator *factory*, which has not received the function yet), `env` binds parameters to the argument
    expressions of the caller (expression, frame of the caller, statement of the caller that evaluates it), `top` marks the
    decorator itself (as opposed to a helper method it calls), `parent` is the lexically enclosing frame of a nested
    def / lambda (closure variables are looked up there)."""

    def __init__(self, f, subject=None, env=None, parent=None, depth=0, top=False):
        self.f, self.fn, self.subject, self.env, self.parent, self.depth, self.top = f, f.node, subject, dict(env or {}), parent, depth, top


class _Outcome:
    """What one decorator value does when it is applied to FUNC: `reg` = (once | bad | unknown | never, detail) for the
    hand-over to register_task, `keys` = [(key expression, frame, statement)] of those hand-overs, `kinds` = the values
    the application may evaluate to {(func | none | const | unknown, detail)}."""

    def __init__(self, reg, keys=(), kinds=(), what=""):
        self.reg, self.keys, self.kinds, self.what = reg, list(keys), set(kinds), what


class _DecoratorModel:
    """Def-use / argument-binding model of the registration decorators (no code is run: FUNC stays a symbol, keys stay
    terms; the only constants are those of the analysed code)."""

    def __init__(self, ctx):
        from csverif.cfg import CFG
        from csverif.loader import Func

        self.ctx, self._CFG, self._Func = ctx, CFG, Func
        self.reg = ctx.repo.func("client.HttpBeaconClient.register_task")
        ps = params(self.reg.node)
        self.K, self.F = (ps[1], ps[2]) if len(ps) >= 3 else (None, None)
        self._cfgs, self._synth = {}, []

    # ---- plumbing
    def cfg(self, fn):
        hit = self._cfgs.get(id(fn))
        if hit is None or hit[0] is not fn:
            hit = (fn, self._CFG(fn))
            self._cfgs[id(fn)] = hit
        return hit[1]

    def func_for(self, frame, node, label):
        for f in frame.f.module.funcs.values():
            if f.node is node:
                return f
        f = self._Func(frame.f.module, f"{frame.f.qualname}.{label}", node, frame.f.cls, frame.f)
        self._synth.append(f)
        return f

    def method(self, frame, e):
        """the method of the client class that `self.<name>` (expression `e`) denotes, else None"""
        if not (isinstance(e, ast.Attribute) and isinstance(e.value, ast.Name) and e.value.id == "self"):
            return None
        probe = ast.copy_location(ast.Call(func=e, args=[], keywords=[]), e)
        try:
            cal = self.ctx.rs.resolve_call(frame.f, probe)
        except Exception:
            return None
        if cal.kind == "func" and cal.func is not None and cal.func.cls:
            return cal.func
        return None

    def is_reg(self, f):
        return f is not None and f.fq == self.reg.fq

    @staticmethod
    def _unknown(why):
        return _Outcome(("unknown", why), kinds={(_UNK, why)}, what=why)

    # ---- the decorator values a factory may return
    def factory(self, frame):
        if frame.depth > _MAX_FRAMES:
            return [self._unknown("the chain of delegating methods is too deep")]
        cfg = self.cfg(frame.fn)
        outs = []
        if cfg.falls_off_end():
            outs.append(_Outcome(("bad", f"{frame.f.qualname} may return no decorator at all (falls off the end)"), kinds={(_UNK, "no decorator")}))
        for ret in cfg.return_stmts():
            if not cfg.reaches(ENTRY, cfg.node(ret)):
                continue
            if ret.value is None or _is_none(ret.value):
                outs.append(_Outcome(("bad", f"{frame.f.qualname} returns None instead of a decorator"), kinds={(_UNK, "no decorator")}))
                continue
            outs.extend(self.decorator_value(frame, inline(frame.fn, ret.value), ret))
        return outs

    def _nested_def(self, frame, name):
        defs = [s for s in statements(frame.fn) if isinstance(s, (ast.FunctionDef, ast.AsyncFunctionDef)) and s.name == name]
        if len(defs) == 1 and not assignments_to(frame.fn, name) and name not in params(frame.fn):
            return defs[0]
        return None

    def decorator_value(self, frame, v, at):
        if isinstance(v, ast.IfExp):
            return self.decorator_value(frame, v.body, at) + self.decorator_value(frame, v.orelse, at)
        if isinstance(v, ast.Name):
            d = self._nested_def(frame, v.id)
            if d is not None:
                ps = params(d)
                if not ps or isinstance(d, ast.AsyncFunctionDef):
                    return [self._unknown(f"the nested function `{v.id}` takes no positional parameter")]
                return [self.apply(_Frame(self.func_for(frame, d, d.name), ps[0], None, frame, frame.depth + 1, top=True))]
            if v.id in frame.env and not assignments_to(frame.fn, v.id):
                ex, fr, at2 = frame.env[v.id]
                return self.decorator_value(fr, inline(fr.fn, ex), at2)
            return [self._unknown(f"the returned `{v.id}` is not a nested function")]
        if isinstance(v, ast.Lambda):
            ps = params(v)
            if not ps:
                return [self._unknown("the returned lambda takes no parameter")]
            d = ast.FunctionDef(name="_lambda", args=v.args, body=[ast.copy_location(ast.Return(value=v.body), v.body)], decorator_list=[], returns=None, type_comment=None)
            if "type_params" in ast.FunctionDef._fields:
                d.type_params = []
            ast.fix_missing_locations(ast.copy_location(d, v))
            return [self.apply(_Frame(self.func_for(frame, d, "<lambda>"), ps[0], None, frame, frame.depth + 1, top=True))]
        if isinstance(v, ast.Call):
            name = dotted(v.func) or ""
            if name.split(".")[-1] == "partial" and v.args and not any(isinstance(a, ast.Starred) for a in v.args) and all(k.arg for k in v.keywords):
                m = self.method(frame, inline(frame.fn, v.args[0]))
                if m is None:
                    return [self._unknown(f"`{src(v)[:50]}` does not bind a method of the client")]
                pos = params(m.node)[1:]
                given = v.args[1:]
                kw = {k.arg: k.value for k in v.keywords}
                if len(given) >= len(pos) or pos[len(given)] in kw:
                    return [self._unknown(f"`{src(v)[:50]}` leaves no positional parameter for the decorated function")]
                env = {p: (a, frame, at) for p, a in zip(pos, given)}
                env.update({k: (a, frame, at) for k, a in kw.items()})
                return [self.apply(_Frame(m, pos[len(given)], env, None, frame.depth + 1, top=True))]
            m = self.method(frame, v.func)
            if m is not None and not self.is_reg(m) and m.fq != frame.f.fq:
                # delegation to another front end: catch_all() -> self.handle(KEY)
                env = {p: (a, frame, at) for p, a in bind_args(v, m.node, skip_self=True).items() if a is not None}
                return self.factory(_Frame(m, None, env, None, frame.depth + 1))
        return [self._unknown(f"the returned `{src(v)[:50]}` is not a decorator form the rule understands")]

    # ---- a function applied to FUNC
    def apply(self, frame):
        if frame.depth > _MAX_FRAMES:
            return self._unknown("the chain of helper methods is too deep")
        fn, P = frame.fn, frame.subject
        if self.is_reg(frame.f):
            if P != self.F:
                return _Outcome(("bad", f"the decorated function is handed to register_task as its `{P}`, not as the handler"), kinds=self.return_kinds(frame), what="register_task")
            return _Outcome(("once", "register_task(key, func)"), [(ast.Name(id=self.K, ctx=ast.Load()), frame, None)], self.return_kinds(frame), "register_task")
        if assignments_to(fn, P):
            return self._unknown(f"`{frame.f.qualname}` rebinds the parameter that holds the decorated function")
        fv = FuncView.of(fn)
        cfg = self.cfg(fn)
        local_defs = {s.name for s in statements(fn) if isinstance(s, (ast.FunctionDef, ast.AsyncFunctionDef))}
        events, bad, unknown = [], [], []
        for c in fn_calls(fn):
            m = self.method(frame, c.func)
            if m is None:
                continue
            bound = {p: a for p, a in bind_args(c, m.node, skip_self=True).items() if a is not None}
            plain = [p for p, a in bound.items() if _is_name(inline(fn, a, stop=frozenset({P})), P)]
            mentions = [p for p, a in bound.items() if P in _loads(inline(fn, a, stop=frozenset({P})))]
            if self.is_reg(m):
                h = bound.get(self.F)
                hi = inline(fn, h, stop=frozenset({P})) if h is not None else None
                if hi is None:
                    unknown.append(f"`{src(c)[:50]}` passes no recognisable handler")
                    continue
                if not _is_name(hi, P):
                    if P in _loads(hi) or isinstance(hi, ast.Lambda) or (isinstance(hi, ast.Name) and hi.id in local_defs):
                        unknown.append(f"`{src(c)[:50]}` registers a value built from the decorated function")
                    else:
                        bad.append(f"`{src(c)[:50]}` registers `{src(hi)[:30]}`, not the decorated function")
                    continue
            elif len(plain) != 1 or len(mentions) != 1:
                if mentions:
                    unknown.append(f"`{src(c)[:50]}` hands a value built from the decorated function to `{m.qualname}`")
                continue
            st = fv.stmt_of(c)
            sub = self.apply(_Frame(m, self.F if self.is_reg(m) else plain[0], {p: (a, frame, st) for p, a in bound.items()}, None, frame.depth + 1))
            if sub.reg[0] == "never":
                continue
            if sub.reg[0] == "bad":
                bad.append(sub.reg[1])
            elif sub.reg[0] == "unknown":
                unknown.append(sub.reg[1])
            elif _expr_conditions(fv, c) or any(isinstance(a, (ast.ListComp, ast.SetComp, ast.DictComp, ast.GeneratorExp, ast.Lambda)) for a in fv.ancestors(c)) or st is None or not cfg.has(st):
                unknown.append(f"`{src(c)[:50]}` is evaluated conditionally / repeatedly inside an expression")
            else:
                events.append((st, c, sub))
        kinds = self.return_kinds(frame)
        what = frame.f.qualname
        if bad:
            return _Outcome(("bad", "; ".join(bad)), kinds=kinds, what=what)
        if unknown:
            return _Outcome(("unknown", "; ".join(unknown)), kinds=kinds, what=what)
        if not events:
            if any(isinstance(n, ast.Attribute) and n.attr == "task_map" for n in ast.walk(fn)):
                return _Outcome(("unknown", f"`{what}` touches self.task_map itself"), kinds=kinds, what=what)
            if not frame.top:
                return _Outcome(("never", ""), kinds=kinds, what=what)
            for c in fn_calls(fn):
                if any(P in _loads(a) for a in list(c.args) + [k.value for k in c.keywords]):
                    try:
                        kind = self.ctx.rs.resolve_call(frame.f, c).kind
                    except Exception:
                        kind = "func"
                    if kind in ("func", "class", "partial", "struct"):
                        return _Outcome(("unknown", f"`{what}` hands the decorated function to `{src(c.func)[:30]}`, which the rule does not follow"), kinds=kinds, what=what)
            return _Outcome(("bad", f"`{what}` never hands the decorated function to register_task"), kinds=kinds, what=what)
        problems = []
        nodes = [cfg.node(st) for st, _c, _s in events]
        for (st, c, _s), n in zip(events, nodes):
            if cfg.in_cycle(n):
                problems.append(f"`{src(c)[:40]}` is inside a loop")
        for i, a in enumerate(nodes):
            for b in nodes[i + 1:]:
                if a == b or cfg.reaches(a, b) or cfg.reaches(b, a):
                    problems.append("the function is registered more than once by one application of the decorator")
        if cfg.reaches(ENTRY, EXIT, avoiding=nodes):
            problems.append(f"there is a path through `{what}` that returns without registering the function")
        keys = [k for _st, _c, sub in events for k in sub.keys]
        if problems:
            return _Outcome(("bad", "; ".join(sorted(set(problems)))), keys, kinds, what)
        return _Outcome(("once", f"{len(events)} hand-over(s), one on every path"), keys, kinds, what)

    # ---- what the application evaluates to
    def return_kinds(self, frame):
        cfg = self.cfg(frame.fn)
        out = set()
        if cfg.falls_off_end():
            out.add((_NONE, f"`{frame.f.qualname}` may end without returning a value"))
        for ret in cfg.return_stmts():
            if not cfg.reaches(ENTRY, cfg.node(ret)):
                continue
            if ret.value is None:
                out.add((_NONE, f"bare `return` in `{frame.f.qualname}`"))
            else:
                out |= self.kinds(frame, ret.value)
        return out

    def kinds(self, frame, e, depth=0):
        fn, P = frame.fn, frame.subject
        if depth > 8 or assignments_to(fn, P):
            return {(_UNK, f"`{src(e)[:40]}`")}
        e = inline(fn, e, stop=frozenset({P}))
        if isinstance(e, ast.NamedExpr):
            return self.kinds(frame, e.value, depth + 1)
        if _is_name(e, P):
            return {(_FUNC, "")}
        if isinstance(e, ast.Constant):
            return {(_NONE, f"`return None` in `{frame.f.qualname}`")} if e.value is None else {(_CONST, f"`{src(e)[:30]}` in `{frame.f.qualname}`")}
        if isinstance(e, ast.IfExp):
            return self.kinds(frame, e.body, depth + 1) | self.kinds(frame, e.orelse, depth + 1)
        if isinstance(e, ast.BoolOp):
            # None is falsy, a function object is truthy
            cur = self.kinds(frame, e.values[0], depth + 1)
            for nxt in e.values[1:]:
                ks = {k for k, _d in cur}
                short = {_FUNC} if isinstance(e.op, ast.Or) else {_NONE}
                cont = {_NONE} if isinstance(e.op, ast.Or) else {_FUNC}
                if ks <= short:
                    return cur
                if ks <= cont:
                    cur = self.kinds(frame, nxt, depth + 1)
                elif ks <= short | cont:
                    cur = {(k, d) for k, d in cur if k in short} | self.kinds(frame, nxt, depth + 1)
                else:
                    return {(_UNK, f"`{src(e)[:40]}`")}
            return cur
        if isinstance(e, ast.Subscript) and isinstance(e.value, (ast.Tuple, ast.List)) and not any(isinstance(x, ast.Starred) for x in e.value.elts):
            i = _c(e.slice)
            if isinstance(i, int) and not isinstance(i, bool) and -len(e.value.elts) <= i < len(e.value.elts):
                return self.kinds(frame, e.value.elts[i], depth + 1)
        if isinstance(e, ast.Call):
            m = self.method(frame, e.func)
            if m is not None and frame.depth < _MAX_FRAMES:
                bound = {p: a for p, a in bind_args(e, m.node, skip_self=True).items() if a is not None}
                plain = [p for p, a in bound.items() if _is_name(inline(fn, a, stop=frozenset({P})), P)]
                if len(plain) == 1:
                    return self.return_kinds(_Frame(m, plain[0], None, None, frame.depth + 1))
        return {(_UNK, f"`{src(e)[:40]}`")}

    # ---- the key of a hand-over
    @staticmethod
    def _visible(frame, name):
        return name in params(frame.fn) or bool(assignments_to(frame.fn, name))

    def key_params(self, frame, e, out, depth=0):
        """the unbound parameters {(frame, name)} the key `e` may be computed from: may-flow def-use closure through the
        locals of the frame, the bound arguments of the callers and the closure variables of the enclosing frames"""
        if depth > 10:
            return
        fn = frame.fn
        for n in _chain_nodes(fn, e, all_defs=True):
            if not (isinstance(n, ast.Name) and isinstance(n.ctx, ast.Load)):
                continue
            if n.id in params(fn):
                if n.id in frame.env:
                    ex, fr, _at = frame.env[n.id]
                    self.key_params(fr, ex, out, depth + 1)
                else:
                    out.add((frame, n.id))
            elif not assignments_to(fn, n.id) and frame.parent is not None and self._visible(frame.parent, n.id):
                self.key_params(frame.parent, ast.Name(id=n.id, ctx=ast.Load()), out, depth + 1)

    def _assume(self, frame):
        """truth assumptions for the names visible in `frame` that are bound to an int constant of the analysed code:
        an int constant c is truthy iff c != 0, is an instance of int and is not None; the constant None is falsy"""
        assume, fr, shadow = {}, frame, set()
        while fr is not None:
            for p, (ex, efr, eat) in fr.env.items():
                if p in shadow or assignments_to(fr.fn, p):
                    continue
                k = self.key_const(efr, ex, eat)
                if isinstance(k, int) and not isinstance(k, bool):
                    assume[p] = k != 0
                    assume[f"isinstance({p}, int)"] = True
                    assume[f"{p} is None"] = False
                elif k is _NONE_KEY:
                    assume[p] = False
                    assume[f"{p} is None"] = True
            shadow |= set(params(fr.fn)) | {n.id for n in body_walk(fr.fn) if isinstance(n, ast.Name) and isinstance(n.ctx, ast.Store)}
            fr = fr.parent
        return assume

    def key_const(self, frame, e, at, depth=0):
        """the constant the key expression `e` (evaluated at statement `at` of the frame) folds to, _NONE_KEY for the
        constant None, None when it is not a single constant the folding determines"""
        from csverif.q import specialise, tv_eval

        if depth > 10 or e is None:
            return None
        fn = frame.fn
        e2 = inline(fn, e)
        if _is_none(e2):
            return _NONE_KEY
        k = _const(self.ctx, frame.f, e2)
        if k is not None:
            return k
        if isinstance(e2, ast.IfExp):
            t = tv_eval(inline(fn, e2.test), self._assume(frame))
            alts = [e2.body] if t is True else [e2.orelse] if t is False else [e2.body, e2.orelse]
            vals = [self.key_const(frame, a, at, depth + 1) for a in alts]
            return vals[0] if all(v is not None and v is not _NONE_KEY and v == vals[0] and type(v) is type(vals[0]) for v in vals) else None
        if isinstance(e2, ast.Call) and dotted(e2.func) == "int" and len(e2.args) == 1 and not e2.keywords:
            v = self.key_const(frame, e2.args[0], at, depth + 1)
            return v if isinstance(v, int) and not isinstance(v, bool) else None
        if not isinstance(e2, ast.Name):
            return None
        name = e2.id
        if name in params(fn) and not assignments_to(fn, name):
            if name in frame.env:
                ex, fr, at2 = frame.env[name]
                return self.key_const(fr, ex, at2, depth + 1)
            return None
        defs = assignments_to(fn, name)
        if not defs and name not in params(fn):
            if frame.parent is not None and self._visible(frame.parent, name):
                return self.key_const(frame.parent, ast.Name(id=name, ctx=ast.Load()), None, depth + 1)
            return None
        # several definitions: the ones that reach `at` once the branches decided by the constants in scope are pruned
        cfg = specialise(self.cfg(fn), self._assume(frame))
        if at is None or not cfg.has(at):
            return None
        use, nodes = cfg.node(at), []
        for st, v in defs:
            if v is None or not isinstance(st, ast.stmt) or not cfg.has(st):
                return None
            nodes.append((cfg.node(st), st, v))
        if name in params(fn):
            return None
        alln = [n for n, _s, _v in nodes]
        live = [(s, v) for n, s, v in nodes if n != use and cfg.reaches(ENTRY, n) and cfg.reaches(n, use, avoiding=[x for x in alln if x != n])]
        if cfg.reaches(ENTRY, use, avoiding=alln):
            return None
        vals = [self.key_const(frame, v, s, depth + 1) for s, v in live]
        if vals and all(v is not None and v == vals[0] and type(v) is type(vals[0]) for v in vals):
            return vals[0]
        return None


def r9(ctx):
    """The registration decorators are transparent registrations: for each public front end (`handle(command)`,
    `catch_all()`) the value `front_end(..)(func)` evaluates to is `func` itself, and evaluating it hands `func` to
    register_task exactly once, under a key computed from `command` / under the catch-all key get_handlers falls back to."""
    cls_fq = "client.HttpBeaconClient"
    try:
        model = _DecoratorModel(ctx)
    except Exception as e:  # register_task vanished
        ctx.undecided("R9", "API", "dissect/cobaltstrike/client.py", "registration decorators", f"register_task was not located: {e}")
        return
    for name, call_text, keyed in (("handle", "handle(command)", True), ("catch_all", "catch_all()", False)):
        T_BACK, T_REG = f"{call_text}(func) is func", f"{call_text}(func) registers func once"
        T_KEY = "handle(command) registers under command" if keyed else "catch_all() registers under the catch-all key"
        if not ctx.repo.has_func(f"{cls_fq}.{name}") or model.K is None:
            for t in (T_BACK, T_REG, T_KEY):
                ctx.undecided("R9", "API", "dissect/cobaltstrike/client.py", t, f"the registration front end `{name}` (or the (key, handler) parameters of register_task) was not located")
            continue
        M = ctx.repo.func(f"{cls_fq}.{name}")
        root = _Frame(M)
        outs = model.factory(root)
        if not outs:
            for t in (T_BACK, T_REG, T_KEY):
                ctx.undecided("R9", "API", M, t, f"`{name}` has no reachable return statement; the decorator was not located")
            continue
        # ---- the decorated name keeps its function
        kinds = set().union(*[o.kinds for o in outs])
        lost = sorted(d for k, d in kinds if k in (_NONE, _CONST))
        vague = sorted(d for k, d in kinds if k == _UNK)
        if lost:
            ctx.ob("R9", "API", M, T_BACK, False,
                   f"`@client.{call_text}` replaces the decorated function by a value that is not the function ({'; '.join(lost)[:160]}): the decorated name is then bound to it, "
                   f"and every further decorator stacked on top (one function serving several commands, or a command and the catch-all) registers that value instead of the function - "
                   f"get_handlers returns a non-empty list for those commands, so there is no catch-all fallback and the task is dispatched to nobody")
        elif vague or not kinds:
            ctx.undecided("R9", "API", M, T_BACK, "what the decorator hands back is not determined: " + "; ".join(vague)[:200])
        else:
            ctx.ob("R9", "API", M, T_BACK, True, f"applying the decorator returned by `{name}` evaluates to the decorated function itself on every path")
        # ---- one registration per application
        bad = [o.reg[1] for o in outs if o.reg[0] in ("bad", "never")]
        unk = [o.reg[1] for o in outs if o.reg[0] == "unknown"]
        if bad:
            ctx.ob("R9", "AGREE", M, T_REG, False, "the decorator does not register the decorated function exactly once: " + "; ".join(x or "register_task is never reached" for x in bad)[:300])
        elif unk:
            ctx.undecided("R9", "AGREE", M, T_REG, "the hand-over of the decorated function to register_task is not understood: " + "; ".join(unk)[:300])
        else:
            ctx.ob("R9", "AGREE", M, T_REG, True, "every application of the decorator hands the decorated function to register_task exactly once (" + "; ".join(sorted({o.reg[1] for o in outs})) + ")")
        # ---- the key
        keys = [k for o in outs if o.reg[0] == "once" for k in o.keys]
        if not keys:
            ctx.undecided("R9", "AGREE", M, T_KEY, "no hand-over to register_task with a located key")
            continue
        if keyed:
            kps = params(M.node)[1:]
            if not kps:
                ctx.undecided("R9", "AGREE", M, T_KEY, f"`{name}` has no command parameter any more")
                continue
            indep = []
            for e, fr, _st in keys:
                leaves = set()
                model.key_params(fr, e, leaves)
                if not any(f2 is root and p in kps for f2, p in leaves):
                    indep.append(src(inline(fr.fn, e))[:40])
            ctx.ob("R9", "AGREE", M, T_KEY, not indep,
                   f"the key handed to register_task is computed from the `{kps[0]}` argument" if not indep else
                   f"the key the function is registered under does not depend on the `{kps[0]}` argument of {name}(): {indep}")
        else:
            vals = [model.key_const(fr, e, st) for e, fr, st in keys]
            wrong = [("None" if v is _NONE_KEY else repr(v)) for v in vals if v is not None and (v is _NONE_KEY or isinstance(v, bool) or v != -1)]
            if wrong:
                ctx.ob("R9", "AGREE", M, T_KEY, False, f"catch_all() registers under the key {', '.join(wrong)}, but get_handlers falls back to the handlers kept under -1 (R2)")
            elif any(v is None for v in vals):
                ctx.undecided("R9", "AGREE", M, T_KEY, f"the key catch_all() registers under does not fold to a constant: {[src(inline(fr.fn, e))[:40] for e, fr, _s in keys]}")
            else:
                ctx.ob("R9", "AGREE", M, T_KEY, True, "catch_all() registers under -1, the key get_handlers falls back to")


# ------------------------------------------------------------------------------------------------ R10
# object tags of the identity analysis: what object may an expression evaluate to?
_O_FRESH, _O_SHARED, _O_ARG, _O_NONE, _O_IMM, _O_OWN, _O_UNK = "fresh", "shared", "arg", "none", "immutable", "own", "unknown"
_CONTAINER_CTORS = {"dict", "list", "set", "bytearray", "defaultdict", "collections.defaultdict", "OrderedDict", "collections.OrderedDict",
                    "deque", "collections.deque", "Counter", "collections.Counter"}
_IMMUTABLE_CTORS = {"object", "frozenset", "tuple", "MappingProxyType", "types.MappingProxyType", "str", "bytes", "int", "float", "bool"}
_DISPLAYS = (ast.Dict, ast.List, ast.Set, ast.ListComp, ast.SetComp, ast.DictComp)


def _once_kind(mod, e, depth=0):
    """Classification of an expression that Python evaluates ONCE (a parameter default when the `def` is executed, a
    class-body / module-level assignment when the class / module is): 'mutable' (a container every later reader shares),
    'immutable' (None, constants, tuples, sentinels - nothing can be registered in them) or 'unknown'."""
    if isinstance(e, ast.Constant):
        return "immutable"
    if isinstance(e, ast.Tuple):
        return "immutable"
    if isinstance(e, _DISPLAYS):
        return "mutable"
    if isinstance(e, ast.Call):
        d = dotted(e.func)
        if d in _CONTAINER_CTORS or d in ("copy.copy", "copy.deepcopy", "deepcopy", "dict.fromkeys") or (isinstance(e.func, ast.Attribute) and e.func.attr == "copy" and not e.args):
            return "mutable"
        if d in _IMMUTABLE_CTORS:
            return "immutable"
        return "unknown"
    if isinstance(e, ast.Name) and depth < 4 and e.id in mod.consts:
        return _once_kind(mod, mod.consts[e.id], depth + 1)
    if isinstance(e, ast.BinOp):
        l, r = _once_kind(mod, e.left, depth + 1), _once_kind(mod, e.right, depth + 1)
        return "mutable" if "mutable" in (l, r) else "immutable" if (l, r) == ("immutable", "immutable") else "unknown"
    return "unknown"


def _once_len(mod, e, depth=0):
    """number of elements of a once-evaluated container expression when it can be read off (displays without unpacking,
    constructor calls without arguments), else None"""
    if isinstance(e, ast.Dict):
        return len(e.keys) if all(k is not None for k in e.keys) else None
    if isinstance(e, (ast.List, ast.Set)):
        return len(e.elts) if not any(isinstance(x, ast.Starred) for x in e.elts) else None
    if isinstance(e, ast.Call) and dotted(e.func) in _CONTAINER_CTORS and not e.keywords:
        if not e.args:
            return 0
        if dotted(e.func) in ("defaultdict", "collections.defaultdict") and len(e.args) == 1:
            return 0
    if isinstance(e, ast.Name) and depth < 4 and e.id in mod.consts:
        return _once_len(mod, mod.consts[e.id], depth + 1)
    return None


def _holds_containers(mod, e, depth=0):
    """does the once-evaluated table `e` hold mutable values (handler lists) that a shallow copy would share?
    True / False / None (unknown)"""
    if _once_len(mod, e) == 0:
        return False
    if isinstance(e, ast.Dict) and all(k is not None for k in e.keys):
        kinds = {_once_kind(mod, v) for v in e.values}
        return True if "mutable" in kinds else False if kinds <= {"immutable"} else None
    if isinstance(e, ast.Name) and depth < 4 and e.id in mod.consts:
        return _holds_containers(mod, mod.consts[e.id], depth + 1)
    return None


class _ObjCase(_OverrideCase):
    """Object identity of the values of one function: which *object* may an expression evaluate to - one created by this
    very evaluation (fresh), one the caller handed in (arg), or one that exists once per process (shared: a parameter
    default, a class-level attribute, a module-level object)?  Locals and `self.<attr>` are followed along reaching
    definitions, and/or/conditional expressions operand by operand (as in `_OverrideCase`).

    With `P` set, the case "the argument for P is omitted" is analysed: P then holds its default object, of which the
    case knows the truthiness (`truthy`: an empty container is falsy) and the length - the branches these decide are
    removed from a copy of the CFG.  Nothing is executed."""

    def __init__(self, ctx, f, P="", truthy=None, length=None, default=None, depth=0):
        self.length, self.default, self.level = length, default, depth
        self.nodes = {}
        super().__init__(ctx, f, P, truthy, prune=bool(P))

    def _number(self, e, at, depth):
        k = _c(e)
        if isinstance(k, (int, float)) and not isinstance(k, bool):
            return k
        if isinstance(e, ast.Call) and dotted(e.func) == "len" and len(e.args) == 1 and not e.keywords and self.length is not None and self.P \
                and {kd for kd, _t in self.alts(e.args[0], at, depth + 1)} == {"P"}:
            return self.length
        return None

    def _compare(self, l, op, r, at, depth):
        # P == {} / P == []: equal to an empty display <=> P is empty, for a P that is a container
        if self.P and self.length is not None and isinstance(op, (ast.Eq, ast.NotEq)):
            for x, y in ((l, r), (r, l)):
                if isinstance(y, (ast.Dict, ast.List)) and not (y.keys if isinstance(y, ast.Dict) else y.elts) and {kd for kd, _t in self.alts(x, at, depth + 1)} == {"P"}:
                    return (self.length == 0) == isinstance(op, ast.Eq)
        return super()._compare(l, op, r, at, depth)

    # ---- the objects an expression may evaluate to: {(tag, text)}
    def _tag(self, tag, text, node=None):
        k = (tag, text)
        if node is not None:
            self.nodes[k] = node
        return k

    def _once(self, e, what):
        kind = _once_kind(self.f.module, e)
        if kind == "mutable":
            return {self._tag(_O_SHARED, what, e)}
        if kind == "immutable":
            return {(_O_NONE, what) if _is_none(e) else (_O_IMM, what)}
        return {(_O_UNK, what + " (not classified)")}

    def _class_attr(self, name):
        if not self.f.cls:
            return None
        try:
            return self.ctx.repo.class_attrs(f"{self.f.module.name}.{self.f.cls}").get(name)
        except Exception:
            return None

    def _inner(self, x, at, depth):
        """the objects a *shallow* copy of `x` shares with x: the values kept in x"""
        out = set()
        for k in self.objs(x, at, depth + 1):
            if k[0] != _O_SHARED:
                continue
            node = self.nodes.get(k)
            h = _holds_containers(self.f.module, node) if node is not None else None
            if h is True:
                out.add((_O_SHARED, "the lists kept inside " + k[1] + " (the copy is shallow)"))
            elif h is None:
                out.add((_O_UNK, "the values kept inside " + k[1] + " (shallow copy)"))
        return out

    def objs(self, e, at, depth=0):
        if depth > 14:
            return {(_O_UNK, src(e)[:50])}
        while isinstance(e, ast.Call) and dotted(e.func) in ("cast", "typing.cast") and len(e.args) == 2:
            e = e.args[1]
        if isinstance(e, ast.NamedExpr):
            return self.objs(e.value, at, depth + 1)
        if isinstance(e, ast.IfExp):
            t = self.truth(e.test, at, depth + 1)
            out = set()
            if t is not False:
                out |= self.objs(e.body, at, depth + 1)
            if t is not True:
                out |= self.objs(e.orelse, at, depth + 1)
            return out
        if isinstance(e, ast.BoolOp):
            stop_on = isinstance(e.op, ast.Or)
            out = set()
            for v in e.values[:-1]:
                t = self.truth(v, at, depth + 1)
                if t is None:
                    out |= self.objs(v, at, depth + 1)
                elif t == stop_on:
                    return out | self.objs(v, at, depth + 1)
            return out | self.objs(e.values[-1], at, depth + 1)
        if isinstance(e, ast.Constant):
            return {(_O_NONE, "None") if e.value is None else (_O_IMM, src(e)[:30])}
        if isinstance(e, ast.Dict):
            out = {(_O_FRESH, src(e)[:40])}
            for k, v in zip(e.keys, e.values):
                if k is None:
                    out |= self._inner(v, at, depth)
            return out
        if isinstance(e, _DISPLAYS) or isinstance(e, (ast.Tuple, ast.BinOp, ast.JoinedStr, ast.GeneratorExp, ast.Lambda)):
            return {(_O_FRESH, src(e)[:40])}
        # entries read out of the client's own table
        for n in (e, e.func.value if isinstance(e, ast.Call) and isinstance(e.func, ast.Attribute) else None):
            if n is not None and (_is_self_attr(n, "task_map") and n is not e or _map_access(self.fn, n) is not None):
                return {(_O_OWN, src(e)[:40])}
        key = _state_key(e)
        if key is not None and isinstance(getattr(e, "ctx", None), ast.Load):
            try:
                rd = self.reaching(key, at)
            except _Unk as ex:
                return {(_O_UNK, str(ex))}
            if rd is None:
                if isinstance(e, ast.Name):
                    if e.id in self.f.module.consts:
                        return self._once(self.f.module.consts[e.id], f"the module-level object `{e.id}` (created once, when the module is imported)")
                    return {(_O_UNK, f"`{e.id}` (not bound in {self.f.qualname})")}
                ca = self._class_attr(e.attr)
                if ca is not None:
                    return self._once(ca, f"the class-level attribute `{e.attr}` (created once, in the class body; every instance reads the same object)")
                return {(_O_UNK, f"`{key}` (stored outside {self.f.qualname})")}
            out = set()
            for s, v in rd:
                if s is _ENTRY_DEF:
                    if isinstance(e, ast.Name) and key == self.P and self.default is not None:
                        out |= self._once(self.default, f"the default value `{src(self.default)[:30]}` of the parameter `{key}` of {self.f.qualname} (evaluated once, when the function is "
                                                        f"defined, and bound in every call that omits the argument)")
                    elif isinstance(e, ast.Name):
                        out.add((_O_ARG, key))
                    else:
                        ca = self._class_attr(e.attr)
                        out |= self._once(ca, f"the class-level attribute `{e.attr}`") if ca is not None else {(_O_UNK, f"`{key}` on entry of {self.f.qualname}")}
                elif v is None:
                    out.add((_O_UNK, src(s)[:50]))
                else:
                    out |= self.objs(v, s, depth + 1)
            return out or {(_O_UNK, key)}
        if isinstance(e, ast.Attribute):
            # Class.X / cls.X / type(self).X / self.__class__.X
            recv = e.value
            is_cls = (isinstance(recv, ast.Name) and recv.id in ("cls", self.f.cls)) or (isinstance(recv, ast.Call) and dotted(recv.func) == "type" and len(recv.args) == 1 and _is_name(recv.args[0], "self")) \
                or _is_self_attr(recv, "__class__")
            ca = self._class_attr(e.attr) if is_cls else None
            if ca is not None:
                return self._once(ca, f"the class-level attribute `{e.attr}` (created once, in the class body)")
            return {(_O_UNK, src(e)[:50])}
        if isinstance(e, ast.Call):
            return self._call(e, at, depth)
        return {(_O_UNK, src(e)[:50])}

    def _call(self, e, at, depth):
        d = dotted(e.func)
        if any(isinstance(a, ast.Starred) for a in e.args) or any(k.arg is None for k in e.keywords):
            return {(_O_UNK, src(e)[:50])}
        if d in ("copy.deepcopy", "deepcopy"):
            return {(_O_FRESH, src(e)[:40])}
        if d == "dict.fromkeys" or (isinstance(e.func, ast.Attribute) and e.func.attr == "fromkeys" and dotted(e.func.value) in _CONTAINER_CTORS):
            out = {(_O_FRESH, src(e)[:40])}
            if len(e.args) == 2:
                kinds = {k for k, _t in self.objs(e.args[1], at, depth + 1)}
                if kinds & {_O_FRESH, _O_SHARED}:
                    out.add((_O_SHARED, f"the one object `{src(e.args[1])[:20]}` that {d or 'fromkeys'}() files under every key"))
                elif kinds - {_O_NONE, _O_IMM}:
                    out.add((_O_UNK, f"the value {d or 'fromkeys'}() files under every key"))
            return out
        if d in _CONTAINER_CTORS or d == "copy.copy":
            out = {(_O_FRESH, src(e)[:40])}
            args = list(e.args)
            if d in ("defaultdict", "collections.defaultdict"):
                args = args[1:]
            if args and d not in ("list", "set", "bytearray", "deque", "collections.deque"):
                out |= self._inner(args[0], at, depth)
            return out
        if isinstance(e.func, ast.Attribute) and e.func.attr == "copy" and not e.args and not e.keywords:
            return {(_O_FRESH, src(e)[:40])} | self._inner(e.func.value, at, depth)
        if d in _IMMUTABLE_CTORS or d in ("sorted", "len"):
            return {(_O_FRESH, src(e)[:40])}
        try:
            callee = self.ctx.rs.resolve_call(self.f, e)
        except Exception:
            callee = None
        if callee is not None and callee.kind in ("class", "struct"):
            return {(_O_FRESH, src(e)[:40])}  # a new instance
        if callee is not None and callee.kind == "func" and callee.func is not None and self.level < 3 and not callee.bound \
                and isinstance(callee.func.node, (ast.FunctionDef, ast.Lambda)):
            return self._follow(e, callee.func, at, depth)
        return {(_O_UNK, f"the result of `{src(e)[:40]}`")}

    def _follow(self, e, m, at, depth):
        """the objects a call of the package function `m` may return: its return values, parameters bound to the arguments"""
        if any(isinstance(n, (ast.Yield, ast.YieldFrom)) for n in body_walk(m.node)):
            return {(_O_UNK, f"the generator `{src(e)[:40]}`")}
        ps = params(m.node)
        skip_self = bool(m.cls) and isinstance(e.func, ast.Attribute) and ps[:1] in (["self"], ["cls"]) \
            and not any(dotted(x) in ("staticmethod",) for x in getattr(m.node, "decorator_list", []))
        if isinstance(m.node, ast.Lambda):
            return {(_O_UNK, f"the result of `{src(e)[:40]}`")}
        from csverif.astutil import param_defaults

        bound = bind_args(e, m.node, skip_self=skip_self)
        dfl = param_defaults(m.node)
        sites = [(s, s.value) for s in statements(m.node) if isinstance(s, ast.Return) and s.value is not None]
        sub = _ObjCase(self.ctx, m, depth=self.level + 1)
        out = set()
        if self.ctx.cfg(m).falls_off_end() or any(isinstance(s, ast.Return) and s.value is None for s in statements(m.node)):
            out.add((_O_NONE, "None"))
        for s, v in sites:
            for k in sub.objs(v, s):
                if k[0] != _O_ARG:
                    out.add(k)
                    if k in sub.nodes:
                        self.nodes[k] = sub.nodes[k]
                    continue
                p = k[1]
                a = bound.get(p)
                if a is None:
                    out.add((_O_UNK, f"the argument `{p}` of `{src(e)[:30]}`"))
                elif a is dfl.get(p):
                    got = _default_case(self.ctx, m, p, [(s, v)], self.level + 1)
                    out |= got if got is not None else set()
                else:
                    out |= self.objs(a, at, depth + 1)
        return out or {(_O_UNK, f"the result of `{src(e)[:40]}`")}


def _default_case(ctx, f, p, sites, level=0):
    """The objects the values `sites` = [(statement, expression)] of function `f` may be when the argument for parameter
    `p` is omitted (the parameter then holds its default object).  None when the default is not an object anything can
    be registered in (None, a constant, a sentinel)."""
    from csverif.astutil import param_defaults

    D = param_defaults(f.node).get(p)
    if isinstance(D, ast.Name) and f.cls and D.id not in f.module.consts:
        # a default is evaluated in the scope of the class body: a class-level name (a sentinel, a table)
        try:
            D = ctx.repo.class_attrs(f"{f.module.name}.{f.cls}").get(D.id, D)
        except Exception:
            pass
    if D is None or _once_kind(f.module, D) == "immutable":
        return None
    n = _once_len(f.module, D)
    case = _ObjCase(ctx, f, P=p, truthy=None if n is None else n > 0, length=n, default=D, depth=level)
    out = set()
    for s, v in sites:
        if not case.cfg.has(s) or not case.cfg.reaches(ENTRY, case.cfg.node(s)):
            continue
        out |= {k for k in case.objs(v, s) if k[0] != _O_ARG}
    return out


def _site_objects(ctx, f, sites):
    """{(tag, text)} for the values stored at `sites` of `f`: the general case (every parameter is the caller's argument)
    plus, per parameter that reaches a site and has a default object, the case 'argument omitted'."""
    base = _ObjCase(ctx, f)
    vals = set()
    for s, v in sites:
        vals |= {(_O_UNK, src(s)[:50])} if v is None else base.objs(v, s)
    for tag, p in sorted(vals):
        if tag == _O_ARG and p in params(f.node):
            got = _default_case(ctx, f, p, [(s, v) for s, v in sites if v is not None])
            if got:
                vals |= got
    return vals


def _entry_sites(fn):
    """[(statement, value)] for the values filed under a key of self.task_map: `self.task_map[k] = V` (not `+=`: that
    mutates the list kept there) and the default of `self.task_map.setdefault(k, V)`"""
    out = []
    for st in statements(fn):
        if isinstance(st, (ast.Assign, ast.AnnAssign)) and getattr(st, "value", None) is not None:
            tgts = st.targets if isinstance(st, ast.Assign) else [st.target]
            if any((_map_access(fn, t) or ("", None))[0] == "item" for t in tgts):
                out.append((st, st.value))
    fv = FuncView.of(fn)
    for c in fn_calls(fn):
        acc = _map_access(fn, c)
        if acc is not None and acc[0] == "setdefault" and len(c.args) == 2:
            st = fv.stmt_of(c)
            if st is not None:
                out.append((st, c.args[1]))
    return out


def r10(ctx):
    """The registration table is per client, the handler lists per key: every object stored in `self.task_map` - and every
    object filed under a key of it - is created by the call that stores it (or handed in by the caller explicitly), never
    an object that exists once per process (a parameter default, a class-level attribute, a module-level object)."""
    cls_fq = "client.HttpBeaconClient"
    T_TABLE = "the table stored in self.task_map belongs to one client"
    T_ENTRY = "the handler list filed under a key of self.task_map belongs to one key of one client"
    T_INIT = "every client gets a table of its own when it is constructed"
    mod = ctx.repo.module("client")
    meths = [f for f in mod.funcs.values() if f.cls == "HttpBeaconClient" and isinstance(f.node, (ast.FunctionDef, ast.AsyncFunctionDef))]
    stores = {}
    for f in meths:
        sites = [(s, v) for s, v in _ObjCase(ctx, f).defs("self.task_map") if s is not None and not isinstance(s, ast.AugAssign)]
        if sites:
            stores[f.fq] = (f, sites)

    def verdict(f, text, vals, good, what):
        shared = sorted(t for k, t in vals if k == _O_SHARED)
        vague = sorted(t for k, t in vals if k == _O_UNK)
        if shared:
            ctx.ob("R10", "ALIAS", f, text, False,
                   f"{what} may be {'; '.join(shared)[:330]} - one object for every client of the process: a handler registered on one client is registered on all of them, so a task "
                   f"received by one client is also dispatched to the handlers of the others (N times on the N-th client of an application that registers its handlers per client), "
                   f"and a new client nobody registered anything on already has handlers (no catch-all fallback)")
        elif vague:
            ctx.undecided("R10", "ALIAS", f, text, f"where {what} comes from is not determined: " + "; ".join(vague)[:240])
        else:
            ctx.ob("R10", "ALIAS", f, text, True, good + " (" + ", ".join(sorted({k for k, _t in vals})) + ")")

    for f, sites in stores.values():
        verdict(f, T_TABLE, _site_objects(ctx, f, sites), "every object stored in self.task_map is created by the storing call itself or is the caller's explicit argument", "the table")
    for f in meths:
        sites = _entry_sites(f.node)
        if sites:
            verdict(f, T_ENTRY, _site_objects(ctx, f, sites), "every list filed under a key is created by the filing call itself or read from the client's own table", "the list filed under a key")

    # ---- construction: no client is left with a table that exists once per class
    try:
        cattr = ctx.repo.class_attrs(cls_fq).get("task_map")
    except Exception:
        cattr = None
    ckind = _once_kind(mod, cattr) if cattr is not None else None

    def always_stores(f, depth=0):
        """no ENTRY -> EXIT path of `f` avoids a store of self.task_map (directly or through a method that always stores)"""
        cfg = ctx.cfg(f)
        nodes = [cfg.node(s) for s, _v in stores.get(f.fq, (f, []))[1] if cfg.has(s)]
        if depth < 3:
            fv = FuncView.of(f.node)
            for c in fn_calls(f.node):
                if isinstance(c.func, ast.Attribute) and _is_name(c.func.value, "self") and ctx.repo.has_func(f"{cls_fq}.{c.func.attr}"):
                    m = ctx.repo.func(f"{cls_fq}.{c.func.attr}")
                    st = fv.stmt_of(c)
                    if m is not f and st is not None and cfg.has(st) and always_stores(m, depth + 1):
                        nodes.append(cfg.node(st))
        return bool(nodes) and not cfg.reaches(ENTRY, EXIT, avoiding=nodes)

    init = ctx.repo.func(f"{cls_fq}.__init__") if ctx.repo.has_func(f"{cls_fq}.__init__") else None
    where = init if init is not None else "dissect/cobaltstrike/client.py"
    covered = init is not None and always_stores(init)
    if ckind == "mutable":
        ctx.ob("R10", "ALIAS", where, T_INIT, covered,
               "the class-level `task_map` is replaced by a table of its own on every path through __init__" if covered else
               f"`task_map = {src(cattr)[:30]}` in the class body is ONE object for all clients and there is a path through the constructor that does not replace it: "
               f"every client registers its handlers in the same table, a task is dispatched to the handlers of all clients")
    elif covered:
        ctx.ob("R10", "ALIAS", where, T_INIT, True, "every path through __init__ stores a table in self.task_map")
    elif not stores:
        ctx.undecided("R10", "ALIAS", where, T_INIT, "no store of self.task_map was located in HttpBeaconClient; where a client gets its registration table from is not determined")
    else:
        ctx.undecided("R10", "ALIAS", where, T_INIT, "the constructor does not store self.task_map on every path (created lazily / elsewhere: " + ", ".join(sorted(f.qualname for f, _s in stores.values())) + ")")
