"""C19 - The beacon client keeps a stable identity and dispatches tasks exactly once."""

from __future__ import annotations

import ast

from csverif import absint
from csverif.absint import SymPoly, sympoly
from csverif.alias import Alias
from csverif.astutil import assignments_to, body_walk, compare_parts, const_eval, dotted, fn_calls, is_const, NotConst, params, src, statements
from csverif.cfg import ENTRY, EXIT
from csverif.q import FuncView, dominating_conditions, guarded_by, origin, raise_class


def _c(node):
    try:
        return const_eval(node) if node is not None else None
    except (NotConst, TypeError):
        return None


def run(ctx):
    rep = ctx.rep
    rep.explanation = (
        "Static analysis of client.py: may-alias + mutation analysis with HttpBeaconClient.task_map as the shared store "
        "(only register_task may append to a registered handler list); dominance of the catch-all fallback by `not "
        "handlers` and single dispatch site; parity/interval abstract interpretation of the beacon id normalisation; "
        "dominance of random.seed(id) over the getrandbits that produces aes_rand with no intervening RNG use; length "
        "interval of the metadata info bytes against 128-11-59; polynomial bounds of the sleep time."
    )
    rep.not_decided = ["behaviour of the loop against a live server", "that handlers themselves behave"]
    rep.trusted_base = ["CPython ast", "networkx dominators", "interval/parity/length domains and SymPoly in csverif/absint.py", "random.uniform(a,b) in [a,b] for a<=b"]
    r1(ctx)
    r2(ctx)
    r3(ctx)
    r4(ctx)
    r5(ctx)
    r6(ctx)


def r1(ctx):
    def is_source(f, e):
        if isinstance(e, ast.Attribute) and e.attr == "task_map" and isinstance(e.value, ast.Name) and e.value.id == "self" and f.cls == "HttpBeaconClient":
            return "self.task_map (registered handler lists)"
        return None

    owners = {"client.HttpBeaconClient.register_task", "client.HttpBeaconClient.__init__"}
    al = Alias(ctx, is_source, owners).run()
    finds = al.findings()
    g = ctx.repo.func("client.HttpBeaconClient.get_handlers")
    mine = [x for x in finds if x.func.fq == g.fq]
    if not mine:
        ctx.ob("R1", "ALIAS", g, "handler lists", True, "get_handlers never mutates a list that may be a registered task_map value")
    for x in finds:
        ctx.ob("R1", "ALIAS", x.func, f"{x.kind} on {x.target}", False,
               f"`{src(x.node)[:60]}` mutates a list that may be a registered task_map value (grows by one per dispatched task): {x.target} <- {x.why}", x.node)
    # by-reference hand-out: the returned list must not alias the store either
    ret = al.taint_returns.get(g.fq)
    ctx.ob("R1", "ALIAS", g, "return value", ret is None, "returns a fresh list" if ret is None else f"hands out a registered handler list by reference: {ret}")
    # register_task is the only writer
    reg = ctx.repo.func("client.HttpBeaconClient.register_task")
    apps = [c for c in fn_calls(reg.node) if isinstance(c.func, ast.Attribute) and c.func.attr == "append"]
    ok = len(apps) == 1 and src(apps[0].func.value) == "self.task_map[command_id]" and dotted(apps[0].args[0]) == params(reg.node)[2]
    ctx.ob("R1", "AGREE", reg, "self.task_map[command_id].append(func)", ok, "register_task appends the handler once under its command id" if ok else "register_task does not append exactly once under its command id")
    ctx.rep.count("task_map_reads", sum(1 for f in ctx.repo.all_funcs() for n in body_walk(f.node) if is_source(f, n)), floor=4)


def r2(ctx):
    g = ctx.repo.func("client.HttpBeaconClient.get_handlers")
    cfg = ctx.cfg(g)
    HV = next((dotted(r.value) for r in statements(g.node) if isinstance(r, ast.Return) and isinstance(r.value, ast.Name)), "handlers")
    # the catch-all lookup (key -1) is dominated by `not handlers`
    fall = [c for c in fn_calls(g.node) if isinstance(c.func, ast.Attribute) and c.func.attr in ("get", "__getitem__") and dotted(c.func.value) == "self.task_map" and c.args and _c(c.args[0]) == -1]
    fall += [n for n in body_walk(g.node) if isinstance(n, ast.Subscript) and dotted(n.value) == "self.task_map" and _c(n.slice) == -1]
    ok = bool(fall) and all(guarded_by(ctx, g, c, lambda t: False if dotted(t) == HV else None) for c in fall)
    ctx.ob("R2", "DOM", g, "catch-all fallback", ok, "catch-all handlers are consulted only when no handler was found" if ok else "catch-all lookup is not dominated by `not handlers`")
    oc = [n for n in body_walk(g.node) if isinstance(n, ast.Call) and dotted(n.func) == "getattr" and len(n.args) >= 2 and _c(n.args[1]) == "on_catch_all"]
    ok = bool(oc) and all(guarded_by(ctx, g, c, lambda t: False if dotted(t) == HV else None) for c in oc)
    ctx.ob("R2", "DOM", g, "on_catch_all fallback", ok, "on_catch_all is consulted only when no handler was found" if ok else "on_catch_all lookup is not dominated by `not handlers`")
    # "no handler was found" must be decided after *every* specific source was consulted: any addition to the handler list
    # outside the fallback branch precedes (dominates) the emptiness test - otherwise a command handled only by an
    # on_<command> method is also dispatched to the catch-all handlers
    fv = FuncView.of(g.node)
    tests = [s for s in statements(g.node) if isinstance(s, ast.If) and any(dotted(n) == HV for n in ast.walk(s.test)) and any(fv.enclosing(c, (ast.If,)) is s or s in fv.ancestors(c) for c in fall + oc)]
    adds = [s for s in statements(g.node) if (isinstance(s, ast.Expr) and isinstance(s.value, ast.Call) and isinstance(s.value.func, ast.Attribute) and s.value.func.attr in ("append", "extend", "insert") and dotted(s.value.func.value) == HV)
            or (isinstance(s, (ast.Assign, ast.AugAssign)) and any(dotted(t) == HV for t in (s.targets if isinstance(s, ast.Assign) else [s.target])))]
    late = []
    for t in tests:
        for s in adds:
            if t in fv.ancestors(s):
                continue  # inside the fallback branch
            if cfg.reaches(cfg.node(t), cfg.node(s)):
                late.append(src(s)[:50])
    ctx.ob("R2", "DOM", g, "emptiness test after all specific sources", bool(tests) and not late,
           f"{len(adds)} additions to the handler list; none outside the fallback branch follows the `not {HV}` test" if tests and not late else f"specific handlers added after the fallback decision: {late} (tests found: {len(tests)})")
    first = [c for c in fn_calls(g.node) if isinstance(c.func, ast.Attribute) and c.func.attr == "get" and dotted(c.func.value) == "self.task_map" and c.args and dotted(c.args[0]) == params(g.node)[1]]
    ctx.ob("R2", "AGREE", g, "self.task_map.get(command_id, [])", len(first) == 1, "handlers are looked up under the task's command id")
    # _beacon_loop: one dispatch site
    lp = ctx.repo.func("client.HttpBeaconClient._beacon_loop")
    fv = FuncView.of(lp.node)
    gh = [c for c in fn_calls(lp.node) if dotted(c.func) == "self.get_handlers"]
    fors = [s for s in statements(lp.node) if isinstance(s, ast.For) and gh and origin(lp.node, s.iter) is gh[0]]
    ok = len(gh) == 1 and len(fors) == 1
    calls = []
    if ok:
        hv = dotted(fors[0].target)
        calls = [c for c in ast.walk(fors[0]) if isinstance(c, ast.Call) and dotted(c.func) == hv]
        TASK = next((dotted(s2.targets[0]) for s2 in statements(lp.node) if isinstance(s2, ast.Assign) and isinstance(s2.value, ast.Call) and dotted(s2.value.func) == "self.get_task"), "task")
        ok = len(calls) == 1 and len(calls[0].args) == 1 and dotted(calls[0].args[0]) == TASK
        nested = [s for s in ast.walk(fors[0]) if isinstance(s, (ast.For, ast.While)) and s is not fors[0]]
        ok = ok and not nested
    ctx.ob("R2", "DOM", lp, "single dispatch site", ok, "each handler of the list returned by get_handlers(command_id) is called exactly once with the task" if ok else
           f"dispatch is not one `for handler in get_handlers(..)` with one handler(task) call (get_handlers calls={len(gh)}, loops={len(fors)}, call sites={len(calls)})")
    sc = [c for c in fn_calls(lp.node) if dotted(c.func) == "self.send_callback"]
    RESP = None
    if calls:
        cst = fv.stmt_of(calls[0])
        RESP = dotted(cst.targets[0]) if isinstance(cst, ast.Assign) else None
    ok = len(sc) == 1 and RESP is not None and guarded_by(ctx, lp, sc[0], lambda t: True if dotted(t) == RESP else None) and any(isinstance(a, ast.Starred) and dotted(a.value) == RESP for a in sc[0].args)
    ctx.ob("R2", "DOM", lp, "send_callback on truthy response", bool(ok), "a callback is sent only for a truthy handler response" if ok else "send_callback not guarded by the handler's response")
    CID = dotted(gh[0].args[0]) if gh and gh[0].args else "command_id"
    TASK = next((dotted(s2.targets[0]) for s2 in statements(lp.node) if isinstance(s2, ast.Assign) and isinstance(s2.value, ast.Call) and dotted(s2.value.func) == "self.get_task"), "task")
    cid = [v for st, v in assignments_to(lp.node, CID)]
    ok = len(cid) == 1 and f"{TASK}.command.value" in src(cid[0])
    ctx.ob("R2", "AGREE", lp, "command_id = task.command.value", ok, f"command id derived from the task: {[src(c) for c in cid]}")


def r3(ctx):
    f = ctx.repo.func("client.HttpBeaconClient.run")
    it = absint.Interp(f.node, {"beacon_id": absint.aint(), "user": absint.AVal("str"), "computer": absint.AVal("str"), "process": absint.AVal("str")})
    it.run()
    stores = [s for s in statements(f.node) if isinstance(s, ast.Assign) and (dotted(s.targets[0]) or "").endswith("metadata.bid")]
    if len(stores) != 1:
        ctx.ob("R3", "ABS", f, "metadata.bid store", False, f"{len(stores)} stores of the beacon id into the metadata")
        return
    st = stores[0]
    env = it.before.get(id(st), {})
    v = it.ev(st.value, env)
    ok = v.kind == "int" and v.parity == 0 and v.itv.within(0, 2**31 - 1)
    ctx.ob("R3", "ABS", f, src(st), ok,
           f"at `{src(st)}` the id has interval {v.itv} and parity {'even' if v.parity == 0 else 'odd' if v.parity == 1 else 'unknown'} for an arbitrary integer input; required even and within [0, 2^31)", st)
    # the id sent in callbacks and used for the seed is the same normalised attribute
    for fq, text in (("client.HttpBeaconClient.send_callback", "str(self.beacon_id).encode()"),):
        g = ctx.repo.func(fq)
        ok = any(src(n) == text for n in body_walk(g.node))
        ctx.ob("R3", "AGREE", g, text, ok, "callbacks carry the normalised id" if ok else "callbacks do not use self.beacon_id")
    # out-of-range ids are rejected with ValueError
    cfg = ctx.cfg(f)
    for r in cfg.raise_stmts():
        conds = [t for t, pol, n in dominating_conditions(ctx, f, r) if pol]
        if any("beacon_id" in t for t in conds):
            ctx.ob("R3", "EXIT", f, src(r)[:60], raise_class(r) == "ValueError", f"out-of-range id raises {raise_class(r)}", r)


def _uses_random(ctx, f, call, cache={}):
    cal = ctx.rs.resolve_call(f, call)
    d = dotted(call.func) or ""
    if d.startswith("random."):
        return True
    if cal.kind == "func" and cal.func is not None:
        fq = cal.func.fq
        if fq not in cache:
            cache[fq] = False
            cache[fq] = any(_uses_random(ctx, cal.func, c) for c in fn_calls(cal.func.node))
        return cache[fq]
    return False


def r4(ctx):
    f = ctx.repo.func("client.HttpBeaconClient.run")
    cfg = ctx.cfg(f)
    fv = FuncView.of(f.node)
    seeds = [c for c in fn_calls(f.node) if dotted(c.func) == "random.seed"]
    rand = [s for s in statements(f.node) if isinstance(s, ast.Assign) and dotted(s.targets[0]) == "self.aes_rand"]
    if len(seeds) != 1 or len(rand) != 1:
        ctx.ob("R4", "DOM", f, "random.seed / aes_rand", False, f"{len(seeds)} seed calls, {len(rand)} aes_rand assignments")
        return
    sst, rst = fv.stmt_of(seeds[0]), rand[0]
    arg = seeds[0].args[0] if seeds[0].args else None
    names = {src(n) for n in ast.walk(arg) if isinstance(n, (ast.Name, ast.Attribute)) and not isinstance(fv.parent.get(id(n)), ast.Attribute)} if arg is not None else set()
    dep_ok = names == {"self.beacon_id"}
    dom = cfg.dominates(cfg.node(sst), cfg.node(rst))
    # normalisation precedes the seed
    norm = [s for s in statements(f.node) if isinstance(s, ast.Assign) and dotted(s.targets[0]) == "self.beacon_id"]
    after_norm = all(cfg.dominates(cfg.node(n), cfg.node(sst)) for n in norm) and not any(cfg.reaches(cfg.node(sst), cfg.node(n)) for n in norm)
    # no RNG use between
    between = []
    for c in fn_calls(f.node):
        if c is seeds[0]:
            continue
        cst = fv.stmt_of(c)
        if cst is rst or not cfg.has(cst):
            continue
        if _uses_random(ctx, f, c) and cfg.reaches(cfg.node(sst), cfg.node(cst), avoiding=[cfg.node(rst)]) and cfg.reaches(cfg.node(cst), cfg.node(rst), avoiding=[cfg.node(sst)]):
            between.append(src(c)[:40])
    bits = [c for c in ast.walk(rst.value) if isinstance(c, ast.Call) and dotted(c.func) == "random.getrandbits"]
    b_ok = len(bits) == 1 and _c(bits[0].args[0]) == 128 and "to_bytes(16" in src(rst.value)
    ctx.ob("R4", "DOM", f, "random.seed(g(beacon_id)) -> aes_rand", dep_ok and dom and after_norm and not between and b_ok,
           f"seed depends only on the normalised id={dep_ok} ({sorted(names)}); follows the normalisation={after_norm}; dominates the aes_rand draw={dom}; "
           f"RNG uses in between={between}; aes_rand = 16 bytes from getrandbits(128)={b_ok}", rst)


def r5(ctx):
    f = ctx.repo.func("client.HttpBeaconClient.run")
    cd = ctx.cdefs("c_c2").get("c2struct")
    fixed = cd.struct("BeaconMetadata").fixed_prefix_size if cd else None
    limit = 128 - 11 - (fixed or 0)
    it = absint.Interp(f.node, {"beacon_id": absint.aint(), "user": absint.AVal("str"), "computer": absint.AVal("str"), "process": absint.AVal("str")})
    it.run()
    stores = [s for s in statements(f.node) if isinstance(s, ast.Assign) and (dotted(s.targets[0]) or "").endswith("metadata.info")]
    if len(stores) != 1:
        ctx.ob("R5", "ABS", f, "metadata.info store", False, f"{len(stores)} stores of the info field")
        return
    st = stores[0]
    v = it.ev(st.value, it.before.get(id(st), {}))
    ok = v.kind == "bytes" and v.length.hi is not None and v.length.hi <= limit
    ctx.ob("R5", "ABS", f, src(st), ok,
           f"len(info bytes) has interval {v.length} for arbitrary user/computer/process names (str.encode() is up to 4 bytes per character); "
           f"the metadata must fit a 1024-bit RSA key: 128 - 11 (PKCS#1 v1.5) - {fixed} (fixed part) = {limit} bytes", st)


def r6(ctx):
    f = ctx.repo.func("client.HttpBeaconClient.get_sleep_time")
    rets = [s for s in statements(f.node) if isinstance(s, ast.Return)]
    ok = False
    detail = "return shape not recognised"
    if len(rets) == 1 and rets[0].value is not None:
        unis = []

        def subst(x, depth=[0]):
            if isinstance(x, ast.Call) and dotted(x.func) == "random.uniform" and len(x.args) == 2:
                unis.append(x)
                return SymPoly.atom("U")
            if isinstance(x, ast.Name) and x.id not in params(f.node):
                defs = [v for _st, v in assignments_to(f.node, x.id)]
                if len(defs) == 1 and defs[0] is not None and depth[0] < 6:
                    depth[0] += 1
                    try:
                        return sympoly(defs[0], subst)
                    finally:
                        depth[0] -= 1
            return None

        total = sympoly(rets[0].value, subst)
        if total is not None and len({id(u) for u in unis}) == 1:
            u = unis[0]
            lo, hi = sympoly(u.args[0], subst), sympoly(u.args[1], subst)
            S, J = SymPoly.atom("self.sleeptime"), SymPoly.atom("self.jitter")
            want_total = S - SymPoly.atom("U")
            want_hi = (S * J).div_const(100)
            ok = total == want_total and lo == SymPoly.const(0) and hi == want_hi
            detail = f"returns {total} with U = uniform({lo}, {hi}); required S - U with U in [0, S*J/100] so the result lies in [S - S*J/100, S] for S, J >= 0"
    ctx.ob("R6", "ABS", f, "return " + (src(rets[0].value) if rets else "?"), ok, detail)
    run = ctx.repo.func("client.HttpBeaconClient.run")
    binds = {dotted(st.targets[0] if isinstance(st, ast.Assign) else st.target): src(st.value) for st in statements(run.node)
             if isinstance(st, (ast.Assign, ast.AnnAssign)) and st.value is not None and not isinstance(getattr(st, "targets", [None])[0], ast.Tuple)}
    ok = "SETTING_SLEEPTIME" in binds.get("self.sleeptime", "") and "SETTING_JITTER" in binds.get("self.jitter", "")
    ctx.ob("R6", "AGREE", run, "sleeptime/jitter source", ok, f"sleeptime={binds.get('self.sleeptime')} jitter={binds.get('self.jitter')}")
