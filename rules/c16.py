"""C16 - Raw HTTP messages are parsed into exactly their parts (structural part)."""

from __future__ import annotations

import ast

from csverif import effects
from csverif.astutil import assignments_to, body_walk, compare_parts, const_eval, dotted, fn_calls, is_const, kwarg, NotConst, params, src, statements
from csverif.cfg import ENTRY, EXIT
from csverif.q import FuncView, dominating_conditions, guarded_by, origin, raise_class, reaching_defs


def _c(node):
    try:
        return const_eval(node) if node is not None else None
    except (NotConst, TypeError):
        return None


def _unpack_of(f, name):
    """(assign stmt, index, value expr) for a name bound by tuple-unpacking."""
    out = []
    for st in statements(f.node):
        if isinstance(st, ast.Assign) and isinstance(st.targets[0], ast.Tuple):
            for i, t in enumerate(st.targets[0].elts):
                if dotted(t) == name:
                    out.append((st, i, st.value))
    return out


def run(ctx):
    rep = ctx.rep
    rep.explanation = (
        "Static analysis of c2.parse_raw_http: def-use of the head/body split (first CRLFCRLF via partition, body handed to "
        "both constructors untouched), dominance of the three-part length test over each start-line unpack, binding of the "
        "start-line positions to the like-named fields, response/request branch selection by the HTTP/ prefix, header line "
        "partition at ': ', and the exception-escape set of the function (subset of ValueError)."
    )
    rep.not_decided = ["percent-decoding details (parse_qsl semantics)", "duplicate headers", "the spurious {b'': b''} header for a message without header lines (value-level)"]
    rep.trusted_base = ["CPython ast", "bytes.partition/split semantics", "urllib.parse"]
    f = ctx.repo.func("c2.parse_raw_http")
    cfg = ctx.cfg(f)
    fv = FuncView.of(f.node)
    data = params(f.node)[0]
    # ---- R1
    ctors = {"HttpResponse": [], "HttpRequest": []}
    for c in fn_calls(f.node):
        d = dotted(c.func)
        if d in ctors:
            ctors[d].append(c)
    ok = all(len(v) == 1 for v in ctors.values())
    ctx.ob("R1", "AGREE", f, "constructors", ok, f"one HttpResponse and one HttpRequest construction: {({k: len(v) for k, v in ctors.items()})}")
    if not ok:
        return
    for kind, cs in ctors.items():
        c = cs[0]
        b = kwarg(c, "body")
        bname = dotted(b)
        up = _unpack_of(f, bname) if bname else []
        good = len(up) == 1 and up[0][1] == 2 and isinstance(up[0][2], ast.Call) and isinstance(up[0][2].func, ast.Attribute) and up[0][2].func.attr == "partition" \
            and dotted(up[0][2].func.value) == data and _c(up[0][2].args[0]) == b"\r\n\r\n" and len(assignments_to(f.node, bname)) == 1
        ctx.ob("R1", "AGREE", f, f"{kind}(body=...)", bool(good),
               f"body is the third component of {data}.partition(b'\\r\\n\\r\\n') (first occurrence), passed through no call" if good else f"body of {kind} is {src(b)}: not the untouched tail after the first CRLFCRLF", c)
    rebound = [src(st)[:50] for st, v in assignments_to(f.node, data)]
    ctx.ob("R1", "AGREE", f, f"{data} not rebound", not rebound, "the raw message is partitioned as received" if not rebound else f"the raw message is rewritten before it is split ({rebound}): the body is no longer byte-for-byte")
    # roles: FL = the start line (first component of <head>.partition(b"\r\n")), HD = the header map (the dict that is
    # passed as headers= to the constructors)
    FL = None
    for st in statements(f.node):
        if isinstance(st, ast.Assign) and isinstance(st.targets[0], ast.Tuple) and len(st.targets[0].elts) == 3 and isinstance(st.value, ast.Call) and isinstance(st.value.func, ast.Attribute) \
                and st.value.func.attr == "partition" and st.value.args and _c(st.value.args[0]) == b"\r\n":
            FL = dotted(st.targets[0].elts[0])
    HD = dotted(kwarg(ctors["HttpResponse"][0], "headers")) or "headers"
    fl = _unpack_of(f, FL) if FL else []
    good = len(fl) == 1 and fl[0][1] == 0 and isinstance(fl[0][2], ast.Call) and fl[0][2].func.attr == "partition" and _c(fl[0][2].args[0]) == b"\r\n"
    head_src = dotted(fl[0][2].func.value) if good else None
    hup = _unpack_of(f, head_src) if head_src else []
    good = good and any(i == 0 and isinstance(v, ast.Call) and dotted(v.func.value) == data for st, i, v in hup)
    ctx.ob("R1", "AGREE", f, "first_line", bool(good), "start line = head.partition(b'\\r\\n')[0] of the head before the first CRLFCRLF" if good else "start line is not the first CRLF-partition of the head")
    # ---- R2 / R3
    esc = effects.Escape(ctx)
    unpacks = [st for st in statements(f.node) if isinstance(st, ast.Assign) and isinstance(st.targets[0], ast.Tuple) and len(st.targets[0].elts) == 3 and dotted(st.value) is not None]
    ctx.rep.count("start_line_unpacks", len(unpacks), floor=2)
    for st in unpacks:
        safe = esc._unpack_safe(f, st, st.targets[0])
        src_name = dotted(st.value)
        # the guard's other edge raises ValueError
        defs = reaching_defs(ctx, f, src_name, st)
        split_ok = all(v is not None and src(v).endswith(".rstrip().split()") or (v is not None and src(v).endswith(".split()")) for _s, v in defs) and bool(defs)
        ctx.ob("R2", "DOM", f, src(st), safe and split_ok, f"unpack of {src_name} is dominated by a `len({src_name}) == 3` fact={safe}; {src_name} is the whitespace split of the start line={split_ok}", st)
    for r in cfg.raise_stmts():
        ctx.ob("R2", "EXIT", f, src(r)[:50], raise_class(r) == "ValueError", f"malformed start line raises {raise_class(r)}", r)
    # positions
    resp, req = ctors["HttpResponse"][0], ctors["HttpRequest"][0]

    def pos_of(name, at):
        """index of the 3-unpack that defines `name` (reaching `at`), following one int()/decode()/urlparse hop."""
        rd = reaching_defs(ctx, f, name, at)
        for st, v in rd:
            if isinstance(st, ast.Assign) and isinstance(st.targets[0], ast.Tuple) and len(st.targets[0].elts) == 3:
                for i, t in enumerate(st.targets[0].elts):
                    if dotted(t) == name:
                        return i
        return None

    from csverif.q import inline as _inl
    st_kw = kwarg(resp, "status")
    st_o = _inl(f.node, st_kw)
    s_ok = isinstance(st_o, ast.Call) and dotted(st_o.func) == "int" and isinstance(st_o.args[0], ast.Call) and st_o.args[0].func.attr == "decode" and pos_of(dotted(st_o.args[0].func.value), resp) == 1
    r_ok = pos_of(dotted(kwarg(resp, "reason")), resp) == 2
    ctx.ob("R3", "AGREE", f, "HttpResponse(status, reason)", bool(s_ok and r_ok), f"status = int(<second token>.decode())={bool(s_ok)}; reason = third token={r_ok}", resp)
    m_ok = pos_of(dotted(kwarg(req, "method")), req) == 0
    uri_kw = kwarg(req, "uri")
    par_kw = kwarg(req, "params")
    # uri = urlparse(<sanitised second token>).path ; params = dict(parse_qsl(<same>.query))
    ups = [c for c in fn_calls(f.node) if dotted(c.func) in ("urlparse", "urllib.parse.urlparse")]
    u_ok = p_ok = False
    if len(ups) == 1:
        res_st = fv.stmt_of(ups[0])
        res = dotted(res_st.targets[0]) if isinstance(res_st, ast.Assign) else None
        arg = ups[0].args[0]
        # the argument derives from the second token only
        chain = [arg]
        rd = reaching_defs(ctx, f, dotted(arg), ups[0]) if dotted(arg) else []
        second = False
        for s2, v in rd:
            if v is not None and dotted(arg) in {n.id for n in ast.walk(v) if isinstance(n, ast.Name)}:
                # uri = uri.decode(..).encode(): follows the unpacked uri
                second = pos_of(dotted(arg), s2) == 1
        uo = reaching_defs(ctx, f, dotted(uri_kw), req)
        u_ok = second and any(v is not None and src(v) == f"{res}.path" for _s, v in uo)
        po = _inl(f.node, par_kw)
        qcalls = [c for c in ast.walk(po) if isinstance(c, ast.Call) and dotted(c.func) in ("parse_qsl", "urllib.parse.parse_qsl")]
        # the parameter map is built from parse_qsl over the query component of that same parse, and from nothing else
        p_ok = second and len(qcalls) == 1 and qcalls[0].args and any(isinstance(n, ast.Attribute) and n.attr == "query" and (dotted(n.value) == res or src(n.value) == src(ups[0])) for n in ast.walk(qcalls[0].args[0])) \
            and isinstance(po, (ast.Call, ast.DictComp)) and (dotted(po.func) == "dict" if isinstance(po, ast.Call) else True)
    ctx.ob("R3", "AGREE", f, "HttpRequest(method, uri, params)", bool(m_ok and u_ok and p_ok), f"method = first token={m_ok}; uri = urlparse(<second token>).path={u_ok}; params = mapping built from parse_qsl(<same>.query)={p_ok}", req)
    for kind, c in (("HttpResponse", resp), ("HttpRequest", req)):
        h = kwarg(c, "headers")
        ctx.ob("R3", "AGREE", f, f"{kind}(headers=headers)", dotted(h) == HD and HD is not None, f"headers bound to the parsed header map: {src(h)}", c)
    # ---- R4
    rets = cfg.return_stmts()
    def is_prefix_test(t):
        s = src(t)
        return True if (s.endswith(".startswith(b'HTTP/')") and ("upper()" in s or "lower()" in s) and FL is not None and s.startswith(FL + ".")) else None
    for r in rets:
        o = origin(f.node, r.value)
        kind = dotted(o.func) if isinstance(o, ast.Call) else None
        under = guarded_by(ctx, f, r, is_prefix_test)
        ok = (kind == "HttpResponse" and under) or (kind == "HttpRequest" and not under)
        ctx.ob("R4", "AGREE", f, f"return {kind}", ok, f"{kind} returned {'under' if under else 'outside'} the case-insensitive `HTTP/` prefix test on the start line", r)
    ctx.ob("R4", "EXIT", f, "falls off end", not cfg.falls_off_end(), "never returns None")
    # ---- R5
    loops = [s for s in statements(f.node) if isinstance(s, ast.For)]
    ok = False
    detail = "no header loop"
    for lp in loops:
        it = lp.iter
        if isinstance(it, ast.Call) and isinstance(it.func, ast.Attribute) and it.func.attr == "split" and _c(it.args[0]) == b"\r\n":
            hv = dotted(lp.target)
            parts = [c for c in ast.walk(lp) if isinstance(c, ast.Call) and isinstance(c.func, ast.Attribute) and c.func.attr == "partition" and dotted(c.func.value) == hv]
            stores = [s for s in ast.walk(lp) if isinstance(s, ast.Assign) and isinstance(s.targets[0], ast.Subscript) and dotted(s.targets[0].value) == HD]
            sep_ok = len(parts) == 1 and _c(parts[0].args[0]) == b": "
            st_ok = False
            if len(stores) == 1 and sep_ok:
                pst = fv.stmt_of(parts[0])
                names = [dotted(t) for t in pst.targets[0].elts] if isinstance(pst, ast.Assign) and isinstance(pst.targets[0], ast.Tuple) else []
                st_ok = len(names) == 3 and dotted(stores[0].targets[0].slice) == names[0] and dotted(stores[0].value) == names[2]
            # iterates the rest of the head (after the start line)
            rest = dotted(it.func.value)
            rest_ok = any(i == 2 for st, i, v in _unpack_of(f, rest) if isinstance(v, ast.Call) and _c(v.args[0]) == b"\r\n")
            ok = sep_ok and st_ok and rest_ok
            detail = f"header lines = rest-of-head.split(b'\\r\\n')={rest_ok}; each partitioned at b': '={sep_ok}; stored key->value in order={st_ok}"
    ctx.ob("R5", "AGREE", f, "header lines", ok, detail)
    hd = [v for st, v in assignments_to(f.node, HD)]
    ctx.ob("R5", "AGREE", f, "headers = {}", len(hd) == 1 and isinstance(hd[0], ast.Dict) and not hd[0].keys, "header map starts empty (insertion order preserved)")
    # ---- R6
    effects.check_escape(ctx, "R6", ["c2.parse_raw_http"], {"ValueError"})
    # ---- R7 [API]: percent-decoding must be able to produce every byte value. urllib's parse_qsl on *bytes* decodes the
    # query as ASCII, unquotes as UTF-8 and re-encodes the result as ASCII: any parameter that decodes to a non-ASCII byte
    # raises UnicodeEncodeError. A necessary condition for "any key/value bytes" is therefore that the query is parsed as
    # text with a single-byte codec (encoding="latin-1", then encoded back) or with unquote_to_bytes.
    qs = [c for c in fn_calls(f.node) if dotted(c.func) in ("parse_qsl", "urllib.parse.parse_qsl", "parse_qs", "urllib.parse.parse_qs")]
    for c in qs:
        enc = kwarg(c, "encoding")
        ok = enc is not None and str(_c(enc)).lower().replace("_", "-") in ("latin-1", "latin1", "iso-8859-1")
        ctx.ob("R7", "API", f, "parse_qsl(query)", ok, "query parsed as text with a single-byte codec: every percent-encoded byte value survives" if ok else
               "parse_qsl is applied without a single-byte `encoding=`: with a bytes query the result is re-encoded as ASCII, so a parameter such as ?q=caf%C3%A9 raises UnicodeEncodeError instead of yielding its bytes", c)
    ub = [c for c in fn_calls(f.node) if (dotted(c.func) or "").split(".")[-1] in ("unquote_to_bytes", "unquote", "unquote_plus")]
    if not qs and not ub:
        ctx.ob("R7", "API", f, "query decoding", False, "no percent-decoding of the query found")
    # percent-decoding happens once, in the query parser, after the target has been split: decoding earlier turns
    # escaped delimiters (%26 %3D %23 %2B) into live ones and decodes literal percent signs twice
    if qs:
        ctx.ob("R7", "API", f, "percent-decoding applied once", not ub,
               "parse_qsl is the only percent-decoder" if not ub else f"additional percent-decoding besides parse_qsl: {[src(c)[:40] for c in ub]}", (ub or qs)[0])
    # ---- R8: every call builds fresh result objects (the header/parameter maps are mutable and callers write into
    # them, e.g. HttpDataTransform.transform): the parser must not be wrapped by a caching decorator
    decs = [src(d) for d in f.node.decorator_list]
    ctx.ob("R8", "API", f, "undecorated parser", not decs, "no decorator: each parse returns new objects" if not decs else f"parser is wrapped by {decs}: results (holding mutable maps) may be shared between calls", f.node)
