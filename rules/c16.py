"""C16 - Raw HTTP messages are parsed into exactly their parts (structural part).

All obligations are phrased over *value terms*: `_Sym` evaluates an expression at a program point into a canonical
symbolic term (flow-sensitive reaching definitions, tuple packing/unpacking, `partition` components, constant folding,
comprehensions / `dict()` over generators / dict-filling loops normalised to one `map` form).  A rule then compares the
term of a constructor field (located by role: "the body field of an HttpRequest construction") with the term the
property demands.  Names of locals, temporaries, statement order, helper extraction, hoisting, early-return vs if/else,
loop vs comprehension and keyword order are invisible at this level.

Three verdicts per comparison: the term equals the demanded one -> discharged; the term is completely understood and
differs -> violated; the term contains a part the evaluator cannot model (`opaque`) -> undecided.

Technique
---------
(numbers = the ALLOWED devices of RULES_GUIDE.md, "What counts as *static* here").  Nothing in this module runs analysed
code on data: `_Sym` only *builds terms* - it substitutes reaching definitions (3), projects components of tuple /
`partition` terms by the constant indices and constant slices the analysed code itself writes (a structural rule on
terms: `(a, b, c)[::2]` is `(a, c)`), folds constant expressions (6), resolves callees (1), and models a dict-filling
for-loop or comprehension **once** with its element as the symbolic marker `$` (3, no unrolling).  No byte string,
start line, header block, length or number is ever chosen by the checker; branch outcomes stay symbolic (`phi`).

* `_Sym` (shared): 1 (resolved callees, constructor classes), 3 (reaching definitions -> terms, tuple unpacking, loop body
  once with symbolic element), 6 (constant folding, e.g. `_EOL * 2`).  Lemmas: `dict(pairs) == {p[0]: p[1] for p in pairs}`
  (definition of dict() over an iterable of pairs); `d = {}; for x in it: d[k(x)] = v(x)` equals `{k(x): v(x) for x in it}`
  when the store is the only write to `d` in a non-nested for-loop without break/return; `bytes(b)` of a bytes value is
  an equal value; `list/tuple/iter(g)` preserve the elements and order of `g`; `len(<constant>)` is folded (6).
  *Filtered iteration* (2, 3): the term ("filter", it, c) is "the elements of `it` for which c holds" (c a term over the
  element marker, or an element-independent guard).  It is produced by comprehension `if` clauses, by `filter(None, it)`
  (keeps the true elements - definition), and by a dict-filling loop whose store is conditional: `_store_conditions`
  finds, on the CFG, the `if` statements reachable from the initialisation of which exactly one edge can still reach the
  store (inside the loop: within the same iteration); each must dominate the store through that edge; since the region
  has no other branching statement, the store runs for an element exactly when all those tests have that outcome.
  `if c: continue`, `if c: <store>`, nestings of both and an `if` around the whole loop are instances; anything else is
  `opaque`.  Lemma (empty iteration): a map built over no element is `{}` and iterating `[]` yields nothing, hence
  `M if c else {}` (or the two-branch statement form) is M over its elements filtered by c and `it if c else []` is
  `it` filtered by c.  Where a filter condition states that a constant separator occurs in x, the element expressions
  are read with the find/partition lemma below (`x.split(s, 1)[1]` is `partition[2]` there).
  *urlparse re-join* (3): `P.path + ";" + P.params if P.params else P.path` (also `";".join((..))`, `!= b""`, statement
  form) for P = urlparse(..) is the one term ("attr", "path;params", P).
  *Gated merge* (2, 3): when exactly two definitions of a local reach a use and one `if` statement I dominates the use such
  that, on every path from I to the use that does not return to I, the last definition is the first one after the true
  edge and the second one after the false edge (dominance and path queries on the CFG, `_gate_of`), the value is
  `D_true if test(I) else D_false`; a conditional expression is the same thing.  Such a selection is turned into ONE term
  only by the *find/partition lemma* below; any other selection stays the unordered merge `phi`.
  *find/partition lemma* (4, stated in `_occurrence_test`, `_occ_merge`, `_mk_slice_terms`): for a non-empty constant
  separator s, `x.find(s)` / `x.rfind(s)` is -1 exactly when s does not occur in x and >= 0 otherwise (so `== -1`, `< 0`,
  `<= -1` and their negations, and `s in x`, are occurrence tests); where s occurs, `find/index` is the index of the first
  and `rfind/rindex` of the last occurrence.  With j = ("occ", "find", x, s) = "index of the first occurrence, else
  len(x)": `x[:j] == x.partition(s)[0]` and `x[j + len(s):] == x.partition(s)[2]`, because partition splits at the first
  occurrence and returns (x, b"", b"") without one, `x[:len(x)] == x` and `x[len(x) + k:]` is empty.  Accordingly the
  selections `len(x) if absent else x.find(s)`, `x if absent else x[:x.find(s)]`, `b"" if absent else x[x.find(s) + len(s):]`
  (also element-wise on tuples) are the terms j, `partition[0]`, `partition[2]`.  Likewise `x.split(s, 1)` is `[x]`
  without and `[before, after]` the first occurrence with one: its element 0 is `partition[0]`, `len(..) == 2` (`> 1`,
  `!= 1`, ..) is an occurrence test, and `b"" if absent else x.split(s, 1)[1]` is `partition[2]`.  Slice composition:
  `x[a:][b:] == x[a + b:]` for a, b >= 0 (an `occ` index is never negative).  A slice bound that is an unordered merge
  (no tracked condition) is `opaque` -> the comparison is undecided, not violated; a bound that is a plain `find`
  without fallback, a wrong offset or the `rfind` variant is an exact term different from the demanded one -> violated.
  The whole sequence `x.split(s, 1)` selected against a pair by an occurrence test is read element-wise the same way
  (`x.split(s, 1) if s in x else (x, b"")` is `(partition[0], partition[2])`).
  *Octet filter* (3, 4): `bytes(o for o in x if c(o))` (list / generator form, `bytes(filter(None, x))`) is the term
  ("octets", x, c) = "the octets of x for which c holds, in order" (iterating bytes yields its octets, bytes() of ints puts
  them back).  `_octet_verdict` decides c in the **interval domain** with the element `$` ranging over the ASCII octets
  [0, 127] resp. the visible ones [0x21, 0x7E]: comparisons of `$` / `$ & mask` with constants, `$ in range(a, b)`,
  `not`/`and`/`or`, int truthiness.  Transfer rules: two intervals compare definitely when they do not overlap;
  0 <= x & m <= min(x, m) for x, m >= 0; x & m == 0 when m has none of the low seven bits and x <= 127 (known bits); the
  interval of `$` itself is exact, so `$ < k` not holding on all of it means some octet of the range fails.  No octet
  value is enumerated.  c true on [0, 127] -> `_strip_codec` peels the filter like the `errors="ignore"` ASCII round
  trip (lemma: every start-line token of a message in the quantifier is ASCII, so the filter returns an equal value);
  c false for some visible ASCII octet -> exact term that is not the token (violated where a token is demanded);
  otherwise (only controls / the space dropped, or c outside the lemmas) `opaque` -> undecided.
  *parse_qs grouping* (3, lemma in `_qs_grouped`; documented urllib behaviour: parse_qs is the grouping of the parse_qsl
  pairs of the same arguments): `parse_qs(A)` has every distinct name of `parse_qsl(A)` once, at the position of its first
  pair, bound to the non-empty list of its values in pair order.  A map built over `parse_qs(A).items()` (or over the
  names, with `Q[name]` as the list) that uses each list only as `L[-1]` is therefore the same map built over the pairs of
  `parse_qsl(A)` (a dict comprehension over pairs also keeps the first position and the last value of a repeated key); `L[0]`
  is accepted as well because a parameter *map* (the quantifier) has every name once, i.e. one-element lists.  Any other
  use of the lists / the grouping -> `opaque` (R3 undecided).
  *Fields passed with `**`* (3; `fld` in `run`): `K(.., **M)` where M evaluates to a display with constant string keys
  (`{"a": x}` or `dict(a=x)`, never written to on the way - `_dict_build`) passes exactly `a=x` for its items (definition of
  `**`); any other M -> the field cannot be located (undecided).  A construction is the term ("ctor", class, n) however its
  arguments are passed.  Alias guard (2): a mapping that is read at a statement other than a return/raise (stored into
  another local or a display) and written to on a path after that statement is `opaque`.
* R1 (body / first_line): 3 - structural equality of the field's term with the demanded term
  `<arg>.partition(CRLFCRLF)[2]` resp. `ws-split(<arg>.partition(CRLFCRLF)[0].partition(CRLF)[0])`; 1 to locate the
  constructions.  Lemma: `x.rstrip()/.strip()/.lstrip()` before an argument-less `.split()` does not change the tokens
  (whitespace split ignores leading/trailing whitespace).
* R2 (length guard, raise class): 2 (dominating branch conditions on the CFG), 4 (interval of `len(T)` from the
  dominating `len(T) <op> k` facts, T identified by term equality - 3), 1 (try/except shape for the EAFP form).
  Lemma: unpacking a sequence into n plain targets succeeds iff its length is n, and otherwise raises ValueError; access
  to constant index i needs `len > i` (i >= 0) resp. `len >= -i` (i < 0); a split at an explicit separator has at least
  one piece (only the whitespace split can be empty); `x.split(s, k)` / `x.rsplit(s, k)` with a constant k >= 0 has at most
  k + 1 pieces; under a dominating occurrence test (find/partition lemma: `s in x`, `x.find(s) >= 0`, ..) for the same x
  and s a split that may cut at least once has at least two pieces, and under its negation exactly one; the test of a
  conditional expression holds in its first arm and fails in its second.  EAFP: for the start-line tokens the ValueError
  handler around the unpacking must end in the parser's ValueError (a malformed start line is *rejected*); for the
  pieces of any other split it only has to exist (the failed unpacking does not escape; the values the handler
  computes instead are judged by R1/R5 on the terms).
* R3 (start-line fields, params, headers binding): 3 - structural comparison of field terms ("item i of one and the same
  token-sequence term", "path component / query component of one and the same request target", "map over `parse_qsl`
  pairs", to which a map over the `parse_qs` grouping is reduced by the lemma above); 1.  The components are recognised as `.path` / `.query` (or the equivalent tuple elements 2 and 4 resp. 3) of
  `urlparse(..)` / `urlsplit(..)` (both result types have these attributes), urlparse's path re-joined with its params,
  or the two outer components of the target's partition at the first `?`.
  `.encode/.decode/str(x, enc)/bytes(x, enc)` steps are peeled structurally ("re-coded only"), never executed; an octet
  filter that keeps every ASCII octet (interval domain, see `_Sym`) is peeled the same way (4).
* R4 (selection of the message kind, exits): 2 (dominating conditions with polarity, enclosing conditional expressions;
  return statements / fall-off-end from the CFG), 3 (terms of the conditions), 6 (folding of the *reference* constant
  `b"HTTP/"` under `upper`/`lower` to compare it with the literal in the code).  Lemma: `l.upper().startswith(K.upper())`,
  `l.lower().startswith(K.lower())`, `l[:len K].upper() == K.upper()` and `l.upper()[:len K] == K.upper()` all state
  "l starts with K ignoring ASCII case" (bytes case mapping is per byte and length preserving); the `!=` spelling of the
  two slice forms (and `not in` a one-element display, which is `!=` its element) states the negation, so it counts as
  the same test with the polarity of the branch edge inverted.
* R5 (header map; also the `headers=` part of R3): 3 - structural equality of the map term's iterable / key / value with
  `rest.split(CRLF)`, `$.partition(b": ")[0]`, `$.partition(b": ")[2]`; initial mapping must be the empty display.  The
  iterable may be filtered: every filter condition must be implied by "the line (resp. the block it is a piece of)
  contains a `key: value` line", decided by the lemmas of `_keeps_header_lines` (4: such an x is non-empty, has
  length >= 2, contains every piece of b": ", is not whitespace-only, differs from every constant without b": "); a
  filter condition outside these lemmas -> undecided.
* R9 (empty header block, ABS): 4 + 5 - case analysis over emptiness: in the case "the rest of the head after the start line
  is empty (and the message, its head and its start line are not)" the sequence the header map is built over is
  evaluated in the emptiness/length domain of `_abs` / `_truth` (values: empty, non-empty, sequence of known length,
  small constants, unknown).  Lemmas: `b"".split(sep) == [b""]` for an explicit non-empty separator (one empty piece,
  never an empty list); `b"".split() == []`, `b"".splitlines() == []`; every partition component / slice / strip / case
  mapping / re-coding of an empty value is empty; a non-empty value does not occur in (is no prefix/suffix of) an empty
  one, `find` gives -1, `count` 0, the `is...()` predicates are false; `len` of an empty value is 0; a bytes value is not
  None; `filter(None, ..)` / a filter keeps the elements whose condition is true.  No element left -> discharged; an
  element reaches the store (or the map is pre-filled) -> violated; length or a condition unknown -> undecided.
* R10 (complete request path, API): 1 (import-resolved library callee), 3 (shape of the path term).  Lemmas (documented
  urllib behaviour): `urlparse` splits `;parameters` off the last path segment into `.params`, `urlsplit` does not; the
  path component of a request target ends at its first `?`.  `.path` of urlsplit, urlparse's path re-joined with
  `.params`, or the target cut at the first `?` -> discharged; `.path` of urlparse alone (on any path) -> violated; a
  path obtained in another way -> undecided.
* R6 (escape set): the engine's `effects.check_escape` - may-raise set over the call graph (1) with handlers / guards on
  the CFG (2), the engine's non-raising side conditions (4) and the exception class hierarchy (6: table).
* R7 (percent-decoding API use): 1 (import-resolved library callee names), 3 (term of the `encoding=` argument and of the
  re-encoding steps), 6 (complete comparison with the table of latin-1 codec aliases).
* R8 (no caching decorator): 1 (decorator list syntax).
"""

from __future__ import annotations

import ast

from csverif import effects
from csverif.astutil import body_walk, const_eval, dotted, fn_calls, kwarg, NotConst, params, src, statements
from csverif.cfg import ENTRY
from csverif.q import FuncView, dominating_conditions, raise_class, reaching_defs

CRLF = b"\r\n"
_CODEC_LATIN1 = ("latin-1", "latin1", "iso-8859-1", "iso8859-1", "l1", "latin", "8859", "cp819", "iso-ir-100")
_DICT_MUTATORS = {"update", "setdefault", "pop", "popitem", "clear", "__setitem__", "__delitem__"}
_CMP = {ast.Eq: "==", ast.NotEq: "!=", ast.Lt: "<", ast.LtE: "<=", ast.Gt: ">", ast.GtE: ">=", ast.Is: "is", ast.IsNot: "is not", ast.In: "in", ast.NotIn: "not in"}
_MIRROR = {"==": "==", "!=": "!=", "<": ">", "<=": ">=", ">": "<", ">=": "<="}
ELEM = ("elem",)


def _c(node):
    try:
        return const_eval(node) if node is not None else None
    except (NotConst, TypeError):
        return None


# ---------------------------------------------------------------------------------------------------------- terms
# ("param", name) ("const", v) ("global", dotted) ("partition"|"rpartition", base, sep) ("part", kind, base, sep, i)
# ("tuple", t...) ("item", base, i) ("index", base, idx) ("slice", base, lo, hi, step) ("meth", name, recv, args, kwargs)
# ("call", name, args, kwargs) ("ctor", class, n) ("attr", name, base) ("gen", iter, elt) ("map", iter, key, val, init)
# ("dict", items) ("elem",) ("iterelem", iter) ("phi", alts) ("cmp", op, l, r) ("not", t) ("and"|"or", ts)
# ("binop", op, l, r) ("opaque", why) ("occ", "find"|"rfind", x, sep): index of the first/last occurrence of sep in x, len(x) if none
# ("filter", it, cond): the elements of `it` for which `cond` (over the element marker) holds
# ("attr", "path;params", P): urlparse result P's path with its `;params` put back
# ("octets", x, cond): the bytes value made of the octets of `x` for which `cond` (over the element marker) holds, in order
def _opaque(why):
    return ("opaque", why)


def _subterms(t):
    if isinstance(t, tuple):
        yield t
        for x in t:
            yield from _subterms(x)


def _has_opaque(t):
    return any(s and s[0] == "opaque" for s in _subterms(t))


def _contains(t, sub):
    return any(s == sub for s in _subterms(t))


def _mk_phi(alts):
    flat = []
    for a in alts:
        for x in (a[1] if a and a[0] == "phi" else (a,)):
            if x not in flat:
                flat.append(x)
    if len(flat) == 1:
        return flat[0]
    return ("phi", tuple(sorted(flat, key=repr)))


def _alts(t):
    return list(t[1]) if t and t[0] == "phi" else [t]


def _as_tuple(base):
    if base[0] == "tuple":
        return list(base[1:])
    if base[0] in ("partition", "rpartition"):
        return [("part", base[0], base[1], base[2], i) for i in range(3)]
    return None


def _split_once(t):
    """t == x.split(s, 1) / x.split(s, maxsplit=1) with a non-empty constant s -> (x, s); else None."""
    if t[0] == "meth" and t[1] == "split" and t[3] and t[3][0][0] == "const" and isinstance(t[3][0][1], (bytes, str)) and t[3][0][1]:
        if (t[3][1:], t[4]) in (((("const", 1),), ()), ((), (("maxsplit", ("const", 1)),))):
            return t[2], t[3][0]
    return None


def _mk_item(base, i):
    if base[0] == "phi":
        return _mk_phi([_mk_item(a, i) for a in base[1]])
    if i == 0 and _split_once(base) is not None:
        # lemma: x.split(s, 1) is [x] without an occurrence of s and [before, after] the first one otherwise; its first
        # element is therefore x.partition(s)[0] in both cases
        return ("part", "partition") + _split_once(base) + (0,)
    elts = _as_tuple(base)
    if elts is not None and isinstance(i, int) and -len(elts) <= i < len(elts):
        return elts[i]
    return ("item", base, i)


def _mk_slice(base, lo, hi, step):
    if base[0] == "slice" and len(base) == 5 and isinstance(base[2], tuple) and base[3] == ("const", None) and base[4] in (("const", None), ("const", 1)):
        # lemma: x[a:][b:] == x[a + b:] for a >= 0 and b >= 0; an ("occ", ..) index is never negative
        off = _occ_offset(base[2])
        if off is not None and off[1] >= 0 and type(lo) is int and lo >= 0 and hi is None and step in (None, 1):
            return _mk_slice_terms(base[1], ("binop", "Add", off[0], ("const", off[1] + lo)), ("const", None), ("const", None))
    elts = _as_tuple(base)
    if elts is not None and all(x is None or isinstance(x, int) for x in (lo, hi, step)):
        try:
            return ("tuple",) + tuple(elts[lo:hi:step])
        except ValueError:
            pass
    return ("slice", base, lo, hi, step)


def _occ_offset(t):
    """t == <occ> + n with a constant int n (either operand order) -> (occ term, n); a bare occ term -> (occ, 0)."""
    if t[0] == "occ":
        return t, 0
    if t[0] == "binop" and t[1] == "Add":
        for a, b in ((t[2], t[3]), (t[3], t[2])):
            if a[0] == "occ" and b[0] == "const" and type(b[1]) is int:
                return a, b[1]
    return None


def _mk_slice_terms(base, lo, hi, step):
    """Slice whose bounds are terms.  Constant bounds -> `_mk_slice`.  Lemma (find/partition): for a non-empty separator s
    and j = ("occ", "find", x, s) = the index of the first occurrence of s in x, or len(x) if there is none,
    `x[:j] == x.partition(s)[0]` and `x[j + len(s):] == x.partition(s)[2]`  (partition and find both take the first
    occurrence from the left; without one partition gives (x, b"", b""), and x[:len(x)] == x, x[len(x) + k:] is empty)."""
    parts = (lo, hi, step)
    if all(p[0] == "const" and (p[1] is None or type(p[1]) is int) for p in parts):
        return _mk_slice(base, *[p[1] for p in parts])
    if step in (("const", None), ("const", 1)):
        if lo in (("const", None), ("const", 0)) and hi[0] == "occ" and hi[1] == "find" and hi[2] == base:
            return ("part", "partition", base, hi[3], 0)
        off = _occ_offset(lo) if hi == ("const", None) else None
        if off is not None and off[0][1] == "find" and off[0][2] == base:
            sep = off[0][3]
            if sep[0] == "const" and isinstance(sep[1], (bytes, str)) and sep[1] and off[1] == len(sep[1]):
                return ("part", "partition", base, sep, 2)
    return ("slice", base, lo, hi, step)


def _rewrite(t, fn):
    """Bottom-up rewriting of a term: children first, then the simplifying constructors, then `fn` on the rebuilt node."""
    if not isinstance(t, tuple) or not t:
        return t
    if isinstance(t[0], str) and t[0] in ("const", "param", "global", "opaque", "elem", "ctor"):
        return fn(t)
    k = tuple(_rewrite(x, fn) for x in t)
    if k[0] == "item" and len(k) == 3:
        k = _mk_item(k[1], k[2])
    elif k[0] == "slice" and len(k) == 5:
        if all(x is None or isinstance(x, int) for x in k[2:]):
            k = _mk_slice(k[1], *k[2:])
        elif all(isinstance(x, tuple) for x in k[2:]):
            k = _mk_slice_terms(k[1], *k[2:])
    return fn(k) if isinstance(k[0], str) else k


def _occurrence_test(cond):
    """(x, s, present) if the condition holds exactly when the non-empty constant s occurs in x (present=True) or exactly
    when it does not (present=False); None for any other condition.  Facts used: `x.find(s)` / `x.rfind(s)` is -1 when
    there is no occurrence and >= 0 otherwise; `s in x` is the occurrence test itself."""
    pol = True
    while cond[0] == "not":
        cond, pol = cond[1], not pol
    if cond[0] != "cmp":
        return None
    op, l, r = cond[1], cond[2], cond[3]
    if op in ("in", "not in"):
        x, sep, present = r, l, op == "in"
    else:
        if op not in _MIRROR:
            return None
        if l[0] == "const":
            op, l, r = _MIRROR[op], r, l
        if not (r[0] == "const" and type(r[1]) is int):
            return None
        once = _split_once(l[2][0]) if l[0] == "call" and l[1] == "len" and len(l[2]) == 1 and not l[3] else None
        if once is not None:
            # len(x.split(s, 1)) is 2 when s occurs in x and 1 when it does not
            x, sep = once
            if (op, r[1]) in (("==", 1), ("<", 2), ("<=", 1), ("!=", 2)):
                present = False
            elif (op, r[1]) in (("==", 2), (">", 1), (">=", 2), ("!=", 1)):
                present = True
            else:
                return None
        elif l[0] == "meth" and l[1] in ("find", "rfind") and len(l[3]) == 1 and not l[4]:
            if (op, r[1]) in (("==", -1), ("<", 0), ("<=", -1)):
                present = False
            elif (op, r[1]) in (("!=", -1), (">=", 0), (">", -1)):
                present = True
            else:
                return None
            x, sep = l[2], l[3][0]
        else:
            return None
    if not (sep[0] == "const" and isinstance(sep[1], (bytes, str)) and sep[1]):
        return None
    return x, sep, present == pol


def _under_presence(x, sep, t):
    """The term `t` as it reads where the non-empty constant `sep` is known to occur in `x`: there `x.find(sep)` /
    `x.index(sep)` are the first and `x.rfind(sep)` / `x.rindex(sep)` the last occurrence (the value of the ("occ", ..)
    term), and the second piece of `x.split(sep, 1)` is what follows the first occurrence."""
    def occ(n):
        if n[0] == "meth" and n[1] in ("find", "index", "rfind", "rindex") and n[2] == x and n[3] == (sep,) and not n[4]:
            return ("occ", "rfind" if n[1].startswith("r") else "find", x, sep)
        if n[0] == "item" and n[2] in (1, -1) and _split_once(n[1]) == (x, sep):
            return ("part", "partition", x, sep, 2)   # the second of the two pieces is what follows the first occurrence
        return n

    return _rewrite(t, occ)


def _occ_merge(x, sep, p, a):
    """The value that is `p` when `sep` occurs in `x` and `a` when it does not, as ONE term - or None if the pair is not
    one of the forms below.  In the branch where the separator occurs `x.find(sep)` / `x.index(sep)` are the first and
    `x.rfind(sep)` / `x.rindex(sep)` the last occurrence, i.e. the value of the corresponding ("occ", ..) term; in the other
    branch that term is len(x), the first partition component is x itself and the third is empty."""
    if _split_once(p) == (x, sep):
        # where the separator occurs, x.split(sep, 1) is the two-element sequence [before, after] the first occurrence
        p = ("tuple", ("part", "partition", x, sep, 0), ("part", "partition", x, sep, 2))
    if p[0] == "tuple" and a[0] == "tuple" and len(p) == len(a):
        parts = [_occ_merge(x, sep, pi, ai) for pi, ai in zip(p[1:], a[1:])]
        return None if any(q is None for q in parts) else ("tuple",) + tuple(parts)

    P = _under_presence(x, sep, p)
    if P == a:
        return P
    if P[0] == "occ" and P[2] == x and P[3] == sep and a == ("call", "len", (x,), ()):
        return P
    if P[0] == "part" and P[1] == "partition" and P[2] == x and P[3] == sep:
        if (P[4] == 0 and a == x) or (P[4] == 2 and a == ("const", sep[1][:0])):
            return P
    return None


def _neg(c):
    return c[1] if c[0] == "not" else ("not", c)


def _mk_filter(it, cond):
    """The elements of `it` for which `cond` (a term over the element marker `$`; it may also be independent of the
    element: a guard around the whole iteration) holds, in order.  `filter(g(x) for x in it)` is normalised to a generator
    over the filtered base so that the map/gen substitution rules keep working."""
    if it[0] == "gen":
        return ("gen", _mk_filter(it[1], _subst(cond, it[2])), it[2])
    return ("filter", it, cond)


def _params_rejoin(cond, t, e):
    """`P.path + ";" + P.params if P.params else P.path` for P = urlparse(..): the path with the `;parameters` that
    urlparse cut off its last segment put back -> ("attr", "path;params", P); None for anything else."""
    pol = True
    while cond[0] == "not":
        cond, pol = cond[1], not pol
    if cond[0] == "cmp" and cond[1] in ("!=", "==") and any(x[0] == "const" and x[1] in (b"", "") for x in cond[2:4]):
        pol = pol == (cond[1] == "!=")
        cond = cond[3] if cond[2][0] == "const" else cond[2]
    elif cond[0] == "cmp" and cond[1] in (">", "!=") and cond[3] == ("const", 0) and cond[2][0] == "call" and cond[2][1] == "len" and len(cond[2][2]) == 1:
        cond = cond[2][2][0]
    if not pol:
        t, e = e, t
    if not (cond[0] == "attr" and cond[1] == "params" and cond[2][0] == "call" and cond[2][1] == "urlparse"):
        return None
    P = cond[2]
    path, semi = ("attr", "path", P), (("const", b";"), ("const", ";"))
    joined = [("binop", "Add", ("binop", "Add", path, c), cond) for c in semi] + [("binop", "Add", path, ("binop", "Add", c, cond)) for c in semi]
    joined += [("meth", "join", c, (("tuple", path, cond),), ()) for c in semi]
    return ("attr", "path;params", P) if e == path and t in joined else None


def _mk_gated(cond, t, e):
    """`t if cond else e` (conditional expression, or two definitions selected by one dominating `if`): one exact term when
    the condition is an occurrence test and the pair matches the find/partition lemma, when one side is the empty
    sequence / mapping (lemma: iterating nothing stores nothing, so `M if c else {}` is M built over the elements
    filtered by c, and `it if c else []` is `it` filtered by c), or when it is the urlparse re-join; else the plain merge
    of both."""
    g = _occurrence_test(cond)
    if g is not None:
        x, sep, present = g
        m = _occ_merge(x, sep, t, e) if present else _occ_merge(x, sep, e, t)
        if m is not None:
            return m
    for c, full, empty in ((cond, t, e), (_neg(cond), e, t)):
        if empty == ("dict", ()) and full[0] == "map" and not full[4]:
            return ("map", _mk_filter(full[1], c)) + full[2:]
        if empty == ("tuple",) and (full[0] in ("gen", "filter") or _is_split(full) or (full[0] == "meth" and full[1] == "splitlines")):
            return _mk_filter(full, c)
    m = _params_rejoin(cond, t, e)
    if m is not None:
        return m
    return _mk_phi([t, e])


def _subst(t, repl):
    """Replace the element marker of the innermost open comprehension by `repl`, re-simplifying on the way."""
    if not isinstance(t, tuple):
        return t
    if t == ELEM:
        return repl
    if t and t[0] == "item":
        return _mk_item(_subst(t[1], repl), t[2])
    if t and t[0] == "slice" and all(x is None or isinstance(x, int) for x in t[2:]):
        return _mk_slice(_subst(t[1], repl), *t[2:])
    if t and t[0] == "slice" and len(t) == 5 and all(isinstance(x, tuple) for x in t[2:]):
        return _mk_slice_terms(*[_subst(x, repl) for x in t[1:]])
    if t and t[0] in ("gen", "map", "filter", "octets"):
        # the element marker inside the element expressions belongs to that inner comprehension
        return (t[0], _subst(t[1], repl)) + t[2:]
    return tuple(_subst(x, repl) for x in t)


def _filtered(it, conds, outs):
    """(`it` filtered by the conjunction of `conds`, `outs` as they read under those conditions): where a condition
    states that a constant separator occurs in x, `x.find(sep)` / the second piece of `x.split(sep, 1)` in the element
    expressions are the first-occurrence terms (find/partition lemma)."""
    if not conds:
        return it, outs
    cond = conds[0] if len(conds) == 1 else ("and", tuple(conds))
    for atom, pol in _atoms(cond, True):
        g = _occurrence_test(atom if pol else ("not", atom))
        if g is not None and g[2]:
            outs = [_under_presence(g[0], g[1], o) for o in outs]
    return _mk_filter(it, cond), outs


def _mk_gen(it, elt):
    if it[0] == "gen":
        return ("gen", it[1], _subst(elt, it[2]))
    return ("gen", it, elt)


def _is_parse_qs(t):
    return len(t) == 4 and t[0] == "call" and t[1] == "parse_qs"


def _qs_grouped(it, outs):
    """A map / sequence built over the name -> [values] grouping of `parse_qs(A)` read as one over the pairs of
    `parse_qsl(A)`: (iterable, element expressions) rewritten, or None if the grouping is not consumed in one of the forms
    below.  Lemma (documented urllib behaviour; parse_qs is the grouping of the parse_qsl pairs of the same arguments):
    `parse_qs(A)` has every distinct name of `parse_qsl(A)` once, at the position of its first pair, bound to the
    non-empty list of its values in pair order.  Hence `{k($0): v(L[-1]) for $ = (name, L) in parse_qs(A).items()}` equals
    `{k($0): v($1) for $ in parse_qsl(A)}` - a dict comprehension over pairs also keeps the position of the first and the
    value of the last pair of a repeated key - provided k is injective on names, which the rules only accept for
    re-coding steps.  `L[0]` is accepted as well: a parameter *map* (the quantifier) has every name once, so every list
    has one element.  Iterating the grouping itself yields its names, and `Q[name]` is that name's list."""
    base, conds = _unfilter_terms(it)
    name = vals = None
    if base[0] == "meth" and base[1] == "items" and not base[3] and not base[4] and _is_parse_qs(base[2]):
        q, name, vals = base[2], _mk_item(ELEM, 0), _mk_item(ELEM, 1)
    elif _is_parse_qs(base) or (base[0] == "meth" and base[1] == "keys" and not base[3] and not base[4] and _is_parse_qs(base[2])):
        q = base if _is_parse_qs(base) else base[2]
        name, vals = ELEM, ("index", q, ELEM)
    if name is None:
        return None
    NAME, VALUE = ("qs-name",), ("qs-value",)

    def step(n):
        if n[0] == "item" and n[1] == vals and n[2] in (0, -1):
            return VALUE
        return NAME if n == name and name != ELEM else n

    def conv(t):
        t = _rewrite(t, step)
        if name == ELEM:
            t = _rewrite(t, lambda n: NAME if n == ELEM else n)
        if any(s == ELEM or s == vals or _is_parse_qs(s) for s in _subterms(t)):
            return None     # the list of values (or the pair) is used in another way
        return _rewrite(t, lambda n: _mk_item(ELEM, 0) if n == NAME else _mk_item(ELEM, 1) if n == VALUE else n)

    new = [conv(t) for t in list(outs) + conds]
    if any(t is None for t in new):
        return None
    it2 = ("call", "parse_qsl", q[2], q[3])
    for c in reversed(new[len(outs):]):
        it2 = ("filter", it2, c)
    return it2, new[:len(outs)]


def _mk_map(it, key, val, init=()):
    if it[0] == "gen":
        it, key, val = it[1], _subst(key, it[2]), _subst(val, it[2])
    g = _qs_grouped(it, (key, val))
    if g is not None:
        it, (key, val) = g
    return ("map", it, key, val, init)


def _unfilter_terms(it):
    """(base iterable, [condition terms of the filters around it, outermost first])."""
    conds = []
    while it[0] == "filter":
        conds.append(it[2])
        it = it[1]
    return it, conds


_ASCII = (0, 127)
_VISIBLE = (0x21, 0x7E)   # the ASCII octets that are neither controls nor the space: each of them may occur in a start-line token
_FLIP = {"==": "!=", "!=": "==", "<": ">=", "<=": ">", ">": "<=", ">=": "<"}


def _octet_interval(t, rng=_ASCII):
    """Interval of an int expression over the element marker `$` when `$` is an octet in `rng` (a sub-range of the ASCII
    octets 0..127; interval domain; the interval of `$` itself is exact: every value in it is such an octet); None if the
    expression is not modelled.  Transfer rule for the mask: for 0 <= x and m >= 0, 0 <= x & m <= min(x, m); when m has
    none of the low seven bits set, x & m == 0 for every x <= 127 (known bits)."""
    if t == ELEM:
        return rng
    if t[0] == "const" and type(t[1]) is int:
        return t[1], t[1]
    if t[0] == "binop" and t[1] == "BitAnd":
        for a, b in ((t[2], t[3]), (t[3], t[2])):
            ia = _octet_interval(a, rng)
            if ia is not None and ia[0] >= 0 and b[0] == "const" and type(b[1]) is int and b[1] >= 0:
                return (0, 0) if b[1] & 127 == 0 and ia[1] <= 127 else (0, min(ia[1], b[1]))
    return None


def _octet_verdict(c, rng=_ASCII):
    """Does the condition `c` over the element marker hold for the octets in `rng`?  "T": for every one; "F": for none;
    "N": not for every one (some octet of the range fails it); None: not decided by the lemmas.
    Interval reasoning only (no octet is enumerated): a comparison of two intervals is decided when they do not overlap
    (resp. are the same point); when `$` itself is compared with a constant the interval of `$` is exact, so "not true
    for the whole interval" means that an octet of the range fails the test."""
    if c[0] == "const" and isinstance(c[1], bool):
        return "T" if c[1] else "F"
    iv = _octet_interval(c, rng)
    if iv is not None:
        # the truth value of an int: 0 is false, every other value true (an octet: NUL is false)
        return "F" if iv == (0, 0) else "T" if iv[0] > 0 or iv[1] < 0 else "N" if c == ELEM else None
    if c[0] == "not":
        v = _octet_verdict(c[1], rng)
        return {"T": "F", "F": "T"}.get(v)
    if c[0] in ("and", "or"):
        vs = [_octet_verdict(x, rng) for x in c[1]]
        strong, weak = ("F", "T") if c[0] == "and" else ("T", "F")
        if strong in vs:
            return strong
        if all(v == weak for v in vs):
            return weak
        if None in vs:
            return None
        return "N" if c[0] == "and" else None    # a conjunct that fails for some octet makes the conjunction fail for it
    if c[0] == "cmp" and c[1] in ("in", "not in") and c[2] == ELEM and c[3][0] == "call" and c[3][1] == "range" and not c[3][3] \
            and len(c[3][2]) in (1, 2) and all(a[0] == "const" and type(a[1]) is int for a in c[3][2]):
        # `$ in range(a, b)` is a <= $ < b
        lo, hi = (0, c[3][2][0][1]) if len(c[3][2]) == 1 else (c[3][2][0][1], c[3][2][1][1])
        v = _octet_verdict(("and", (("cmp", ">=", ELEM, ("const", lo)), ("cmp", "<", ELEM, ("const", hi)))), rng)
        return v if c[1] == "in" else {"T": "F", "F": "T"}.get(v)
    if c[0] == "cmp" and c[1] in _MIRROR:
        op, l, r = c[1], c[2], c[3]
        il, ir = _octet_interval(l, rng), _octet_interval(r, rng)
        if il is None or ir is None:
            return None
        exact = (l == ELEM and ir[0] == ir[1]) or (r == ELEM and il[0] == il[1]) or (il[0] == il[1] and ir[0] == ir[1])
        if op in (">", ">="):
            op, il, ir = _MIRROR[op], ir, il
        if op == "<":
            t, f = il[1] < ir[0], il[0] >= ir[1]
        elif op == "<=":
            t, f = il[1] <= ir[0], il[0] > ir[1]
        else:
            same = il[0] == il[1] == ir[0] == ir[1]
            apart = il[1] < ir[0] or ir[1] < il[0]
            t, f = (same, apart) if op == "==" else (apart, same)
        return "T" if t else "F" if f else "N" if exact else None
    return None


def _strip_codec(t):
    """(inner term, [codec steps outermost first]) - peel `.encode(..)`/`.decode(..)`/`str(x, enc)`/`bytes(x, enc)`, and an
    octet filter ("octets", x, c) whose condition holds for every ASCII octet (the start-line tokens of a message in the
    quantifier - method, ASCII path, percent-encoded query, version, status digits, reason - are ASCII, so such a filter
    returns an equal value, exactly like the `errors="ignore"` ASCII round trip it may replace)."""
    steps = []
    while True:
        if t[0] == "meth" and t[1] in ("encode", "decode"):
            steps.append((t[1], t[3], t[4]))
            t = t[2]
        elif t[0] == "octets" and _octet_verdict(t[2]) == "T":
            steps.append(("octets", (t[2],), ()))
            t = t[1]
        elif t[0] == "call" and t[1] in ("str", "bytes") and len(t[2]) >= 2:
            steps.append(("decode" if t[1] == "str" else "encode", t[2][1:], t[3]))
            t = t[2][0]
        else:
            return t, steps


def _show(t, depth=0):
    """Compact rendering of a term for details (never contains names of locals of the analysed code)."""
    if not isinstance(t, tuple) or not t:
        return repr(t)
    if depth > 6:
        return "..."
    h = t[0]
    s = lambda x: _show(x, depth + 1)
    if h == "param":
        return f"<{t[1]}>"
    if h == "const":
        return repr(t[1])
    if h == "global":
        return t[1]
    if h in ("partition", "rpartition"):
        return f"{s(t[1])}.{h}({s(t[2])})"
    if h == "part":
        return f"{s(t[2])}.{t[1]}({s(t[3])})[{t[4]}]"
    if h == "tuple":
        return "(" + ", ".join(s(x) for x in t[1:]) + ")"
    if h in ("item", "index"):
        return f"{s(t[1])}[{t[2] if h == 'item' else s(t[2])}]"
    if h == "slice":
        b = lambda x: s(x) if isinstance(x, tuple) and x != ("const", None) else "" if x is None or isinstance(x, tuple) else str(x)
        return f"{s(t[1])}[{b(t[2])}:{b(t[3])}" + (f":{b(t[4])}]" if b(t[4]) else "]")
    if h == "occ":
        return f"<index of the {'first' if t[1] == 'find' else 'last'} {s(t[3])} in {s(t[2])}, else its length>"
    if h == "meth":
        return f"{s(t[2])}.{t[1]}({', '.join([s(a) for a in t[3]] + [f'{k}={s(v)}' for k, v in t[4]])})"
    if h == "call":
        return f"{t[1]}({', '.join([s(a) for a in t[2]] + [f'{k}={s(v)}' for k, v in t[3]])})"
    if h == "ctor":
        return f"{t[1]}(...)"
    if h == "attr":
        return f"{s(t[2])}.{t[1]}"
    if h == "gen":
        return f"({s(t[2])} for $ in {s(t[1])})"
    if h == "map":
        return f"{{{s(t[2])}: {s(t[3])} for $ in {s(t[1])}}}" + (f" over initial {dict(t[4])!r}" if t[4] else "")
    if h == "filter":
        return f"<$ in {s(t[1])} if {s(t[2])}>"
    if h == "octets":
        return f"bytes(<octets $ of {s(t[1])} if {s(t[2])}>)"
    if h == "dict":
        return "{" + ", ".join(f"{s(k)}: {s(v)}" for k, v in t[1]) + "}"
    if h == "elem":
        return "$"
    if h == "iterelem":
        return f"<element of {s(t[1])}>"
    if h == "phi":
        return " | ".join(s(a) for a in t[1])
    if h == "cmp":
        return f"{s(t[2])} {t[1]} {s(t[3])}"
    if h == "not":
        return f"not {s(t[1])}"
    if h in ("and", "or"):
        return "(" + f" {h} ".join(s(x) for x in t[1]) + ")"
    if h == "binop":
        return f"({s(t[2])} {t[1]} {s(t[3])})"
    if h == "opaque":
        return f"?[{t[1]}]"
    return repr(t)


class _Sym:
    """Symbolic evaluation of expressions of one function (candidate for csverif.q: `value_term`)."""

    def __init__(self, ctx, f):
        self.ctx, self.f, self.fn = ctx, f, f.node
        self.cfg = ctx.cfg(f)
        self.fv = FuncView.of(f.node)
        self.params = params(f.node)
        self.locals = set(self.params) | {n.id for n in ast.walk(f.node) if isinstance(n, ast.Name) and isinstance(n.ctx, ast.Store)}
        self.ctor_nodes = []
        self._elem_loops = set()
        self._active = set()   # (name, id(def stmt)) under evaluation: loop-carried definitions are not unfolded

    # -------------------------------------------------------------------------------------------------- expressions
    def ev(self, e, at, env=None, depth=0):
        env = env or {}
        if e is None:
            return ("const", None)
        if depth > 30:
            return _opaque("definition chain too deep")
        if not isinstance(e, (ast.JoinedStr, ast.Name, ast.Attribute, ast.Call, ast.Subscript)):
            try:
                v = const_eval(e)
                if v is None or isinstance(v, (bytes, str, int, float, bool)):
                    return ("const", v)
            except (NotConst, TypeError):
                pass
        d1 = depth + 1
        if isinstance(e, ast.Name):
            return self._name(e, at, env, d1)
        if isinstance(e, ast.NamedExpr):
            return self.ev(e.value, at, env, d1)
        if isinstance(e, (ast.Tuple, ast.List)):
            if any(isinstance(x, ast.Starred) for x in e.elts):
                return _opaque("starred element")
            return ("tuple",) + tuple(self.ev(x, at, env, d1) for x in e.elts)
        if isinstance(e, ast.Dict):
            if any(k is None for k in e.keys):
                return _opaque("dict unpacking")
            return ("dict", tuple((self.ev(k, at, env, d1), self.ev(v, at, env, d1)) for k, v in zip(e.keys, e.values)))
        if isinstance(e, ast.Attribute):
            d = dotted(e)
            if d is not None and d.split(".")[0] not in self.locals and d.split(".")[0] not in env:
                return ("global", d)
            return ("attr", e.attr, self.ev(e.value, at, env, d1))
        if isinstance(e, ast.Subscript):
            base = self.ev(e.value, at, env, d1)
            if isinstance(e.slice, ast.Slice):
                parts = [self.ev(x, at, env, d1) if x is not None else ("const", None) for x in (e.slice.lower, e.slice.upper, e.slice.step)]
                # a bound merged from several definitions without a tracked selecting condition is not modelled
                parts = [_opaque("slice bound merged from several paths") if any(x and x[0] == "phi" for x in _subterms(p)) else p for p in parts]
                return _mk_slice_terms(base, *parts)
            idx = self.ev(e.slice, at, env, d1)
            if idx[0] == "const" and type(idx[1]) is int:
                return _mk_item(base, idx[1])
            return ("index", base, idx)
        if isinstance(e, ast.Call):
            return self._call(e, at, env, d1)
        if isinstance(e, ast.IfExp):
            return _mk_gated(self.ev(e.test, at, env, d1), self.ev(e.body, at, env, d1), self.ev(e.orelse, at, env, d1))
        if isinstance(e, ast.Compare):
            if len(e.ops) != 1 or type(e.ops[0]) not in _CMP:
                return _opaque("chained comparison")
            return ("cmp", _CMP[type(e.ops[0])], self.ev(e.left, at, env, d1), self.ev(e.comparators[0], at, env, d1))
        if isinstance(e, ast.UnaryOp) and isinstance(e.op, ast.Not):
            return ("not", self.ev(e.operand, at, env, d1))
        if isinstance(e, ast.BoolOp):
            return ("and" if isinstance(e.op, ast.And) else "or", tuple(self.ev(v, at, env, d1) for v in e.values))
        if isinstance(e, ast.BinOp):
            return ("binop", type(e.op).__name__, self.ev(e.left, at, env, d1), self.ev(e.right, at, env, d1))
        if isinstance(e, (ast.GeneratorExp, ast.ListComp, ast.DictComp)):
            return self._comp(e, at, env, d1)
        return _opaque(type(e).__name__)

    def _bind_target(self, tgt, base, out):
        """name -> term for a (possibly nested) assignment target bound to `base`; False if it has a starred part."""
        if isinstance(tgt, ast.Name):
            out[tgt.id] = base
            return True
        if isinstance(tgt, (ast.Tuple, ast.List)):
            ok = True
            for i, t in enumerate(tgt.elts):
                if isinstance(t, ast.Starred):
                    return False
                ok = self._bind_target(t, _mk_item(base, i), out) and ok
            return ok
        return True  # attribute / subscript targets bind no local

    def _comp(self, e, at, env, depth):
        if len(e.generators) != 1 or e.generators[0].is_async:
            return _opaque("comprehension with several generators")
        if any(_contains(v, ELEM) for v in env.values()) or self._elem_loops:
            return _opaque("nested comprehension")
        g = e.generators[0]
        it = self.ev(g.iter, at, env, depth)
        env2 = dict(env)
        if not self._bind_target(g.target, ELEM, env2):
            return _opaque("starred comprehension target")
        outs = [self.ev(x, at, env2, depth) for x in ((e.key, e.value) if isinstance(e, ast.DictComp) else (e.elt,))]
        if g.ifs:
            # `.. for x in it if c1 if c2`: the elements of `it` filtered by the conjunction
            it, outs = _filtered(it, [self.ev(c, at, env2, depth) for c in g.ifs], outs)
        if isinstance(e, ast.DictComp):
            return _mk_map(it, outs[0], outs[1])
        return _mk_gen(it, outs[0])

    def _call(self, e, at, env, depth):
        if any(isinstance(a, ast.Starred) for a in e.args) or any(k.arg is None for k in e.keywords):
            d = dotted(e.func)
            if d is not None and d.split(".")[0] not in self.locals and d.split(".")[0] not in env and self.ctx.rs.resolve_call(self.f, e).kind == "class":
                # a construction is the term ("ctor", class, n) whatever way its arguments are passed; the fields are
                # located separately (`_splat_fields`)
                return self._ctor(e, self.ctx.rs.resolve_call(self.f, e), d)
            return _opaque("call with * or ** arguments")
        args = tuple(self.ev(a, at, env, depth) for a in e.args)
        kwargs = tuple(sorted((k.arg, self.ev(k.value, at, env, depth)) for k in e.keywords))
        fnode = e.func
        d = dotted(fnode)
        head = d.split(".")[0] if d else None
        local_head = head is not None and (head in self.locals or head in env)
        if isinstance(fnode, ast.Attribute) and (d is None or local_head):
            recv = self.ev(fnode.value, at, env, depth)
            if fnode.attr in ("partition", "rpartition") and len(args) == 1 and not kwargs:
                return (fnode.attr, recv, args[0])
            return ("meth", fnode.attr, recv, args, kwargs)
        if d is None:
            return _opaque("call of a computed callee")
        if local_head:
            return _opaque("call of a local callable")
        cal = self.ctx.rs.resolve_call(self.f, e)
        if cal.kind == "class":
            return self._ctor(e, cal, d)
        if cal.kind in ("func", "struct"):
            return _opaque(f"call of package function {cal.fq}")
        name = (cal.fq if cal.kind == "external" and cal.fq and cal.fq != "?" else d).split(".")[-1]
        if name == "dict" and not args:
            # dict(a=x, b=y) is the display {"a": x, "b": y}
            return ("dict", tuple((("const", k), v) for k, v in ((k.arg, self.ev(k.value, at, env, depth)) for k in e.keywords)))
        if name == "dict" and not kwargs:
            if len(args) == 1:
                if args[0][0] in ("dict", "map"):
                    return args[0]
                return _mk_map(args[0], _mk_item(ELEM, 0), _mk_item(ELEM, 1))
        if name == "len" and len(args) == 1 and not kwargs and args[0][0] == "const" and isinstance(args[0][1], (bytes, str)):
            return ("const", len(args[0][1]))   # constant folding
        if name == "bytes" and len(args) == 1 and not kwargs and args[0][0] == "part":
            return args[0]   # bytes(<bytes>) is a copy of the same value
        if name == "bytes" and len(args) == 1 and not kwargs and args[0][0] in ("gen", "filter"):
            # bytes(o for o in X if c(o)) / bytes(filter(None, X)): iterating a bytes value yields its octets (ints 0..255)
            # and bytes() of an iterable of ints puts them back in order -> "the octets of X for which c holds"
            g = args[0] if args[0][0] == "gen" else ("gen", args[0], ELEM)
            if g[2] == ELEM:
                x, conds = _unfilter_terms(g[1])
                cond = ("const", True) if not conds else conds[0] if len(conds) == 1 else ("and", tuple(conds))
                # kept for every ASCII octet -> an exact term that `_strip_codec` peels; drops a visible ASCII character -> an
                # exact term that is not the value itself; anything else (only controls / the space dropped - whether they
                # can occur in a token is not judged -, or a condition outside the interval lemmas) is not modelled
                if _octet_verdict(cond) == "T" or _octet_verdict(cond, _VISIBLE) in ("F", "N"):
                    return ("octets", x, cond)
                return _opaque("octet filter that the interval lemmas neither show to keep every ASCII octet nor to drop a visible ASCII character")
        if name in ("list", "tuple", "iter") and len(args) == 1 and not kwargs and args[0][0] in ("gen", "tuple", "filter"):
            return args[0]
        if name == "filter" and len(args) == 2 and not kwargs:
            # filter(None, it) keeps the elements that are true; any other predicate is not modelled
            return _mk_filter(args[1], ELEM) if args[0] == ("const", None) else _opaque("filter() with a predicate function")
        return ("call", name, args, kwargs)

    def _ctor(self, e, cal, d):
        if not any(n is e for n in self.ctor_nodes):
            self.ctor_nodes.append(e)
        return ("ctor", (cal.fq or d).split(".")[-1], [i for i, n in enumerate(self.ctor_nodes) if n is e][0])

    # -------------------------------------------------------------------------------------------------------- names
    def _name(self, e, at, env, depth):
        name = e.id
        if name in env:
            return env[name]
        if name not in self.locals:
            return ("global", name)
        rd = reaching_defs(self.ctx, self.f, name, at)
        if not rd:
            return _opaque("local without a reaching definition")
        alts = []
        for st, v in rd:
            key = (name, id(st))
            if key in self._active:
                alts.append(_opaque("loop-carried definition"))
                continue
            self._active.add(key)
            try:
                alts.append(self._def_term(name, st, v, at, depth))
            finally:
                self._active.discard(key)
        if len(rd) == 2 and not any(_has_opaque(a) for a in alts):
            g = self._gate_of(name, rd, at)
            if g is not None:
                branch, i_true, i_false = g
                return _mk_gated(self.ev(branch.test, branch, {}, depth), alts[i_true], alts[i_false])
        return _mk_phi(alts)

    def _def_node(self, st):
        if st is self.fn:
            return ENTRY
        s = st if isinstance(st, ast.stmt) else self.fv.stmt_of(st)
        if s is None or not self.cfg.has(s):
            return None
        return self.cfg.edge_node(s, "iter") if isinstance(s, (ast.For, ast.AsyncFor)) else self.cfg.node(s)

    def _gate_of(self, name, rd, at):
        """Two definitions of `name` reach `at`: find the `if` statement I that selects between them, i.e. I dominates the
        use and, on every path from I to the use that does not come back to I, the last definition is the one (z) when the
        test was true and the other one (w) when it was false.  Returns (I, index of the true-side definition, index of
        the false-side definition) or None.  Pure CFG reasoning: dominance and path queries."""
        cfg = self.cfg
        use = self.fv.stmt_of(at)
        nodes = [self._def_node(st) for st, _v in rd]
        if use is None or not cfg.has(use) or None in nodes or nodes[0] == nodes[1]:
            return None
        u = cfg.node(use)
        if u in nodes:
            return None
        for branch in statements(self.fn):
            if not isinstance(branch, ast.If) or not cfg.has(branch):
                continue
            ni = cfg.node(branch)
            if ni == u or not cfg.dominates(ni, u):
                continue
            at_branch = [self._def_node(st) for st, _v in reaching_defs(self.ctx, self.f, name, branch)]

            def last_def_is(edge, z, w):
                # no path edge ->* use (not revisiting I) on which the other definition is the last one
                if w != ni and cfg.reaches(edge, w, avoiding=[ni]) and cfg.reaches(w, u, avoiding=[ni, z]):
                    return False
                if z == ni:
                    return True   # defined by the test itself (assignment expression)
                if not cfg.reaches(edge, u, avoiding=[z, ni]):
                    return True   # every such path executes z
                # z is the only definition that arrives at I, and it is not executed again between I and the use
                return at_branch == [z] and not (cfg.reaches(edge, z, avoiding=[ni]) and cfg.reaches(z, u, avoiding=[ni]))

            te, fe = cfg.edge_node(branch, "true"), cfg.edge_node(branch, "false")
            for x, y in ((0, 1), (1, 0)):
                if last_def_is(te, nodes[x], nodes[y]) and last_def_is(fe, nodes[y], nodes[x]):
                    return branch, x, y
        return None

    def _def_term(self, name, st, v, at, depth):
        if st is self.fn:
            return ("param", name)
        if v is not None:
            dst = st if isinstance(st, ast.stmt) else self.fv.stmt_of(st)
            if isinstance(v, ast.Dict) or (isinstance(v, ast.Call) and dotted(v.func) == "dict" and "dict" not in self.locals and not v.args and all(k.arg is not None for k in v.keywords)):
                return self._dict_build(name, dst, v, at, depth)
            return self.ev(v, dst, {}, depth)
        out = {}
        if isinstance(st, ast.Assign):
            base = self.ev(st.value, st, {}, depth)
            for t in st.targets:
                if not self._bind_target(t, base, out):
                    return _opaque("starred unpacking")
        elif isinstance(st, ast.For):
            base = ELEM if id(st) in self._elem_loops else ("iterelem", self.ev(st.iter, st, {}, depth))
            if not self._bind_target(st.target, base, out):
                return _opaque("starred unpacking")
        return out.get(name, _opaque("binding form not modelled"))

    def _dict_build(self, name, dst, v, at, depth):
        """A local bound to a dict display: the display itself if it is never written to on the way to `at`; the
        canonical `map` if it is filled by one unconditional `d[k] = v` in one simple for-loop; opaque otherwise."""
        init = self.ev(v, dst, {}, depth)
        use = self.fv.stmt_of(at)
        cfg = self.cfg
        if use is None or not cfg.has(use) or not cfg.has(dst):
            return init
        sites = []
        for n in body_walk(self.fn):
            if isinstance(n, ast.Subscript) and isinstance(n.ctx, (ast.Store, ast.Del)) and isinstance(n.value, ast.Name) and n.value.id == name:
                sites.append(n)
            elif isinstance(n, ast.Call) and isinstance(n.func, ast.Attribute) and isinstance(n.func.value, ast.Name) and n.func.value.id == name and n.func.attr in _DICT_MUTATORS:
                sites.append(n)
        rel = []
        if not isinstance(use, (ast.Return, ast.Raise)):
            # the mapping is stored somewhere at `use` (an alias: another local, an item of a display that is splatted later)
            # and execution goes on: a write after `use` would change what the alias holds -> not modelled
            for n in sites:
                s = self.fv.stmt_of(n)
                if s is not None and s is not use and cfg.has(s) and cfg.reaches(cfg.node(use), cfg.node(s)) and not any(x is s for x in self.fv.ancestors(at)):
                    return _opaque("mapping written to after the point where it is read")
        for n in sites:
            s = self.fv.stmt_of(n)
            if s is not None and cfg.has(s) and cfg.reaches(cfg.node(dst), cfg.node(s)) and (s is use or cfg.reaches(cfg.node(s), cfg.node(use))):
                rel.append((n, s))
        if not rel:
            return init
        if len(rel) != 1 or init[0] != "dict":
            return _opaque("mapping written to in several places")
        n, s = rel[0]
        if not (isinstance(s, ast.Assign) and len(s.targets) == 1 and s.targets[0] is n):
            return _opaque("mapping modified by something else than one item assignment")
        lp = self.fv.enclosing(s, (ast.For, ast.AsyncFor, ast.While))
        if not isinstance(lp, ast.For) or lp.orelse or self.fv.enclosing(lp, (ast.For, ast.AsyncFor, ast.While)) is not None:
            return _opaque("item assignment outside a simple for-loop")
        inner = [x for b in lp.body for x in ast.walk(b)]
        if any(isinstance(x, (ast.Break, ast.Return, ast.For, ast.AsyncFor, ast.While, ast.Try, ast.With, ast.AsyncWith, ast.Match)) for x in inner):
            return _opaque("filling loop with break/return or nested blocks other than `if`")
        if any(x is lp for x in self.fv.ancestors(use)) or not cfg.dominates(cfg.node(dst), cfg.node(s)):
            return _opaque("mapping used inside its filling loop, or filled without passing its initialisation")
        conds = self._store_conditions(dst, lp, s, inner)
        if conds is None:
            return _opaque("item assignment not selected by a conjunction of branch conditions")
        self._elem_loops.add(id(lp))
        try:
            outs = [self.ev(n.slice, s, {}, depth), self.ev(s.value, s, {}, depth)]
            cts = [t if pol else _neg(t) for t, pol in ((self.ev(I.test, I, {}, depth), pol) for I, pol in conds)]
        finally:
            self._elem_loops.discard(id(lp))
        it, outs = _filtered(self.ev(lp.iter, lp, {}, depth), cts, outs)
        return _mk_map(it, outs[0], outs[1], init[1])

    def _store_conditions(self, dst, lp, s, inner):
        """[(if statement, polarity)] such that, once the initialisation `dst` has run, the store `s` in loop `lp` is
        executed for an element exactly when all these tests have the given outcome - or None if the store is not
        selected by such a conjunction.  CFG reasoning only: an `if` reachable from `dst` is *selecting* when exactly one
        of its edges can still reach the store (within the same iteration, if it is inside the loop); every selecting
        `if` must dominate the store through that edge.  Then (the region is acyclic apart from the loop itself and has
        no other branching statement) following the reaching edge of every selecting `if` always arrives at the store,
        and taking the other edge of any of them never does.  `if c: continue`, `if c: <store>`, nested and
        early-`continue` forms, and an `if` around the whole loop are all instances."""
        cfg = self.cfg
        hdr, sn, dn = cfg.node(lp), cfg.node(s), cfg.node(dst)
        out = []
        for I in statements(self.fn):
            if not isinstance(I, ast.If) or not cfg.has(I) or not cfg.reaches(dn, cfg.node(I)):
                continue
            avoid = [hdr] if any(x is I for x in inner) else []
            te, fe = cfg.edge_node(I, "true"), cfg.edge_node(I, "false")
            rt, rf = cfg.reaches(te, sn, avoiding=avoid), cfg.reaches(fe, sn, avoiding=avoid)
            if rt == rf:
                continue
            if not cfg.dominates(te if rt else fe, sn):
                return None
            out.append((I, rt))
        return sorted(out, key=lambda c: (c[0].lineno, c[0].col_offset))


# ------------------------------------------------------------------------------------------------------ judgement
def _judge(term, pred):
    """'ok' if every alternative of the term satisfies pred; 'bad' if one that is fully understood does not;
    'und' if the failing alternatives contain parts the evaluator cannot model."""
    bad = [a for a in _alts(term) if not pred(a)]
    if not bad:
        return "ok"
    return "bad" if any(not _has_opaque(a) for a in bad) else "und"


def _worst(*vs):
    return "bad" if "bad" in vs else "und" if "und" in vs else "ok"


def _emit(ctx, rule, kind, f, text, verdict, ok_detail, bad_detail, node=None):
    if verdict == "und":
        ctx.undecided(rule, kind, f, text, "the value is computed in a way the symbolic evaluation does not model: " + bad_detail, node)
    else:
        ctx.ob(rule, kind, f, text, verdict == "ok", ok_detail if verdict == "ok" else bad_detail, node)


def _atoms(t, pol):
    """Flatten a condition term holding with polarity `pol` into (atom, polarity) facts."""
    if t[0] == "not":
        yield from _atoms(t[1], not pol)
    elif (t[0] == "and" and pol) or (t[0] == "or" and not pol):
        for x in t[1]:
            yield from _atoms(x, pol)
    else:
        yield t, pol


def _is_ws_split(t):
    """tokens = <line>[.rstrip()/.strip()/.lstrip()].split() (whitespace split); returns the line term or None."""
    if t[0] == "meth" and t[1] == "split" and not t[4] and (not t[3] or t[3] == (("const", None),)):
        line = t[2]
        while line[0] == "meth" and line[1] in ("rstrip", "strip", "lstrip") and not line[3] and not line[4]:
            line = line[2]
        return line
    return None


def _is_split(t):
    return t[0] == "meth" and t[1] in ("split", "rsplit")


def _sep_split(t):
    """t == x.split(s[, k]) / x.rsplit(s[, k]) (k also as `maxsplit=`) with a non-empty constant separator s and, if given, a
    constant k -> (x, s, k) with k None for "no limit" (absent, None or negative); None for any other term."""
    if not (_is_split(t) and t[3] and t[3][0][0] == "const" and isinstance(t[3][0][1], (bytes, str)) and t[3][0][1]) or len(t[3]) > 2:
        return None
    kw = dict(t[4])
    if set(kw) - {"maxsplit"} or (len(t[3]) == 2 and kw):
        return None
    k = t[3][1] if len(t[3]) == 2 else kw.get("maxsplit", ("const", -1))
    if not (k[0] == "const" and type(k[1]) is int):
        return None
    return t[2], t[3][0], (k[1] if k[1] >= 0 else None)


def _understood_test(t):
    """A condition made of constants, slices, comparisons and bytes methods only (no library/helper call whose meaning
    the rules do not know)."""
    return not any(s and s[0] in ("call", "global", "opaque", "index", "ctor", "attr") for s in _subterms(t))


def _len_fact(atom, pol):
    """(sequence term, lo, hi) established by `len(T) <op> k` holding with polarity pol; None if not such a test."""
    if atom[0] != "cmp" or atom[1] not in _MIRROR:
        return None
    op, l, r = atom[1], atom[2], atom[3]
    if l[0] == "const" and r[0] != "const":
        op, l, r = _MIRROR[op], r, l
    if not (l[0] == "call" and l[1] == "len" and len(l[2]) == 1 and r[0] == "const" and type(r[1]) is int):
        return None
    k = r[1]
    if not pol:
        op = {"==": "!=", "!=": "==", "<": ">=", "<=": ">", ">": "<=", ">=": "<"}[op]
    lo, hi = {"==": (k, k), "!=": (None, None), "<": (None, k - 1), "<=": (None, k), ">": (k + 1, None), ">=": (k, None)}[op]
    return l[2][0], lo, hi


def _prefix_test(atom, lines):
    """Case-insensitive `HTTP/` prefix test on one of the start-line terms: True if the atom holds exactly when the line
    has the prefix, False if it holds exactly when the line does not have it (`!=` form), None if it is no such test."""
    def folded(t, want):
        # <line>.upper() / .lower() ; want = the constant compared with
        return t[0] == "meth" and t[1] in ("upper", "lower") and not t[3] and not t[4] and want == getattr(b"HTTP/", t[1])()

    if atom[0] == "meth" and atom[1] == "startswith" and len(atom[3]) == 1 and not atom[4] and atom[3][0][0] == "const":
        r = atom[2]
        return True if folded(r, atom[3][0][1]) and r[2] in lines else None
    if atom[0] == "cmp" and atom[1] in ("in", "not in") and atom[3][0] == "tuple" and len(atom[3]) == 2:
        atom = ("cmp", "==" if atom[1] == "in" else "!=", atom[2], atom[3][1])   # membership in a one-element display
    if atom[0] == "cmp" and atom[1] in ("==", "!="):
        sign = atom[1] == "=="
        l, r = atom[2], atom[3]
        if l[0] == "const":
            l, r = r, l
        if r[0] != "const" or not isinstance(r[1], bytes):
            return None
        if folded(l, r[1]):
            inner = l[2]
            if inner[0] == "slice" and inner[2] in (None, 0) and inner[3] == 5 and inner[4] in (None, 1) and inner[1] in lines:
                return sign
        if l[0] == "slice" and l[2] in (None, 0) and l[3] == 5 and l[4] in (None, 1):
            if folded(l[1], r[1]) and l[1][2] in lines:
                return sign
    return None


def _ext_name(ctx, f, call):
    """Last segment of the (import-resolved) name of a called library function."""
    d = dotted(call.func)
    if d is None:
        return None
    try:
        cal = ctx.rs.resolve_call(f, call)
    except Exception:  # pragma: no cover
        cal = None
    if cal is not None and cal.kind == "external" and cal.fq and cal.fq != "?":
        return cal.fq.split(".")[-1]
    if cal is not None and cal.kind in ("func", "class", "struct"):
        return None
    return d.split(".")[-1]


def _fields_of(ctx, cls_fq):
    try:
        cd = ctx.repo.cls(cls_fq)
    except Exception:
        return []
    return [st.target.id for st in cd.body if isinstance(st, ast.AnnAssign) and isinstance(st.target, ast.Name)]


def _field(ctx, call, kind, name):
    """The argument expression bound to NamedTuple field `name` (keyword or positional)."""
    v = kwarg(call, name)
    if v is not None:
        return v
    if any(isinstance(a, ast.Starred) for a in call.args) or any(k.arg is None for k in call.keywords):
        return None
    order = _fields_of(ctx, f"c2.{kind}")
    if name in order and order.index(name) < len(call.args):
        return call.args[order.index(name)]
    return None


_HSEP = b": "


def _unfilter(it):
    """(base iterable, [(atom, polarity) of every filter condition around it])."""
    facts = []
    while it[0] == "filter":
        facts.extend(_atoms(it[2], True))
        it = it[1]
    return it, facts


def _keeps_header_lines(atom, pol, subjects):
    """True if the condition `atom` (holding with polarity `pol`) is implied by "the subject contains a line of the form
    key + b': ' + value", so that a filter made of it drops no header line.  `subjects` are the terms this is known for:
    the line itself (`$`) and the header block it is a piece of.  Lemmas, for x containing b': ': x is not empty and
    len(x) >= 2; every non-empty piece of b': ' occurs in x (find() >= 0, `in`, a true separator component of partition);
    x is not whitespace only (it contains b':'), so x.strip() is not empty and x.isspace() is false; x differs from every
    constant that does not contain b': '."""
    if atom[0] in ("or", "and") and pol == (atom[0] == "or"):
        # a disjunction holds as soon as one disjunct does
        return any(all(_keeps_header_lines(a, p, subjects) for a, p in _atoms(d, pol)) for d in atom[1])
    g = _occurrence_test(atom if pol else ("not", atom))
    if g is not None:
        return g[2] and g[0] in subjects and isinstance(g[1][1], bytes) and g[1][1] in _HSEP
    t = atom
    while t[0] == "meth" and t[1] in ("strip", "lstrip", "rstrip") and not t[3] and not t[4]:
        t = t[2]
    if t in subjects:
        return pol
    if atom[0] == "meth" and atom[1] == "isspace" and atom[2] in subjects and not atom[3]:
        return not pol
    if atom[0] == "part" and atom[2] in subjects and atom[4] == 1 and atom[3][0] == "const" and isinstance(atom[3][1], bytes) and atom[3][1] and atom[3][1] in _HSEP:
        return pol
    if atom[0] == "cmp" and atom[1] in _MIRROR:
        op, l, r = atom[1:4]
        if l[0] == "const" and r[0] != "const":
            op, l, r = _MIRROR[op], r, l
        if not pol:
            op = {"==": "!=", "!=": "==", "<": ">=", "<=": ">", ">": "<=", ">=": "<"}[op]
        if l in subjects and r[0] == "const" and isinstance(r[1], bytes):
            return op == "!=" and _HSEP not in r[1]
        if l[0] == "call" and l[1] == "len" and len(l[2]) == 1 and l[2][0] in subjects and r[0] == "const" and type(r[1]) is int:
            # holds for every length >= 2
            return (op == ">" and r[1] <= 1) or (op == ">=" and r[1] <= 2) or (op == "!=" and r[1] < 2)
    return False


# ---- the case "the header block is empty", in an emptiness / length domain.  Values: "E" an empty bytes/str value, "N" a
# non-empty one, ("seq", (v, ..)) a sequence whose length is known (elements abstract, possibly None), ("val", c) an
# int/bool/None, None = unknown.  No data is chosen: the only input of the evaluation is the fact "this term is empty".
_SAME_EMPTY = {"strip", "lstrip", "rstrip", "lower", "upper", "decode", "encode", "title", "capitalize", "swapcase", "casefold", "expandtabs", "replace", "translate"}
_FALSE_ON_EMPTY = {"isspace", "isalpha", "isdigit", "isalnum", "isupper", "islower", "istitle"}


def _abs(t, env, elem=None):
    if t in env:
        return env[t]
    h = t[0]
    if h == "elem":
        return elem
    if h == "const":
        return ("E" if not t[1] else "N") if isinstance(t[1], (bytes, str)) else ("val", t[1])
    if h == "phi":
        vs = [_abs(a, env, elem) for a in t[1]]
        return vs[0] if all(v == vs[0] for v in vs) else None
    if h == "part":
        return "E" if _abs(t[2], env, elem) == "E" else None     # every component of a partition of nothing is empty
    if h in ("partition", "rpartition"):
        return ("seq", ("E", "E", "E")) if _abs(t[1], env, elem) == "E" else None
    if h == "tuple":
        return ("seq", tuple(_abs(x, env, elem) for x in t[1:]))
    if h == "item":
        b = _abs(t[1], env, elem)
        if b and b[0] == "seq" and type(t[2]) is int and -len(b[1]) <= t[2] < len(b[1]):
            return b[1][t[2]]
        return None
    if h == "slice":
        b = _abs(t[1], env, elem)
        if b == "E":
            return "E"      # a slice of an empty value is empty
        bounds = [x[1] if isinstance(x, tuple) and x[0] == "const" else x for x in t[2:5]]
        if b and b[0] == "seq" and all(x is None or type(x) is int for x in bounds) and bounds[2] != 0:
            return ("seq", b[1][bounds[0]:bounds[1]:bounds[2]])
        return None
    if h == "meth":
        name, recv, args, kw = t[1], _abs(t[2], env, elem), t[3], dict(t[4])
        if name in ("split", "rsplit"):
            sep = args[0] if args else kw.get("sep", ("const", None))
            if recv != "E":
                return None
            if sep == ("const", None):
                return ("seq", ())          # lemma: whitespace split of an empty value has no piece
            if sep[0] == "const" and isinstance(sep[1], (bytes, str)) and sep[1]:
                return ("seq", ("E",))      # lemma: b"".split(sep) == [b""] - one empty piece, never an empty list
            return None
        if name == "splitlines":
            return ("seq", ()) if recv == "E" else None      # lemma: b"".splitlines() == []
        if name in _SAME_EMPTY:
            return "E" if recv == "E" else "N" if recv == "N" and name in ("lower", "upper", "swapcase") else None
        if name in ("startswith", "endswith") and recv == "E" and len(args) == 1:
            a = _abs(args[0], env, elem)
            return ("val", False) if a == "N" else ("val", True) if a == "E" else None
        if name in ("find", "rfind") and recv == "E" and len(args) == 1 and _abs(args[0], env, elem) == "N":
            return ("val", -1)
        if name == "count" and recv == "E" and len(args) == 1 and _abs(args[0], env, elem) == "N":
            return ("val", 0)
        if name in _FALSE_ON_EMPTY and recv == "E":
            return ("val", False)
        return None
    if h == "call":
        name, args = t[1], t[2]
        a = _abs(args[0], env, elem) if len(args) == 1 and not t[3] else None
        if name == "len" and a is not None:
            return ("val", 0) if a == "E" else ("val", len(a[1])) if a[0] == "seq" else None
        if name in ("list", "tuple", "iter", "sorted", "reversed") and a is not None and a[0] == "seq" and (len(a[1]) <= 1 or name in ("list", "tuple", "iter")):
            return a
        if name == "bool":
            v = _truth(args[0], env, elem) if len(args) == 1 else None
            return None if v is None else ("val", v)
        return None
    if h == "filter":
        b = _abs(t[1], env, elem)
        if not (b and b[0] == "seq"):
            # a guard that does not depend on the element and fails leaves nothing to iterate over
            return ("seq", ()) if not _contains(t[2], ELEM) and _truth(t[2], env, elem) is False else None
        keep = [(_truth(t[2], env, v), v) for v in b[1]]
        return None if any(k is None for k, _v in keep) else ("seq", tuple(v for k, v in keep if k))
    if h == "gen":
        b = _abs(t[1], env, elem)
        return ("seq", tuple(_abs(t[2], env, v) for v in b[1])) if b and b[0] == "seq" else None
    if h in ("cmp", "not", "and", "or"):
        v = _truth(t, env, elem)
        return None if v is None else ("val", v)
    return None


def _truth(t, env, elem=None):
    """Three-valued truth of a condition term in the emptiness domain."""
    h = t[0]
    if h == "not":
        v = _truth(t[1], env, elem)
        return None if v is None else not v
    if h in ("and", "or"):
        vs = [_truth(x, env, elem) for x in t[1]]
        if h == "and":
            return False if False in vs else None if None in vs else True
        return True if True in vs else None if None in vs else False
    if h == "cmp":
        op, l, r = t[1], _abs(t[2], env, elem), _abs(t[3], env, elem)
        if l is None or r is None:
            return None
        if op in ("in", "not in"):
            # lemma: a non-empty value does not occur in an empty one; the empty value occurs in every value
            res = False if (l, r) == ("N", "E") else True if l == "E" and r in ("E", "N") else None
            return None if res is None else res == (op == "in")
        if op in ("is", "is not"):
            # a bytes value or a sequence is not None
            res = False if (l in ("E", "N") or l[0] == "seq") and r == ("val", None) else None
            return None if res is None else res == (op == "is")
        if op in ("==", "!="):
            if l in ("E", "N") and r in ("E", "N"):
                res = True if l == r == "E" else False if l != r else None
            elif l[0] == "val" and r[0] == "val":
                res = l[1] == r[1]
            else:
                res = None
            return None if res is None else res == (op == "==")
        if l[0] == "val" and r[0] == "val" and type(l[1]) is int and type(r[1]) is int:
            return {"<": l[1] < r[1], "<=": l[1] <= r[1], ">": l[1] > r[1], ">=": l[1] >= r[1]}.get(op)
        return None
    v = _abs(t, env, elem)
    if v is None:
        return None
    return False if v == "E" else True if v == "N" else len(v[1]) > 0 if v[0] == "seq" else bool(v[1])


def _path_shape(a):
    """How a request-path term obtains the path from the request target: (kind, target term) with kind one of
    "urlsplit" (`.path` of urlsplit), "urlparse" (`.path` of urlparse alone), "rejoin" (urlparse's path with its
    `;params` put back), "cut" (the target up to its first `?`); None if it is none of them."""
    if a[0] == "attr" and a[1] in ("path", "path;params") and a[2][0] == "call" and a[2][1] in ("urlparse", "urlsplit") and a[2][2]:
        if a[1] == "path":
            return a[2][1], a[2][2][0]
        return ("rejoin", a[2][2][0]) if a[2][1] == "urlparse" else None
    if a[0] == "item" and a[2] == 2 and a[1][0] == "call" and a[1][1] in ("urlparse", "urlsplit") and a[1][2]:
        return a[1][1], a[1][2][0]      # element 2 of both result tuples is `.path`
    if a[0] == "part" and a[1] == "partition" and a[4] == 0 and a[3] in (("const", b"?"), ("const", "?")):
        return "cut", a[2]
    return None


def _query_shape(q):
    """The query of the request target: `.query` of a urlparse/urlsplit result, or what follows the first `?` -> target."""
    if q[0] == "attr" and q[1] == "query" and q[2][0] == "call" and q[2][1] in ("urlparse", "urlsplit") and q[2][2]:
        return q[2][2][0]
    if q[0] == "item" and q[1][0] == "call" and q[1][2] and (q[1][1], q[2]) in (("urlparse", 4), ("urlsplit", 3)):
        return q[1][2][0]               # `.query` is element 4 of a ParseResult and element 3 of a SplitResult
    if q[0] == "part" and q[1] == "partition" and q[4] == 2 and q[3] in (("const", b"?"), ("const", "?")):
        return q[2]
    return None


def run(ctx):
    rep = ctx.rep
    rep.explanation = (
        "Static analysis of c2.parse_raw_http by symbolic evaluation (flow-sensitive reaching definitions, partition components - "
        "also when spelled as find() with a fall-back to the length plus slicing -, "
        "tuple packing, loops/comprehensions/dict() normalised to one mapping form): every constructed message gets the tail after "
        "the first CRLFCRLF of the unmodified argument as body (fields are located by keyword, position or as items of a "
        "constant-key display splatted with **), the start line is the first CRLF-component of the head, its "
        "whitespace tokens are only unpacked under a dominating length-3 fact and are bound to the like-named fields (the request "
        "target re-coded or passed through an octet filter that keeps every ASCII octet - interval domain - only), "
        "response/request construction is selected by the case-insensitive HTTP/ prefix, the header map is built from the "
        "': '-partition of each remaining head line (skipping at most lines that are no `key: value` line), in the case of an empty "
        "header block (emptiness domain) no entry is stored, the request path is the complete path component of the target "
        "(urlsplit, not urlparse which cuts `;parameters` off), and the exception-escape set of the function is a subset of ValueError."
    )
    rep.not_decided = ["percent-decoding details (parse_qsl semantics)", "duplicate headers",
                       "repeated query parameter names (a parameter map has each name once): with parse_qs, taking the first or the last value of a name's list are both accepted",
                       "header lines that are not of the `key: value` form (outside the quantifier; R5 lets a filter drop them)",
                       "request targets with a fragment `#` or a leading `//` (not legal in a request path, outside the quantifier): how urlsplit/urlparse or a cut at `?` treat them is not judged",
                       "under the urlparse re-join spelling, a last path segment ending in a bare `;` (empty `.params`): the re-join is accepted as the complete path"]
    rep.trusted_base = ["CPython ast", "bytes.partition/split/splitlines/find/slicing semantics (incl. b''.split(sep) == [b''], at most maxsplit + 1 pieces)", "iteration over bytes yields its octets and bytes(<ints>) rebuilds them", "urllib.parse (urlsplit keeps `;params` in .path, urlparse moves them to .params; parse_qsl; parse_qs == the parse_qsl pairs grouped by name in first-occurrence order, values in pair order)"]
    f = ctx.repo.func("c2.parse_raw_http")
    cfg = ctx.cfg(f)
    fv = FuncView.of(f.node)
    S = _Sym(ctx, f)
    if not params(f.node):
        ctx.undecided("R1", "AGREE", f, "constructors", "the parser takes no positional argument")
        return
    data = params(f.node)[0]
    DATA = ("param", data)
    HEAD = ("part", "partition", DATA, ("const", CRLF + CRLF), 0)
    BODY = ("part", "partition", DATA, ("const", CRLF + CRLF), 2)
    FL = ("part", "partition", HEAD, ("const", CRLF), 0)
    REST = ("part", "partition", HEAD, ("const", CRLF), 2)

    # ---- the constructions (located by resolved class)
    ctors = {"HttpResponse": [], "HttpRequest": []}
    for c in fn_calls(f.node):
        d = dotted(c.func)
        if d is None or d.split(".")[0] in S.locals:
            continue
        cal = ctx.rs.resolve_call(f, c)
        name = (cal.fq or d).split(".")[-1] if cal.kind == "class" else None
        if name in ctors:
            ctors[name].append(c)
    counts = {k: len(v) for k, v in ctors.items()}
    if not all(counts.values()):
        ctx.undecided("R1", "AGREE", f, "constructors", f"no direct construction of both message classes in the parser any more: {counts}")
        if not any(counts.values()):
            return
    else:
        ctx.ob("R1", "AGREE", f, "constructors", True, f"HttpResponse and HttpRequest constructions found: {counts}")

    def fld(c, kind, name):
        """Term of the argument bound to field `name` of construction `c` (keyword, positional, or an item of a mapping
        display splatted with `**`); None if it cannot be located."""
        e = _field(ctx, c, kind, name)
        if e is not None:
            return S.ev(e, fv.stmt_of(c))
        if any(isinstance(a, ast.Starred) for a in c.args):
            return None
        # `**M`: M must evaluate to a display whose keys are all constant strings (`{"headers": h, ..}` / `dict(headers=h, ..)`,
        # never written to before the call): then `K(.., **M)` passes exactly `key=value` for its items (definition of `**`)
        for k in c.keywords:
            if k.arg is None:
                m = S.ev(k.value, fv.stmt_of(c))
                if m[0] != "dict" or not all(kt[0] == "const" and isinstance(kt[1], str) for kt, _v in m[1]):
                    return None
                hit = [v for kt, v in m[1] if kt[1] == name]
                if hit:
                    return hit[-1]      # a repeated key of a display: the last item wins
        order = _fields_of(ctx, f"c2.{kind}")
        if name in order and order.index(name) < len(c.args):
            return S.ev(c.args[order.index(name)], fv.stmt_of(c))
        return None

    # ---- R1 body
    for kind, cs in ctors.items():
        for c in cs:
            t = fld(c, kind, "body")
            if t is None:
                ctx.undecided("R1", "AGREE", f, f"{kind}(body=...)", "the body argument of the construction cannot be located", c)
                continue
            v = _judge(t, lambda a: a == BODY)
            _emit(ctx, "R1", "AGREE", f, f"{kind}(body=...)", v,
                  f"body is the third component of <{data}>.partition(b'\\r\\n\\r\\n') of the argument as received (first occurrence), passed through no call",
                  f"body of {kind} is {_show(t)}: not the untouched tail of the raw message after the first CRLFCRLF", c)

    # ---- roles: the token sequences the start-line fields are taken from
    tokens = []   # distinct token-sequence terms

    def tok_of(t, idx):
        """t == <T>[idx]: remember T and return it."""
        if t[0] == "item" and t[2] == idx:
            if t[1] not in tokens:
                tokens.append(t[1])
            return t[1]
        return None

    for c in ctors["HttpResponse"]:
        st_t, rs_t = fld(c, "HttpResponse", "status"), fld(c, "HttpResponse", "reason")
        if st_t is None or rs_t is None:
            ctx.undecided("R3", "AGREE", f, "HttpResponse(status, reason)", "the status/reason arguments of the construction cannot be located", c)
            continue
        seen = []

        def p_status(a):
            if a[0] == "call" and a[1] == "int" and len(a[2]) == 1 and not a[3]:
                T = tok_of(_strip_codec(a[2][0])[0], 1)
                if T is not None:
                    seen.append(T)
                    return True
            return False

        def p_reason(a):
            T = tok_of(a, 2)
            if T is not None:
                seen.append(T)
            return T is not None

        vs, vr = _judge(st_t, p_status), _judge(rs_t, p_reason)
        same = len({repr(x) for x in seen}) <= 1
        v = _worst(vs, vr) if same else "bad"
        _emit(ctx, "R3", "AGREE", f, "HttpResponse(status, reason)", v,
              "status = int(<second token of the start line>); reason = third token of the same split",
              f"status = {_show(st_t)} (int of the second token: {vs == 'ok'}); reason = {_show(rs_t)} (third token: {vr == 'ok'}); same token sequence: {same}", c)
    for c in ctors["HttpRequest"]:
        m_t, u_t, p_t = (fld(c, "HttpRequest", n) for n in ("method", "uri", "params"))
        if m_t is None or u_t is None or p_t is None:
            ctx.undecided("R3", "AGREE", f, "HttpRequest(method, uri, params)", "the method/uri/params arguments of the construction cannot be located", c)
            continue
        seen, parses = [], []

        def p_method(a):
            T = tok_of(a, 0)
            if T is not None:
                seen.append(T)
            return T is not None

        def p_uri(a):
            sh = _path_shape(_strip_codec(a)[0])
            if sh is not None:
                target = _strip_codec(sh[1])[0]
                T = tok_of(target, 1)
                if T is not None:
                    seen.append(T)
                    parses.append(target)
                    return True
            return False

        def p_params(a):
            # a mapping built from parse_qsl(<the same urlparse result>.query) pairs and from nothing else
            if a[0] != "map" or a[4]:
                return False
            it, k, v = a[1], _strip_codec(a[2])[0], _strip_codec(a[3])[0]
            if not (it[0] == "call" and it[1] == "parse_qsl" and it[2]):
                return False
            target = _query_shape(_strip_codec(it[2][0])[0])
            if target is None:
                return False
            parses.append(_strip_codec(target)[0])
            return k == _mk_item(ELEM, 0) and v == _mk_item(ELEM, 1)

        # pairs of parse_qsl dropped by a condition: whether the condition can fail for a pair is parse_qsl semantics -> not modelled
        # the name -> [values] grouping of parse_qs consumed in another way than the forms of `_qs_grouped`: which value of a
        # list is taken is not modelled either
        p_t = _mk_phi([_opaque("parse_qsl pairs filtered by a condition") if a[0] == "map" and a[1][0] == "filter" and _unfilter(a[1])[0][:2] == ("call", "parse_qsl") else
                       _opaque("parse_qs grouping consumed in a way the parse_qs/parse_qsl lemma does not cover") if any(_is_parse_qs(s) for s in _subterms(a)) else a
                       for a in _alts(p_t)])
        vm, vu, vp = _judge(m_t, p_method), _judge(u_t, p_uri), _judge(p_t, p_params)
        same = len({repr(x) for x in seen}) <= 1 and len({repr(x) for x in parses}) <= 1
        v = _worst(vm, vu, vp) if same else "bad"
        _emit(ctx, "R3", "AGREE", f, "HttpRequest(method, uri, params)", v,
              "method = first token; uri = the path component of the request target (= second token, re-coded only) as split off by urlsplit/urlparse or "
              "at the first `?`; params = mapping of the parse_qsl pairs of the query component of that same target",
              f"method = {_show(m_t)} (first token: {vm == 'ok'}); uri = {_show(u_t)} (path component of <second token>: {vu == 'ok'}); params = {_show(p_t)} "
              f"(parse_qsl pairs of the query component: {vp == 'ok'}); one token sequence and one target: {same}", c)
        # ---- R10: the path is the *complete* path component of the target
        def path_kind(a):
            sh = _path_shape(_strip_codec(a)[0])
            return None if sh is None else sh[0]

        kinds = [path_kind(a) for a in _alts(u_t)]
        if any(k == "urlparse" for k in kinds):
            ctx.ob("R10", "API", f, "request path", False,
                   f"the request path is {_show(u_t)}: `.path` of urllib.parse.urlparse() alone. urlparse() cuts `;parameters` off the last path segment into "
                   "`.params` (documented; `;` is a legal path character, RFC 3986 pchar), so a target such as /a;b?x=1 yields the path /a instead of /a;b. "
                   "urlsplit() keeps them in `.path`", c)
        elif all(k is not None for k in kinds):
            ctx.ob("R10", "API", f, "request path", True,
                   "the request path is the complete path component of the target: " + ", ".join(sorted({
                       {"urlsplit": "`.path` of urlsplit() (which does not split `;parameters` off)", "rejoin": "`.path` of urlparse() with its `.params` put back behind a `;`",
                        "cut": "the target up to its first `?`"}[k] for k in kinds})), c)
        else:
            ctx.undecided("R10", "API", f, "request path", f"the request path is {_show(u_t)}: not obtained from the target in one of the ways the rule can classify "
                          "(`.path` of urlsplit/urlparse, urlparse path re-joined with `.params`, split at the first `?`)", c)

    # ---- R1 first_line: every token sequence is the whitespace split of the first CRLF-component of the head
    lines = [FL]
    if not tokens:
        ctx.undecided("R1", "AGREE", f, "first_line", "no start-line token sequence could be located from the constructor fields")
    for T in tokens:
        for a in _alts(T):
            l = _is_ws_split(a)
            if l is not None and l not in lines:
                lines.append(l)
        v = _judge(T, lambda a: _is_ws_split(a) == FL)
        _emit(ctx, "R1", "AGREE", f, "first_line", v,
              "start-line tokens = whitespace split of head.partition(b'\\r\\n')[0], head = the part of the argument before the first CRLFCRLF",
              f"the start-line tokens are {_show(T)}: not the whitespace split of the first CRLF-component of the head before the first CRLFCRLF")

    # ---- R2: every fixed-arity consumption of a split result is dominated by a matching length fact
    def facts_at(st):
        """(atom term, polarity) facts established by the branch edges (and enclosing conditional expressions) that dominate st."""
        out = []
        for _txt, pol, test in dominating_conditions(ctx, f, st):
            owner = fv.stmt_of(test)
            if owner is None or not cfg.has(owner):
                continue   # synthetic mirrored node: its original is listed as well
            out.extend(_atoms(S.ev(test, owner), pol))
        return out

    def cond_facts(c):
        """facts_at the statement of expression node c, plus the tests of the conditional expressions c is an arm of."""
        st = fv.stmt_of(c)
        out = facts_at(st)
        child = c
        for anc in fv.ancestors(c):
            if isinstance(anc, ast.stmt):
                break
            if isinstance(anc, ast.IfExp) and child is not anc.test:
                out.extend(_atoms(S.ev(anc.test, st), child is anc.body))
            child = anc
        return out

    def len_range(st, T, at=None):
        lo = hi = None
        facts = cond_facts(at) if at is not None else facts_at(st)
        if all(a[0] == "meth" and a[1] in ("split", "rsplit") and a[3] and a[3][0] != ("const", None) for a in _alts(T)):
            lo = 1   # lemma: splitting at an explicit separator yields at least one piece (only whitespace split can yield none)
            seps = [_sep_split(a) for a in _alts(T)]
            if None not in seps:
                # lemma: x.split(s, k) / x.rsplit(s, k) with k >= 0 cuts at most k times: at most k + 1 pieces
                if all(k is not None for _x, _s, k in seps):
                    hi = max(k for _x, _s, k in seps) + 1
                # lemma: where the non-empty s occurs in x, a split at s that may cut at least once yields at least two
                # pieces; where it does not occur, the split is [x]: one piece
                for atom, pol in facts:
                    g = _occurrence_test(atom if pol else ("not", atom))
                    if g is not None and all((x, sp) == g[:2] for x, sp, _k in seps):
                        if not g[2]:
                            hi = 1
                        elif all(k is None or k >= 1 for _x, _s, k in seps):
                            lo = 2
        for atom, pol in facts:
            lf = _len_fact(atom, pol)
            if lf is not None and lf[0] == T:
                if lf[1] is not None:
                    lo = lf[1] if lo is None else max(lo, lf[1])
                if lf[2] is not None:
                    hi = lf[2] if hi is None else min(hi, lf[2])
        return lo, hi

    def converts_unpack_error(st, must_raise=True):
        """EAFP form of the length test: the unpacking is directly in the body of a `try` whose handler for ValueError (or a
        base class of it) ends by raising ValueError (`must_raise`), resp. exists at all."""
        tr = fv.parent.get(id(st))
        if not isinstance(tr, ast.Try) or not any(b is st for b in tr.body):
            return False
        for h in tr.handlers:
            names = [None] if h.type is None else [(dotted(t) or "").split(".")[-1] for t in (h.type.elts if isinstance(h.type, ast.Tuple) else [h.type])]
            if any(n in (None, "ValueError", "Exception", "BaseException") for n in names):
                last = h.body[-1] if h.body else None
                if not must_raise and not isinstance(last, ast.Raise):
                    return True
                return isinstance(last, ast.Raise) and (last.exc is None or raise_class(last) == "ValueError")
        return False

    sites = 0
    for st in statements(f.node):
        if isinstance(st, ast.Assign) and isinstance(st.targets[0], (ast.Tuple, ast.List)) and not isinstance(st.value, (ast.Tuple, ast.List)):
            T = S.ev(st.value, st)
            if not any(_is_split(a) for a in _alts(T)):
                continue
            sites += 1
            n = len(st.targets[0].elts)
            star = any(isinstance(x, ast.Starred) for x in st.targets[0].elts)
            lo, hi = len_range(st, T)
            ok = (lo is not None and lo >= n - 1) if star else (lo == hi == n)
            start_line = any(_is_ws_split(a) is not None for a in _alts(T))
            # the tokens of the start line: a wrong number of them must end in the parser's ValueError; the pieces of any
            # other split: the failed unpacking must not escape (what the handler computes instead is judged by R1/R5)
            eafp = not ok and not star and converts_unpack_error(st, must_raise=start_line)
            ctx.ob("R2", "DOM", f, f"unpack of the start-line tokens into {n}" if start_line else f"unpack of the pieces of a separator split into {n}", ok or eafp,
                   f"the unpacking of {_show(T)} into {n} names is " + (("inside a try whose ValueError handler raises the parser's ValueError" if start_line else "inside a try that handles the ValueError of a failed unpacking")
                                                                       if eafp else f"dominated by length facts {lo}..{hi}")
                   + ("" if ok or eafp else ": a start line with another number of parts is not rejected with the parser's ValueError before it" if start_line else
                      f": nothing before it establishes that the split has exactly {n} pieces (lemmas: at most maxsplit + 1 pieces; at least two where the separator is known to occur)"), st)
    for n in body_walk(f.node):
        if isinstance(n, ast.Subscript) and isinstance(n.ctx, ast.Load) and not isinstance(n.slice, ast.Slice):
            i = _c(n.slice)
            st = fv.stmt_of(n)
            if type(i) is not int or st is None or not cfg.has(st):
                continue
            T = S.ev(n.value, st)
            if not any(_is_split(a) for a in _alts(T)):
                continue
            sites += 1
            lo, hi = len_range(st, T, n)
            ok = lo is not None and (lo > i if i >= 0 else lo >= -i)
            what = "start-line token" if all(_is_ws_split(a) is not None for a in _alts(T)) else "piece of a separator split"
            ctx.ob("R2", "DOM", f, f"{what} [{i}]", ok, f"the access to element {i} of {_show(T)} is dominated by length facts {lo}..{hi}", n)
    if sites:
        ctx.rep.count("start_line_unpacks", sites, floor=2)
    else:
        ctx.undecided("R2", "DOM", f, "unpack of the start-line tokens", "no unpacking or indexing of a whitespace-split start line found")
    for r in cfg.raise_stmts():
        if r.exc is None:
            continue   # re-raise inside a handler: covered by the escape set (R6)
        ctx.ob("R2", "EXIT", f, src(r)[:50], raise_class(r) == "ValueError", f"malformed start line raises {raise_class(r)}", r)

    # ---- R4: the kind of message constructed is selected by the case-insensitive HTTP/ prefix of the start line
    for kind, want in (("HttpResponse", True), ("HttpRequest", False)):
        for c in ctors[kind]:
            facts = cond_facts(c)
            # polarity of the fact "the start line has the prefix": a `!=` atom holding with polarity p states it with not p
            pref = [pol == _prefix_test(a, lines) for a, pol in facts if _prefix_test(a, lines) is not None]
            others = [a for a, pol in facts if _prefix_test(a, lines) is None and _len_fact(a, pol) is None and any(_contains(a, l) for l in lines)]
            where = "under" if want else "outside"
            if want in pref and (not want) not in pref:
                ctx.ob("R4", "AGREE", f, f"return {kind}", True, f"{kind} is constructed {where} the case-insensitive `HTTP/` prefix test on the start line", c)
            elif pref:
                ctx.ob("R4", "AGREE", f, f"return {kind}", False, f"{kind} is constructed on the wrong side of the `HTTP/` prefix test on the start line", c)
            elif any(_understood_test(a) for a in others):
                ctx.ob("R4", "AGREE", f, f"return {kind}", False,
                       f"{kind} is selected by {[_show(a) for a in others]} instead of the case-insensitive `HTTP/` prefix of the start line", c)
            else:
                ctx.undecided("R4", "AGREE", f, f"return {kind}", f"no branch condition the rules understand selects the {kind} construction on the start line (conditions: {[_show(a) for a, _p in facts]})", c)
    for r in cfg.return_stmts():
        t = S.ev(r.value, r)
        v = _judge(t, lambda a: a[0] == "ctor" and a[1] in ctors)
        kinds = sorted({a[1] for a in _alts(t) if a[0] == "ctor"}) or ["<other>"]
        _emit(ctx, "R4", "EXIT", f, "returns a parsed message", v, f"returns {'/'.join(kinds)}", f"returns {_show(t)}: not an HttpRequest/HttpResponse built here", r)
    ctx.ob("R4", "EXIT", f, "falls off end", not cfg.falls_off_end(), "never returns None")

    # ---- R3 headers / R5: the header map
    LINES = ("meth", "split", REST, (("const", CRLF),), ())

    def v_lines(t):
        """ok: every alternative is a map built over rest-of-head.split(CRLF), possibly skipping lines / guarded by conditions
        that no `key: value` line (resp. no block containing one) fails; und: built over those lines but with a skip
        condition the lemmas of `_keeps_header_lines` do not cover, or not modelled; bad: built over something else."""
        res = []
        for a in _alts(t):
            base, facts = _unfilter(a[1]) if a[0] == "map" else (None, [])
            if base != LINES:
                res.append("und" if _has_opaque(a) else "bad")
            elif all(_keeps_header_lines(at, pol, (ELEM, REST)) for at, pol in facts):
                res.append("ok")
            else:
                res.append("und")
        return _worst(*res)

    hmaps = []
    for kind, cs in ctors.items():
        for c in cs:
            t = fld(c, kind, "headers")
            if t is None:
                ctx.undecided("R3", "AGREE", f, f"{kind}(headers=headers)", "the headers argument of the construction cannot be located", c)
                continue
            if t not in hmaps:
                hmaps.append(t)
            v = v_lines(t)
            _emit(ctx, "R3", "AGREE", f, f"{kind}(headers=headers)", v, "headers bound to the map built over the CRLF-separated lines of the head after the start line",
                  f"headers of {kind} is {_show(t)}: not a map built over rest-of-head.split(b'\\r\\n') that skips at most lines which are no `key: value` line", c)
    key_t = ("part", "partition", ELEM, ("const", b": "), 0)
    val_t = ("part", "partition", ELEM, ("const", b": "), 2)
    for t in hmaps:
        vi = v_lines(t)
        vk = _judge(t, lambda a: a[0] == "map" and a[2] == key_t and a[3] == val_t)
        _emit(ctx, "R5", "AGREE", f, "header lines", _worst(vi, vk),
              "header lines = rest-of-head.split(b'\\r\\n'); each partitioned at the first b': '; stored key -> value in line order",
              f"header map is {_show(t)}: lines = rest-of-head.split(b'\\r\\n')={vi == 'ok'}; key/value = the components before/after the first b': ' of each line={vk == 'ok'}")
        if all(a[0] == "map" for a in _alts(t)):
            ok = all(not a[4] for a in _alts(t))
            ctx.ob("R5", "AGREE", f, "headers = {}", ok, "header map starts empty (insertion order preserved)" if ok else f"header map does not start empty: {_show(t)}")
    if not hmaps:
        ctx.undecided("R5", "AGREE", f, "header lines", "no header map reaches a construction")

    # ---- R9: a message without header lines has the empty header map.  Case "the header block (rest of the head after the
    # start line) is empty", evaluated in the emptiness/length domain of `_abs`: the sequence the map is built over must
    # have no element left when it reaches the store
    CASE = {REST: "E", DATA: "N", HEAD: "N", FL: "N"}   # no header line; the start line (three tokens) is never empty
    for t in hmaps:
        res, why = [], []
        for a in _alts(t):
            if a[0] == "dict":
                n = len(a[1])
            elif a[0] == "map":
                v = _abs(a[1], CASE)
                n = None if not (v and v[0] == "seq") else len(v[1]) + len(a[4])
                if n:
                    base, facts = _unfilter(a[1])
                    vb = _abs(base, CASE)
                    why.append(f"{_show(base)} has {len(vb[1]) if vb and vb[0] == 'seq' else 'some'} piece(s) for an empty block"
                               + (f" and the condition(s) {[('' if p else 'not ') + _show(x) for x, p in facts]} do not skip an empty line" if facts else " and nothing skips an empty line")
                               + (f"; the map starts with {len(a[4])} entries" if a[4] else ""))
            else:
                n = None
            res.append("und" if n is None else "bad" if n else "ok")
        v = _worst(*res)
        if v == "und":
            ctx.undecided("R9", "ABS", f, "empty header block", f"the header map is {_show(t)}: what it is built over when the header block is empty cannot be determined in the emptiness domain")
        else:
            ctx.ob("R9", "ABS", f, "empty header block", v == "ok",
                   "when the header block is empty no entry is stored: the lines iterated over are none, or the one empty piece of split(<separator>) is skipped before the store" if v == "ok" else
                   f"a message without header lines (empty header block) gets a header entry instead of the empty map: the map is {_show(t)}; " + "; ".join(why) +
                   " (lemma: b''.split(sep) == [b''], one empty piece, never an empty list) - the entry {b'': b''} is stored")

    # ---- R6
    effects.check_escape(ctx, "R6", ["c2.parse_raw_http"], {"ValueError"})

    # ---- R7 [API]: percent-decoding must be able to produce every byte value. urllib's parse_qsl on *bytes* decodes the
    # query as ASCII, unquotes as UTF-8 and re-encodes the result as ASCII: any parameter that decodes to a non-ASCII byte
    # raises UnicodeEncodeError. A necessary condition for "any key/value bytes" is therefore that the query is parsed as
    # text with a single-byte codec (encoding="latin-1", then encoded back) or with unquote_to_bytes.
    def codec_ok(t):
        return t is not None and t[0] == "const" and isinstance(t[1], str) and t[1].lower().replace("_", "-") in _CODEC_LATIN1

    qs = [c for c in fn_calls(f.node) if _ext_name(ctx, f, c) in ("parse_qsl", "parse_qs")]
    for c in qs:
        enc = kwarg(c, "encoding") or (c.args[3] if len(c.args) > 3 and not any(isinstance(a, ast.Starred) for a in c.args) else None)
        et = S.ev(enc, fv.stmt_of(c)) if enc is not None else None
        ok = codec_ok(et)
        if not ok and et is not None and _has_opaque(et):
            ctx.undecided("R7", "API", f, "parse_qsl(query)", f"the `encoding=` argument {src(enc)} is not a constant the evaluation can determine", c)
            continue
        ctx.ob("R7", "API", f, "parse_qsl(query)", ok, "query parsed as text with a single-byte codec: every percent-encoded byte value survives" if ok else
               "parse_qsl is applied without a single-byte `encoding=`: with a bytes query the result is re-encoded as ASCII, so a parameter such as ?q=caf%C3%A9 raises UnicodeEncodeError instead of yielding its bytes", c)
    # the decoded text is turned back into bytes with that same single-byte codec
    for c in ctors["HttpRequest"]:
        p_t = fld(c, "HttpRequest", "params")
        for a in _alts(p_t) if p_t is not None else []:
            if a[0] == "map" and a[1][0] == "call" and a[1][1] == "parse_qsl":
                encs = [s for x in (a[2], a[3]) for s in _strip_codec(x)[1][:1] if s[0] == "encode"]
                if encs:
                    def enc_of(s):
                        return s[1][0] if s[1] else dict(s[2]).get("encoding", ("const", "utf-8"))
                    ok = all(codec_ok(enc_of(s)) for s in encs)
                    ctx.ob("R7", "API", f, "parameters re-encoded with the parsing codec", ok,
                           "names and values are encoded back with the single-byte codec they were parsed with" if ok else
                           f"names/values are encoded back with {[_show(enc_of(s)) for s in encs]}: bytes >= 0x80 do not survive the round trip", c)
    ub = [c for c in fn_calls(f.node) if _ext_name(ctx, f, c) in ("unquote_to_bytes", "unquote", "unquote_plus")]
    if not qs and not ub:
        if any(_has_opaque(fld(c, "HttpRequest", "params") or _opaque("missing")) for c in ctors["HttpRequest"]):
            ctx.undecided("R7", "API", f, "query decoding", "no library percent-decoder is called in the parser itself; the parameters are computed elsewhere")
        else:
            ctx.ob("R7", "API", f, "query decoding", False, "no percent-decoding of the query found")
    # percent-decoding happens once, in the query parser, after the target has been split: decoding earlier turns
    # escaped delimiters (%26 %3D %23 %2B) into live ones and decodes literal percent signs twice
    if qs:
        ctx.ob("R7", "API", f, "percent-decoding applied once", not ub,
               "parse_qsl is the only percent-decoder" if not ub else f"additional percent-decoding besides parse_qsl: {[src(c)[:40] for c in ub]}", (ub or qs)[0])

    # ---- R8: every call builds fresh result objects (the header/parameter maps are mutable and callers write into
    # them, e.g. HttpDataTransform.transform): the parser must not be wrapped by a caching decorator
    decs = f.node.decorator_list
    if not decs:
        ctx.ob("R8", "API", f, "undecorated parser", True, "no decorator: each parse returns new objects", f.node)
    for d in decs:
        name = (dotted(d.func if isinstance(d, ast.Call) else d) or "").split(".")[-1].lower()
        if "cache" in name or "memo" in name:
            ctx.ob("R8", "API", f, "undecorated parser", False, f"parser is wrapped by {src(d)}: results (holding mutable maps) may be shared between calls", f.node)
        else:
            ctx.undecided("R8", "API", f, "undecorated parser", f"parser is wrapped by {src(d)}, whose effect on the identity of the results is not known", f.node)

