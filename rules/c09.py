"""C09 - The XorEncoded file view is a faithful read-only file (structural part)."""

from __future__ import annotations

import ast

from csverif.absint import SymPoly, sympoly
from csverif.astutil import pmatch, find_match, assignments_to, body_walk, compare_parts, const_eval, dotted, fn_calls, is_const, kwarg, NotConst, params, src, statements, strip_cast
from csverif.cfg import ENTRY, EXIT
from csverif.q import FuncView, dominating_conditions, guarded_by, origin, raise_class, specialise


def _c(node):
    try:
        return const_eval(node) if node is not None else None
    except (NotConst, TypeError):
        return None


H = SymPoly.atom("self.nonce_offset") + SymPoly.const(8)


def _expand(fn, e, depth=0):
    def subst(x):
        if depth > 6:
            return None
        if isinstance(x, ast.Name) and x.id not in params(fn):
            defs = [v for st, v in assignments_to(fn, x.id)]
            if len(defs) == 1 and defs[0] is not None:
                return _expand(fn, defs[0], depth + 1)
        return None
    return sympoly(e, subst)


def run(ctx):
    rep = ctx.rep
    rep.explanation = (
        "Static analysis of xordecode.py: the header length is compared as a polynomial (nonce_offset + 8) across tell(), "
        "seek(SEEK_SET), the cursor after __init__, the size relation of iter_nonce_offsets and the first-word boundary of "
        "read_nonce; read() is checked for read accounting (every path returns exactly the bytes it consumed: either the "
        "whole decoded data, or a truncation preceded by a relative give-back seek of n - len(data); n == 0 consumes nothing); "
        "the rolling key chains on ciphertext; detection returns a candidate only after the MZ validation and a rewind."
    )
    rep.not_decided = ["plaintext equality for all seek/read histories", "most_common ordering of candidates"]
    rep.trusted_base = ["CPython ast", "networkx dominators", "SymPoly normal form"]
    r1(ctx)
    r2(ctx)
    r3(ctx)
    r4(ctx)
    # automatic detection relies on the marker scan: the scanner obligations of C15 are necessary conditions here
    from rules import c15

    ctx.import_obligations("R5", c15.scanner_obligations, "")


def r1(ctx):
    tell = ctx.repo.func("xordecode.XorEncodedFile.tell")
    rets = [s for s in statements(tell.node) if isinstance(s, ast.Return)]
    p = _expand(tell.node, rets[0].value) if len(rets) == 1 else None
    want = SymPoly.atom("self.fh.tell()") - H
    ctx.ob("R1", "CURSOR", tell, "return " + (src(rets[0].value) if rets else "?"), p == want, f"tell() = {p}; required raw position - (nonce_offset + 8)")
    seek = ctx.repo.func("xordecode.XorEncodedFile.seek")
    ps = params(seek.node)
    off, wh = ps[1], ps[2]
    calls = [c for c in fn_calls(seek.node) if dotted(c.func) == "self.fh.seek"]
    set_ok = other_ok = False
    for c in calls:
        conds = dominating_conditions(ctx, seek, c)
        is_set = any(pol and t in (f"{wh} == io.SEEK_SET", f"{wh} == 0", f"{wh} == os.SEEK_SET") for t, pol, n in conds)
        a = sympoly(c.args[0]) if c.args else None
        w = c.args[1] if len(c.args) > 1 else kwarg(c, "whence")
        if is_set:
            set_ok = a == SymPoly.atom(off) + H and (w is None or dotted(w) == wh or dotted(w) == "io.SEEK_SET")
            ctx.ob("R1", "CURSOR", seek, src(c), set_ok, f"seek(SEEK_SET) moves the raw file to {a}; required offset + (nonce_offset + 8)", c)
        else:
            other_ok = a == SymPoly.atom(off) and dotted(w) == wh
            ctx.ob("R1", "CURSOR", seek, src(c), other_ok, f"relative/end seeks are forwarded unchanged={other_ok}", c)
    ctx.ob("R1", "CURSOR", seek, "both whence classes handled", set_ok and other_ok and len(calls) == 2, f"{len(calls)} underlying seeks (one for SEEK_SET, one forwarding)")
    rets = [s for s in statements(seek.node) if isinstance(s, ast.Return)]
    init = ctx.repo.func("xordecode.XorEncodedFile.__init__")
    ops = []
    for c in fn_calls(init.node):
        if dotted(c.func) == "self.fh.seek":
            ops.append(("seek", sympoly(c.args[0])))
        elif dotted(c.func) == "self.fh.read":
            ops.append(("read", _c(c.args[0])))
    pos = None
    ok = True
    for kind, v in ops:
        if kind == "seek":
            pos = v
        elif pos is not None and isinstance(v, int):
            pos = pos + SymPoly.const(v)
        else:
            ok = False
    ctx.ob("R1", "CURSOR", init, "cursor after __init__", ok and pos == H, f"raw cursor after the constructor is {pos}; required nonce_offset + 8 (logical position 0)")
    st = {dotted(s.targets[0]): s.value for s in statements(init.node) if isinstance(s, ast.Assign)}
    names = [k for k, v in st.items() if isinstance(v, ast.Call) and dotted(v.func) == "self.fh.read"]
    ctx.ob("R1", "AGREE", init, "initial_nonce, nonced_filesize", names == ["self.initial_nonce", "self.nonced_filesize"], f"the two header words are stored as {names}")
    ino = ctx.repo.func("xordecode.iter_nonce_offsets")
    ok = False
    detail = "no `decoded_size + i + 8 == real_size` relation"
    # roles: i = the scan variable (for-target over range), D = the decoded size (u32 of the XOR of the two header words),
    # T = the total size (the function's second parameter)
    loopv = [dotted(s2.target) for s2 in statements(ino.node) if isinstance(s2, ast.For) and isinstance(s2.iter, ast.Call) and dotted(s2.iter.func) == "range"]
    total = params(ino.node)[1]
    dvar = None
    ds_ok = False
    for s2 in statements(ino.node):
        if isinstance(s2, ast.Assign) and isinstance(s2.value, ast.Call) and isinstance(s2.targets[0], ast.Name):
            cal = ctx.rs.resolve_call(ino, s2.value)
            a0 = origin(ino.node, s2.value.args[0]) if s2.value.args else None
            if cal.kind == "func" and cal.func.fq == "utils.unpack" and isinstance(a0, ast.Call) and ctx.rs.resolve_call(ino, a0).fq == "utils.xor":
                dvar = s2.targets[0].id
                x = a0
                # both XOR operands are the two consecutive 4-byte reads of this iteration
                ops = [origin(ino.node, a) for a in x.args]
                two_reads = len(ops) == 2 and all(isinstance(o, ast.Call) and isinstance(o.func, ast.Attribute) and o.func.attr == "read" and _c(o.args[0]) == 4 for o in ops) and ops[0] is not ops[1]
                ds_ok = two_reads and _c(cal.bound.get("size")) == 4 and (_c(cal.bound.get("byteorder")) or "little") == "little"
    for n in body_walk(ino.node):
        if isinstance(n, ast.Compare) and isinstance(n.ops[0], ast.Eq) and dvar and loopv:
            l, r = sympoly(n.left), sympoly(n.comparators[0])
            if l is not None and r is not None:
                diff = l - r
                want = SymPoly.atom(dvar) + SymPoly.atom(loopv[0]) + SymPoly.const(8) - SymPoly.atom(total)
                if diff == want or diff == -want:
                    ok = True
                    detail = f"size relation {src(n)}: header length 8 agrees with tell/seek"
                else:
                    detail = f"size relation {src(n)} = {diff}; required <decoded size> + <offset> + 8 - <total size>"
    ctx.ob("R1", "CURSOR", ino, "size relation", ok, detail)
    ctx.ob("R1", "AGREE", ino, "decoded_size = u32(xor(nonce, size))", bool(ds_ok), "size dword is un-XORed with the nonce (the two 4-byte words read at the candidate) and read little-endian" if ds_ok else "decoded size is not u32-le(xor(<nonce word>, <size word>))")
    rn = ctx.repo.func("xordecode.XorEncodedFile.read_nonce")
    ok1 = ok2 = False
    posv = [dotted(s2.targets[0]) for s2 in statements(rn.node) if isinstance(s2, ast.Assign) and src(s2.value) == "self.fh.tell()"]
    posv = posv[0] if posv else "pos"
    for n in body_walk(rn.node):
        for l, op, r in compare_parts(n):
            if isinstance(op, ast.Lt) and dotted(l) == posv:
                ok1 = ok1 or sympoly(r) == H + SymPoly.const(4)
    for s2 in statements(rn.node):
        if isinstance(s2, ast.Assign) and sympoly(s2.value) == SymPoly.atom(posv) - H:
            ok2 = True
    ctx.ob("R1", "CURSOR", rn, "first-word boundary", ok1 and ok2, f"initial nonce used while pos < nonce_offset + 12={ok1}; offset within the first word = pos - (nonce_offset + 8)={ok2}")


def r2(ctx):
    f = ctx.repo.func("xordecode.XorEncodedFile.read")
    cfg = ctx.cfg(f)
    fv = FuncView.of(f.node)
    n = params(f.node)[1]
    reads = [c for c in fn_calls(f.node) if dotted(c.func) == "self.fh.read"]
    # (a) n == 0 consumes nothing
    spec0 = specialise(cfg, {f"{n} == 0": True, f"{n} > 0": False, f"{n} != 0": False, n: False, f"{n} == -1": False, f"{n} < 0": False, f"{n} is None": False})
    reach = [c for c in reads if spec0.reaches(ENTRY, cfg.node(fv.stmt_of(c)))]
    nonce_calls = [c for c in fn_calls(f.node) if dotted(c.func) == "self.read_nonce" and spec0.reaches(ENTRY, cfg.node(fv.stmt_of(c)))]
    ctx.ob("R2", "CURSOR", f, "read(0) consumes nothing", not reach, "with n == 0 no underlying read is reachable" if not reach else
           f"with n == 0 the underlying file is still read ({[src(c) for c in reach]}): read(0) drains the file and returns b''", f.node)
    # (b) every return gives back what it does not return
    acc = None
    for st in statements(f.node):
        if isinstance(st, ast.AugAssign) and isinstance(st.op, ast.Add) and isinstance(st.value, ast.Call) and ctx.rs.resolve_call(f, st.value).fq == "utils.xor":
            acc = dotted(st.target)
    if acc is None:
        ctx.ob("R2", "CURSOR", f, "accumulator", False, "no `data += xor(chunk, nonce)` accumulator found")
        return
    givebacks = []
    for c in fn_calls(f.node):
        if dotted(c.func) == "self.fh.seek" and len(c.args) == 2 and (dotted(c.args[1]) or "").endswith("SEEK_CUR"):
            e = sympoly(c.args[0])
            want = SymPoly.atom(n) - SymPoly.atom(f"len({acc})")
            if e == want:
                givebacks.append(c)
    for r in cfg.return_stmts():
        v = r.value
        vo = v
        trunc = None
        # follow `data = data[:n]` rebinding
        if isinstance(v, ast.Subscript) and isinstance(v.slice, ast.Slice) and dotted(v.value) == acc:
            trunc = v
            tr_node = cfg.node(r)
        elif dotted(v) == acc:
            for st, val in assignments_to(f.node, acc):
                if isinstance(val, ast.Subscript) and isinstance(val.slice, ast.Slice) and dotted(val.value) == acc and cfg.reaches(cfg.node(st), cfg.node(r)):
                    trunc = val
                    tr_node = cfg.node(st)
        if isinstance(_c(v), bytes) and len(_c(v)) == 0:
            ctx.ob("R2", "CURSOR", f, "return " + src(v), True, "returns nothing", r, nontrivial=False)
            continue
        if trunc is None:
            ok = dotted(v) == acc
            ctx.ob("R2", "CURSOR", f, "return " + src(v), ok, "returns everything it consumed" if ok else f"returns {src(v)}: not the accumulated data", r)
            continue
        # truncated: a give-back seek of n - len(data) must precede the truncation on every path where something is cut
        upper = trunc.slice.upper
        ok = bool(givebacks) and dotted(upper) == n and trunc.slice.lower is None
        if ok:
            gnodes = [cfg.node(fv.stmt_of(g)) for g in givebacks]
            # every path from entry to the truncation on which len(data) may exceed n passes a give-back:
            # we require the give-back to dominate the truncation, or both to sit under the same `len(data) > n` guard
            same_guard = any(cfg.dominates(gn, tr_node) for gn in gnodes)
            ok = same_guard
        ctx.ob("R2", "CURSOR", f, "return " + src(v) + " [truncated]", ok,
               "the truncation to n bytes is preceded by a relative seek of n - len(data): the surplus of the last 4-byte word is given back" if ok else
               f"returns {src(trunc)} after consuming whole 4-byte words without giving the surplus back: read(3) leaves tell() == 4 and the next read skips a byte", r)
    # negative / None n: read to the end and return everything (no truncation with a negative bound)
    for r in cfg.return_stmts():
        pass


def r3(ctx):
    f = ctx.repo.func("xordecode.XorEncodedFile.read")
    loop = [s for s in statements(f.node) if isinstance(s, ast.While)]
    if not loop:
        ctx.ob("R3", "AGREE", f, "decode loop", False, "no while loop in read()")
        return
    w = loop[0]
    xors = [c for c in ast.walk(w) if isinstance(c, ast.Call) and ctx.rs.resolve_call(f, c).fq == "utils.xor"]
    ok = len(xors) == 1 and len(xors[0].args) == 2 and all(isinstance(a, ast.Name) for a in xors[0].args)
    CH, NO = (xors[0].args[0].id, xors[0].args[1].id) if ok else ("chunk", "nonce")
    ch = [v for st, v in assignments_to(f.node, CH)]
    ok = ok and len(ch) == 1 and src(ch[0]) == "self.fh.read(4)"
    ctx.ob("R3", "AGREE", f, "xor(chunk, nonce)", ok, "each 4-byte ciphertext word is XORed with the current nonce" if ok else "decode step is not xor(<4-byte read>, nonce)")
    nd = [(st, v) for st, v in assignments_to(f.node, NO)]
    inloop = [(st, v) for st, v in nd if any(st is x for x in ast.walk(w))]
    first = [(st, v) for st, v in nd if not any(st is x for x in ast.walk(w))]
    chain = len(inloop) == 1 and dotted(inloop[0][1]) == CH
    cfg = ctx.cfg(f)
    fv = FuncView.of(f.node)
    after = chain and xors and cfg.reaches(cfg.node(fv.stmt_of(xors[0])), cfg.node(inloop[0][0]), avoiding=[cfg.node(w)])
    ctx.ob("R3", "AGREE", f, "nonce = chunk", bool(chain and after), "the next nonce is the previous CIPHERTEXT word, set after it was used" if chain and after else
           f"rolling key update is {[src(v) for st, v in inloop]} (must be the ciphertext word `chunk`, after the xor)")
    ok = len(first) == 1 and isinstance(first[0][1], ast.Call) and dotted(first[0][1].func) == "self.read_nonce"
    ctx.ob("R3", "AGREE", f, "nonce = self.read_nonce()", ok, "the first nonce comes from the 4 bytes before the current position" if ok else "initial nonce is not read_nonce()")
    rn = ctx.repo.func("xordecode.XorEncodedFile.read_nonce")
    uses = [n for n in body_walk(rn.node) if dotted(n) == "self.initial_nonce"]
    back = [c for c in fn_calls(rn.node) if dotted(c.func) == "self.fh.seek" and _c(c.args[0]) == -4]
    rd = [c for c in fn_calls(rn.node) if dotted(c.func) == "self.fh.read" and _c(c.args[0]) == 4]
    ctx.ob("R3", "AGREE", rn, "previous ciphertext word / initial nonce", bool(uses) and len(back) == 1 and len(rd) == 1,
           f"reads the 4 bytes before the position (seek -4 / read 4)={len(back) == 1 and len(rd) == 1}; uses initial_nonce in the first word={bool(uses)}")
    # position restored: seek(-4) + read(4) is net zero
    ctx.ob("R3", "CURSOR", rn, "net cursor movement", len(back) == len(rd), "read_nonce leaves the cursor where it was")


def r4(ctx):
    f = ctx.repo.func("xordecode.XorEncodedFile.from_file")
    cfg = ctx.cfg(f)
    fv = FuncView.of(f.node)
    fh, mr = params(f.node)[1], params(f.node)[2]
    nn = [c for c in fn_calls(f.node) if ctx.rs.resolve_call(f, c).fq == "xordecode.iter_nonce_offsets"]
    sc = [c for c in fn_calls(f.node) if ctx.rs.resolve_call(f, c).fq == "utils.iter_find_needle"]
    ok = len(nn) == 1 and dotted(nn[0].args[0]) == fh and dotted(kwarg(nn[0], "maxrange")) == mr
    ctx.ob("R4", "AGREE", f, "iter_nonce_offsets(fh, maxrange=maxrange)", ok, "size-relation candidates over the search range")
    ok = len(sc) == 1 and dotted(sc[0].args[0]) == fh and dotted(sc[0].args[1]).endswith("EOF_SHELLCODE_MARKER") and is_const(kwarg(sc[0], "start_offset"), 0) and dotted(kwarg(sc[0], "max_offset")) == mr
    ctx.ob("R4", "AGREE", f, "iter_find_needle(fh, marker, 0, maxrange)", bool(ok), "marker candidates from the start of the file within the search range")
    comp = fv.enclosing(sc[0], (ast.ListComp, ast.GeneratorExp)) if sc else None
    ok = comp is not None and sympoly(comp.elt) == SymPoly.atom(dotted(comp.generators[0].target)) + SymPoly.atom("len(cls.EOF_SHELLCODE_MARKER)")
    ctx.ob("R4", "AGREE", f, "marker offset + len(marker)", bool(ok), "the encoded region starts right after the end-of-stub marker" if ok else "marker candidates are not offset + len(marker)")
    marker = ctx.repo.class_attrs("xordecode.XorEncodedFile").get("EOF_SHELLCODE_MARKER")
    ctx.ob("R4", "TABLE", "xordecode.py::XorEncodedFile", "EOF_SHELLCODE_MARKER", _c(marker) == b"\xff\xff\xff", f"marker is {_c(marker)!r} (ff ff ff)")
    rets = cfg.return_stmts()
    for r in rets:
        name = dotted(r.value)
        conds = [t for t, pol, n in dominating_conditions(ctx, f, r) if pol]
        val = any(t.startswith("pe.find_mz_offset(") and t.endswith("is not None") and name in t for t in conds)
        rew = [c for c in fn_calls(f.node) if dotted(c.func) == f"{name}.seek" and _c(c.args[0]) == 0 and len(c.args) == 1]
        rew_ok = bool(rew) and cfg.dominates(cfg.node(fv.stmt_of(rew[0])), cfg.node(r))
        built = [v for st, v in assignments_to(f.node, name) if isinstance(v, ast.Call) and dotted(v.func) == "cls"]
        ctx.ob("R4", "DOM", f, "return " + src(r.value), val and rew_ok and bool(built),
               f"candidate returned only after find_mz_offset(<it>) is not None={val}; rewound to logical 0={rew_ok}; built by cls(fh, nonce_offset=candidate)={bool(built)}", r)
    # the search range bounds where the *encoded region* may start in the raw file; the PE check on the decoded stream
    # is a different coordinate space and keeps find_mz_offset's own default range (a narrower one rejects valid stages)
    for c in [c for c in fn_calls(f.node) if ctx.rs.resolve_call(f, c).fq == "pe.find_mz_offset"]:
        extra = sorted({n.id for a in list(c.args[1:]) + [k.value for k in c.keywords] for n in ast.walk(a) if isinstance(n, ast.Name)})
        from csverif.astutil import bind_args, param_defaults
        callee = ctx.repo.func("pe.find_mz_offset").node
        b, dfl = bind_args(c, callee), param_defaults(callee)
        narrowed = [p for p in params(callee)[1:] if _c(b.get(p)) is None or (p == "maxrange" and _c(b.get(p)) < _c(dfl.get(p))) or (p != "maxrange" and _c(b.get(p)) != _c(dfl.get(p)))]
        ctx.ob("R4", "AGREE", f, "find_mz_offset(<candidate>) with its default range", not narrowed,
               "the candidate is validated over find_mz_offset's default range" if not narrowed else f"validation range overridden ({narrowed} from {extra}): a valid stage whose PE header lies beyond it is rejected", c)
    last = [r for r in cfg.raise_stmts() if raise_class(r) == "ValueError" and fv.enclosing(r, (ast.For, ast.While, ast.If, ast.Try)) is None]
    ctx.ob("R4", "EXIT", f, "fall-through raises ValueError", bool(last) and not cfg.falls_off_end(), "inputs without a valid candidate are rejected with ValueError")
    loops = [s for s in statements(f.node) if isinstance(s, ast.For) and "most_common" in src(s.iter)]
    ok = False
    if len(loops) == 1:
        adds = [n for n in ast.walk(loops[0].iter) if isinstance(n, ast.BinOp) and isinstance(n.op, ast.Add)]
        if adds:
            from csverif.q import reaching_origins
            from csverif.q import inline as _inl
            srcs = []
            for side in (adds[0].left, adds[0].right):
                for o in reaching_origins(ctx, f, side, loops[0]):
                    srcs.append(src(_inl(f.node, o)) if isinstance(o, ast.expr) else src(o))
            ok = any("iter_nonce_offsets" in x for x in srcs) and any("iter_find_needle" in x for x in srcs)
    ctx.ob("R4", "AGREE", f, "candidates = marker + size-relation offsets", ok, "both candidate sources are tried" if ok else "candidate loop does not range over both sources")
