"""C09 - The XorEncoded file view is a faithful read-only file (structural part).

All rules are phrased on roles and values, not on spelling:

* arithmetic is compared as polynomials (`_poly`) after following single-definition locals, `@property` accessors and
  one-expression accessor methods of the class, module/class constants, `cast(..)`, `len(<constant>)`,
  `struct.Struct(fmt).size`;
* guards are the dominating branch edges of the CFG (early return / continue / nested if / conditional expression are the
  same thing), flags and "value or None" temporaries are narrowed to the definition compatible with the test (`_narrow`);
* the paths of seek() are walked once per whence constant of the io protocol (`_exec_seek`: the dispatch on `whence` is
  specialised to SEEK_SET / SEEK_CUR / SEEK_END, the offset stays a symbol, offset arithmetic is kept as polynomials, every
  store to a local on the path is followed - also `offset, whence = E, SEEK_SET` - or makes the local unknown); the
  constructor / read_nonce / one iteration of the scan loop are read as straight-line cursor movements of a symbolic
  cursor typestate (`_simulate`: position polynomials and byte spans `raw[<poly> : +k]` with k a constant of the code,
  instead of "the first read"/"the second read"; anything conditional gives `undecided`);
* the underlying file is "whatever expression has `self.fh` as its origin"; the read accounting of read() is done on
  *trackers* (bytes accumulator, list of words that is joined, in-memory stream, byte counter counting up or down)
  and on the CFG specialised to "n > 0 and more than n bytes consumed", not on the literal `data += ...`;
* helpers of the module that the normaliser could not inline are followed where the rule needs them (R4);
* state kept in instance attributes between calls is found by who writes it (any method but the constructor) and who reads
  it back (the read path), not by name; what it must satisfy is stated on the CFG of every method of the class - no path
  may move the underlying cursor and leave a cached rolling key behind (R6);
* a method that looks behind the position for the key word must put the cursor back on every path and for every outcome of its
  reads: `read(k)` moves the cursor by the number of bytes it returns, of which only 0 <= len <= k is known - the view may be
  positioned at / beyond the end of the data, where the read comes up short.  The paths of such a method are walked once with
  the position as a polynomial over <raw position> and one symbol per read (`_Cursor`): an absolute seek to a remembered
  `tell()` restores it, relative moves must cancel with the *actual* length `len(<read result>)`, a backward seek that only
  the read of the same nominal size brings back does not (R7).  The span rules (R1 header words, R1 scan iteration, R3 "which
  word is fetched", R6 "read_nonce is not a movement") keep the reading "a read of k bytes returns k bytes" - they say which
  bytes are looked at when they are there - and say so; what happens when they are not there is R7's;
* a verdict is `violated` only when the construct was located and is expressed in the vocabulary of the rule; a
  polynomial with foreign atoms, a shape the rule does not understand, or a missing anchor construct gives `undecided`.

Technique
---------
(numbers: ALLOWED list 1-6 of RULES_GUIDE.md "What counts as *static* here".)  No rule runs /repo code or pushes data chosen
by the checker (file contents, file lengths, offsets, read sizes) through it: positions, offsets, n and the scan variable
are symbols throughout, the only numbers are constants written in /repo (read sizes, slice bounds, struct formats, the
marker) and the three whence constants of the io protocol (`_WHENCE`, a reference table).  No loop is unrolled: the scan
loop and the decode loop are read once with their loop-carried values symbolic; `for _ in range(3)` in this file are
fixpoint rounds of the analysis over names/collections, not over inputs.

* R1 (header length): 1 (roles: receiver with origin `self.fh`, resolved `@property`/accessors, `bind_args` of utils.unpack),
  3 (terms by substituting single definitions; polynomial normal form `_poly`; per-path symbolic environment of seek() in
  `_exec_seek`; symbolic cursor typestate `_simulate`/`_span_of`; one scan-loop iteration with the offset symbolic),
  2 (dominating branch edges -> linear integer facts `_linear_facts`, equalities `_equalities`), 5 (seek(): case analysis
  over SEEK_SET/SEEK_CUR/SEEK_END - the branch tests / `match` cases / constant-keyed dict lookups on `whence` become constant
  under the case; None / not None and flag narrowing `_narrow`), 6 (`_const`: constant folding incl. `len(<constant>)` and
  `struct.calcsize(<constant format>)`).  Lemmas: L1 cursor typestate, L2 span slicing, L3 u32/XOR, L4 integer order.
* R2 (read accounting; a give-back through the view's own `self.seek(d, SEEK_CUR)` counts as the relative seek R1 shows it
  to be): 1, 2 (CFG reachability / dominance / `all_paths_pass` on the CFG specialised under the named
  assumptions "n == 0", "n > 0", "the chunk just read is non-empty", "more than n bytes consumed"), 3 (reaching definitions
  of chunk / accumulator / returned value; give-back offset and truncation bound compared as polynomials over n,
  <bytes consumed>, <raw position>), 4 (length domain: trackers stand for the symbol <bytes consumed>).  Lemmas: L5
  length-preserving wrappers, L6 trackers, L7 give-back.  "give-back only after at least n bytes were consumed" (`_short_reachability`):
  2 (the CFG of read() specialised under the named scenario "short" = n > 0 and fewer than n bytes consumed when the reads are over, in
  its two sub-scenarios "read at / beyond the end: nothing consumed" and "1 <= <bytes consumed> < n"; the branch tests are evaluated
  three-valued, a test of the chunk just read is free in the second sub-scenario - the data may end anywhere -, a test that is neither
  decided nor free makes the paths through it undecided), 3 (`<tracker> ? n` / `<tracker> ? 0` decided as polynomials over n and
  <bytes consumed>; single-definition flags followed).  Lemma: L12.  No length, n or file content is chosen.
* R3 (rolling key): 1 (resolved utils.xor / read_nonce, `bind_args`), 3 (reaching definitions of the key operand inside /
  outside the decode loop, chunk provenance; read_nonce as cursor typestate from the symbol <raw position>), 2 (`all_paths_pass`:
  key updated on every iteration, after its use, before the next read), 6 (read size constant).  Lemmas: L1 in its complete-read
  reading (L1c): "net cursor movement" is the statement for positions with the word before them available; movements under a
  condition / through seek() results are taken from the path-wise walk of R7 run under that reading (`_complete_walk`).
* R4 (detection): 1 (resolved callees, helpers of the module followed, argument binding, roles mapped through the single call
  site), 2 (dominance of the validation and the rewind; CFG specialised under "the MZ validation failed"; raise / fall-off
  exits), 3 (reaching definitions of the returned view; def-use provenance of the candidate collection; range arguments /
  counter init, step and bound as polynomials - the loop is read once), 5 (None / not None alternatives of the candidate),
  6 (marker constant compared with the reference value, default arguments of find_mz_offset).  Lemmas: L4, L8 scan coverage.
  "nothing but the MZ validation rejects a candidate" (`_r4_only_validation_rejects`): 2 (CFG of the candidate loop: is there a way from
  the start of an iteration to the next candidate / out of the loop that avoids the validation statement), 3 (def-use sources of the test
  of the branch that goes round it: header-word attributes of the view - located by who writes them, the constructor's stores computed
  from a read -, calls of iter_nonce_offsets, the loop variable that is not the candidate = the vote count; `len(<header word>)` is a
  length, not content; no arithmetic is evaluated).  Sources of those three kinds: violated by L11 / the wording of the property ("via
  the end-of-stub marker, the size field, or both"); any other test that goes round the validation: undecided.
* R6 (state carried across calls): 1 (who-may-write / who-may-read of the instance attributes over all methods of the class: stores,
  augmented / item stores, in-place mutation vs loads on the read path; resolved `self.m()` callees; role "rolling key" = the
  attribute flows into a value returned by read_nonce() or into the key operand of the decode step), 3 (reaching definitions of
  the stored value and of the locals it travels through - the def-use hops of a whole word read at the cursor / a read_nonce()
  result; read_nonce's own seek/read as cursor typestate from the symbol <raw position>: they cancel under L1c), 2 (CFG reachability with
  the stores as barriers: ENTRY -> movement -> EXIT, store -> movement -> EXIT, definition -> movement -> use; a read bound to a
  local is a movement under the named assumption "the chunk just read is non-empty"; dominating `is None` tests), 5 (None / not
  None of the cached value).  Lemma: L9.  Attributes in other roles (remembered position, buffer), caches validated where they
  are used, and stored values other than constants / whole words are undecided.  "read_nonce() is not a movement" (`_net_zero`) is
  taken under L1c; that it holds for short reads as well is R7's obligation (assume-guarantee between the two rules).
* R7 (position-preserving helpers: read_nonce(), whatever method the first key of the decode step comes from, and other methods
  outside the io interface that both seek and read the underlying file): 1 (roles: key operand of the resolved utils.xor in
  read() -> reaching definitions -> resolved `self.m()` callee; receiver with origin `self.fh`; methods of the class called from
  the subject are walked in place with `bind_args`), 3 (path-wise value flow over the structured statements, every path once:
  position / tell() results / len(<read result>) / offsets as polynomials over <raw position>, <end of file> and one symbol
  <len i> per read; exception edges from the seeks that may raise into the handlers of the enclosing try, `finally` on every
  outcome), 4 (interval domain for <len i>: [0, k] for `read(k)`, [0, inf) otherwise; tests of `len(<read result>)` / truthiness
  of a read result against constants refine the interval on the two branch edges, a one-point interval pins the symbol; flags
  are replaced by the test they were bound to; linear range of an offset decides "this relative seek goes forwards"), 2 (tests
  that become constant select the branch; position-against-header tests say nothing about the end of the file and are followed
  on both edges; any other test on a read result / the position makes the path `opaque` -> undecided instead of violated).
  No loop that moves the file is entered, no read length is enumerated.  Lemmas: L1, L10.
* R8 (anchors of relative seeks: under whence == SEEK_CUR the target the underlying file is moved to must be computed from its
  current position, under whence == SEEK_END from where it ends - the end read() reads up to): 5 (the same case analysis of seek()
  over the whence vocabulary as R1, `_exec_seek`; stores to locals on the path are followed, also the paired rebinding
  `offset, whence = E, SEEK_SET`), 3 (def-use value flow `_sources`: the set of sources the offset argument of the one raw seek on
  the path is computed from - the offset parameter, constants, `tell()` of the underlying file, and, through `@property` /
  one-expression accessors and the attributes' only writer, the constructor: its arguments and its complete fixed-size reads, i.e.
  file content; operands of operators and calls are united; no arithmetic is evaluated), 1 (who-may-write: an attribute that any
  method but the constructor stores, that is stored conditionally, or that is stored from outside the class is `unknown`; calls that
  are handed the view / the file, raw operations other than tell(), calls of other methods of the view are `unknown`).  Served with
  the same whence by the underlying file: discharged (the offset is R1's).  Served by an absolute seek / the other relative whence
  whose target has no `unknown` source and does not contain the anchor: violated by L11.  Anything else (two seeks "to the end, then
  back", `tell() + offset`, an end measured by the constructor): undecided.  Lemma: L11.
* R9 (what seek() returns - finding F25: on every return path of the view's seek() the value returned is the position tell() reports
  for the cursor the seek leaves behind; a file object returns its new position from seek()): 5 (the same case analysis of seek() over
  the whence vocabulary as R1/R8, `_exec_seek`; in an expression, a conditional expression whose test is constant under the case
  contributes the calls of one arm only), 3 (terms by substituting definitions: the walk carries the raw position as a term of a
  symbolic cursor - <raw position> before the seek; offset-argument term / position + d / <end of file> + d after a raw seek with
  whence SET / CUR / END (L1); a fresh symbol after anything else that may move the file: other operations of the underlying file,
  methods of the view that do more than ask for the position, calls that are handed the view or the file, a seek under a condition -;
  the result of a raw seek is the position it leaves, `tell()` of the underlying file is the position *where it is evaluated* (a query
  inside the arguments of the only seek of an expression sees the cursor before it, any other query in the same expression as a seek is
  an unknown); `self.tell()` - and any argument-less method of the view made of single assignments and one return that only asks the
  file for `tell()` - is the term of its return expression at that cursor (`_reader_term`), a tell() of another form the opaque term
  "<tell() at step k>", equal to itself as long as nothing may have moved the file; locals are followed path-wise as in R1; terms
  are compared in polynomial normal form).  Equal: discharged (`return self.tell()`, `<raw seek result> - (nonce_offset + 8)`, the offset
  itself after an absolute seek, ...).  Different and written in the vocabulary offset / <raw position> / <end of file> / nonce_offset /
  constants: violated (a bare raw seek result, a position taken before the seek, a wrong header length).  `return` without a value /
  `return None` / falling off the end: violated.  Anything else (foreign atoms, a value that is not an arithmetic term, paths the walk
  cannot follow): undecided; paths that end in `raise` return nothing and are not judged.  Lemma: L1.
* R5: the scanner obligations of rules/c15.py (`scanner_obligations`), imported unchanged - see that module: structural
  shape, interval abstract interpretation `absint.Interp`, polynomials, CFG (devices 1-4).

Lemmas / library model relied on (also listed in `rep.trusted_base`):
  L1  io cursor typestate: after `seek(p, SEEK_SET)` the position is p, after `seek(d, SEEK_CUR)` it is pos + d (any position
      >= 0 is legal, also beyond the end), after `seek(d, SEEK_END)` it is <end of file> + d, `tell()` returns pos, `seek` returns
      the new position; `read(k)` returns raw[pos : pos + j] for some 0 <= j <= k and leaves pos + j = pos + len(result); j == k
      when k bytes are available at pos.
  L1c the complete-read reading of L1 used by the span rules (R1, R3, R6 `_net_zero`): `read(k)`, k >= 0 a constant of the code,
      returns raw[pos : pos + k] and leaves pos + k.  Justified where it is used: the two header words exist in every XorEncoded
      payload (premise of the property; a file without them is not in its domain); the two words of a scan iteration are only
      used behind the length check `len(nonce) != 4 or len(size) != 4 -> break` of iter_nonce_offsets (present in the code, not
      verified by R1 - listed under not_decided) and every iteration starts with an absolute seek; for read_nonce it is the case
      "the word before the position is there", the other case being R7.  R2's accounting never uses a nominal size: it counts
      `len()` of what was actually read.
  L2  `x[lo:hi]` of the span (s, k) with constants 0 <= lo <= hi <= k is the span (s + lo, hi - lo) (slice semantics of bytes).
  L3  u32le(a) ^ u32le(b) == u32le(xor(a, b)) for 4-byte words: the unsigned little-endian decode maps bit j of byte i to
      bit 8*i + j (a bijection of bit positions) and XOR is bitwise; "<I"/"<L", int.from_bytes(.., "little", signed=False) and
      utils.unpack(size=4, byteorder="little", signed=False) are that decode.
  L4  over the integers `a < b` iff `a - b + 1 <= 0` (and the mirrored / negated forms): branch edges become facts `p <= 0`.
  L5  `len(xor(data, key)) == len(data)`, `len(bytes(x)) == len(bytearray(x)) == len(x)` (length-preserving wrappers).
  L6  an accumulator that starts empty and receives every chunk exactly once (`+=`, `.extend`, `.append` + `b"".join`,
      `BytesIO.write` + `getvalue()`/`tell()` of a stream that is only written, `k += len(chunk)` from k0) has length
      (resp. value - k0, sign-adjusted) equal to the number of bytes consumed from the underlying file.
  L7  having consumed c bytes from position p0, a relative seek by n - c (or an absolute one to tell() + n - c, resp.
      <tell before the reads> + n) leaves the underlying file at p0 + n: exactly the n bytes that `acc[:n]` returns.
  L8  `range(0, m, 1)` - or a counter that starts at 0, advances by exactly 1 per iteration and is used under `i < m` -
      visits every integer 0 .. m - 1.
  L9  the rolling key of raw position p (beyond the first word) is raw[p - 4 : p] (R3): a whole word read at the cursor is the key
      of the position right after that read, read_nonce() returns the key of the position it is called at, and - the file
      contents being arbitrary - neither is the key of any other position.  A key kept in an attribute for a later call is
      therefore right only if the underlying cursor has not moved since the word was read / since it was stored, or a constant
      ("nothing cached") has been stored since.
  L10 a seek that raises leaves the position unchanged; a relative seek by d >= 0 and an absolute seek to a position the cursor
      has had (or beyond it) do not raise; reads of the underlying file do not raise (I/O faults are outside the quantifier of
      the property).  For integers 0 <= j <= k: `-k + j == 0` iff j == k, so a backward seek by k followed by `read(k)` is
      back at the start only for a complete read; `-k + j + (k - j) == 0` for every j.
  L11 the cursor position and the end of the underlying file are not functions of what else seek() can see: for any values of the
      offset argument, the constructor's arguments and the bytes at fixed places of the file (the header words - a complete read of k
      bytes is file *content*), files of different lengths and cursors at different positions exist - the quantifier of the property
      ranges over plaintexts of any length, and the size word of the header is not validated (a stage located via the end-of-stub
      marker only, an explicit nonce_offset, a truncated download, trailing bytes).  read() delivers decoded bytes until the
      underlying file returns nothing (R2), so the view ends at <end of file> - (nonce_offset + 8): a SEEK_END target computed
      without asking the underlying file where it ends (its own SEEK_END), or a SEEK_CUR target computed without its position
      (tell() / its own SEEK_CUR), differs from the required <anchor> + offset for some file.  Functions only know what they are
      handed (a call that is not handed the view / the file adds no source); module-level names carry no information about the file.
  L12 what read() has consumed only grows while it runs (trackers are only added to, L6): if fewer than n bytes were consumed when the
      reads are over, `<tracker> < n` held at every earlier test as well; with nothing consumed at all `<tracker> == 0 < n` for n > 0.  A
      give-back (L7) executed in that scenario leaves the underlying file at <position before the reads> + n > <position before the reads>
      + <bytes consumed> = the end of what is returned: tell() advances by more than len(result).  Both sub-scenarios are inside the
      quantifier (read(n) beyond EOF; plaintexts of any length).
"""

from __future__ import annotations

import ast
import math
import struct as _struct
from fractions import Fraction
from typing import Dict, List, Optional, Tuple

from csverif.absint import SymPoly, sympoly
from csverif.astutil import (
    assignments_to, bind_args, body_walk, compare_parts, const_eval, dotted, fn_calls, module_env, NotConst, param_defaults,
    params, src, statements, strip_cast,
)
from csverif.cfg import ENTRY, EXIT
from csverif.q import FuncView, dominating_conditions, origin, raise_class, reaching_defs, specialise, tv_eval

RAW = "self.fh"
CLS = "xordecode.XorEncodedFile"
_WHENCE = {"SEEK_SET": 0, "SEEK_CUR": 1, "SEEK_END": 2}

H = SymPoly.atom("self.nonce_offset") + SymPoly.const(8)
POS = SymPoly.atom("<raw position>")
END = SymPoly.atom("<end of file>")
CONSUMED = SymPoly.atom("<bytes consumed>")


# ============================================================================================== general helpers
# (candidates for csverif.q / csverif.absint: _const, _poly, _verdict, _root, _narrow, _optionals, _cond_nodes, _linear_facts,
#  _equalities, _simulate, _span_of, _exec_seek)
def _c(node):
    try:
        return const_eval(node) if node is not None else None
    except (NotConst, TypeError):
        return None


def _is_int(v) -> bool:
    return isinstance(v, int) and not isinstance(v, bool)


def _class_attr(ctx, f, name: str) -> Optional[ast.AST]:
    if f is None or not f.cls:
        return None
    try:
        return ctx.repo.class_attrs(f"{f.module.name}.{f.cls}").get(name)
    except Exception:
        return None


def _const(ctx, f, e, depth: int = 0):
    """Constant value of an expression: literals, arithmetic, `len(..)`, module constants, class constants reached
    through self/cls/<Class>, io/os.SEEK_*, single-definition locals.  None when not a constant."""
    if e is None or depth > 8:
        return None
    e = strip_cast(e)
    try:
        return const_eval(e)
    except (NotConst, TypeError, ValueError, KeyError):
        pass
    if isinstance(e, ast.Name):
        if f is not None:
            if e.id in params(f.node):
                return None
            defs = assignments_to(f.node, e.id)
            if len(defs) == 1 and defs[0][1] is not None and isinstance(defs[0][0], (ast.Assign, ast.AnnAssign)):
                return _const(ctx, f, defs[0][1], depth + 1)
            if defs:
                return None
            mc = f.module.consts.get(e.id)
            if mc is not None:
                try:
                    return const_eval(mc, module_env(f.module))
                except (NotConst, TypeError, ValueError, KeyError):
                    return None
        return None
    if isinstance(e, ast.Call) and dotted(e.func) == "struct.calcsize" and len(e.args) == 1:
        fmt = _const(ctx, f, e.args[0], depth + 1)
        try:
            return _struct.calcsize(fmt) if isinstance(fmt, (str, bytes)) else None
        except _struct.error:
            return None
    if isinstance(e, ast.Attribute) and e.attr == "size":
        # struct.Struct("<II").size (directly, or through a local / module / class constant)
        base = strip_cast(e.value)
        if isinstance(base, ast.Name) and f is not None and base.id not in params(f.node):
            defs = assignments_to(f.node, base.id)
            base = defs[0][1] if len(defs) == 1 and defs[0][1] is not None else (f.module.consts.get(base.id) if not defs else None)
        elif isinstance(base, ast.Attribute) and isinstance(base.value, ast.Name) and f is not None and f.cls and base.value.id in ("self", "cls", f.cls.split(".")[-1]):
            base = _class_attr(ctx, f, base.attr)
        if isinstance(base, ast.Call) and dotted(base.func) in ("struct.Struct", "Struct") and len(base.args) == 1:
            fmt = _const(ctx, f, base.args[0], depth + 1)
            try:
                return _struct.calcsize(fmt) if isinstance(fmt, (str, bytes)) else None
            except _struct.error:
                return None
    if isinstance(e, ast.Attribute):
        d = dotted(e)
        if d is not None and d.split(".")[-1] in _WHENCE and d.split(".")[0] in ("io", "os"):
            return _WHENCE[d.split(".")[-1]]
        if isinstance(e.value, ast.Name) and f is not None and f.cls and e.value.id in ("self", "cls", f.cls.split(".")[-1]):
            ca = _class_attr(ctx, f, e.attr)
            if ca is not None:
                return _const(ctx, None, ca, depth + 1)
        return None
    if isinstance(e, ast.UnaryOp) and isinstance(e.op, ast.USub):
        v = _const(ctx, f, e.operand, depth + 1)
        return -v if _is_int(v) else None
    if isinstance(e, ast.BinOp):
        a, b = _const(ctx, f, e.left, depth + 1), _const(ctx, f, e.right, depth + 1)
        if a is None or b is None:
            return None
        try:
            return const_eval(ast.BinOp(left=ast.Constant(value=a), op=e.op, right=ast.Constant(value=b)))
        except (NotConst, TypeError, ValueError):
            return None
    if isinstance(e, ast.Call) and dotted(e.func) == "len" and len(e.args) == 1 and not e.keywords:
        v = _const(ctx, f, e.args[0], depth + 1)
        return len(v) if isinstance(v, (bytes, str, tuple, list)) else None
    return None


def _poly(ctx, f, e, special=None, stop=frozenset(), depth: int = 0) -> Optional[SymPoly]:
    """Polynomial normal form of an arithmetic expression evaluated in function f.  Single-definition locals are followed
    (not those in `stop`), `self.<property>` is replaced by the property's return expression, constants are folded;
    `special(node)` may map a node to a polynomial first (roles such as "the raw position")."""
    if e is None or depth > 8:
        return None
    fn = f.node

    def subst(x):
        if special is not None:
            s = special(x)
            if s is not None:
                return s
        y = strip_cast(x)
        if y is not x:
            return _poly(ctx, f, y, special, stop, depth + 1)
        if isinstance(x, ast.Name):
            if x.id in stop or x.id in params(fn):
                return None
            defs = assignments_to(fn, x.id)
            if len(defs) == 1 and defs[0][1] is not None and isinstance(defs[0][0], (ast.Assign, ast.AnnAssign)):
                v = defs[0][1]
                if not any(isinstance(n, ast.Name) and n.id == x.id for n in ast.walk(v)):
                    return _poly(ctx, f, v, special, stop, depth + 1)
                return None
            if not defs:
                c = _const(ctx, f, x)
                if _is_int(c):
                    return SymPoly.const(c)
            return None
        if isinstance(x, ast.Attribute) and not isinstance(x.value, ast.Name):
            c = _const(ctx, f, x)
            return SymPoly.const(c) if _is_int(c) else None
        if isinstance(x, ast.Attribute) and isinstance(x.value, ast.Name):
            if x.value.id == "self" and f.cls:
                prop = ctx.rs.property_of(f"{f.module.name}.{f.cls}", x.attr)
                if prop is not None:
                    body = prop.node.body
                    if len(body) == 1 and isinstance(body[0], ast.Return) and body[0].value is not None:
                        return _poly(ctx, prop, body[0].value, special, frozenset(), depth + 1)
                    return None
            c = _const(ctx, f, x)
            if _is_int(c):
                return SymPoly.const(c)
            return None
        if isinstance(x, ast.Call):
            c = _const(ctx, f, x)
            if _is_int(c):
                return SymPoly.const(c)
            # self.m() of a one-expression accessor method of the same class
            if not x.args and not x.keywords and isinstance(x.func, ast.Attribute) and isinstance(x.func.value, ast.Name) and x.func.value.id == "self" and f.cls:
                cal = ctx.rs.resolve_call(f, x)
                if cal.kind == "func" and cal.func is not None and cal.func.cls == f.cls and len(params(cal.func.node)) == 1:
                    body = cal.func.node.body
                    if len(body) == 1 and isinstance(body[0], ast.Return) and body[0].value is not None:
                        return _poly(ctx, cal.func, body[0].value, special, frozenset(), depth + 1)
        return None

    return sympoly(e, subst)


def _verdict(p: Optional[SymPoly], want: SymPoly, vocab=()) -> str:
    """'ok' | 'bad' | 'unknown': a polynomial that differs from the required one is *wrong* only if it is written in the
    vocabulary of the rule; with foreign atoms (an attribute or call the rule cannot see through) nothing is claimed."""
    if p is None:
        return "unknown"
    if p == want:
        return "ok"
    return "bad" if p.atoms() <= (want.atoms() | set(vocab)) else "unknown"


def _worst(vs) -> str:
    vs = list(vs)
    if any(v == "bad" for v in vs):
        return "bad"
    if any(v == "unknown" for v in vs):
        return "unknown"
    return "ok"


def _emit(ctx, rule, kind, where, text, verdict, ok_detail, bad_detail, node=None, unknown_detail=None):
    if verdict is True or verdict is False:
        verdict = "ok" if verdict else "bad"
    if verdict == "unknown":
        return ctx.undecided(rule, kind, where, text, unknown_detail or bad_detail, node)
    return ctx.ob(rule, kind, where, text, verdict == "ok", ok_detail if verdict == "ok" else bad_detail, node)


def _root(fn, e, depth: int = 0) -> Optional[str]:
    """Dotted name an expression is a plain copy of: casts stripped, `a = b` copies of single-definition locals followed."""
    e = strip_cast(e)
    if isinstance(e, ast.Name) and depth < 6 and e.id not in params(fn):
        defs = assignments_to(fn, e.id)
        if len(defs) == 1 and defs[0][1] is not None and dotted(strip_cast(defs[0][1])) is not None:
            return _root(fn, defs[0][1], depth + 1)
    return dotted(e)


def _is_raw(fn, recv, rawnames=(RAW,)) -> bool:
    return dotted(origin(fn, recv)) in rawnames


def _raw_calls(f, attr: str, rawnames=(RAW,)) -> List[ast.Call]:
    return [c for c in fn_calls(f.node) if isinstance(c.func, ast.Attribute) and c.func.attr == attr and _is_raw(f.node, c.func.value, rawnames)]


def _seek_args(c: ast.Call) -> Tuple[Optional[ast.AST], Optional[ast.AST]]:
    off = c.args[0] if c.args else None
    wh = c.args[1] if len(c.args) > 1 else None
    for k in c.keywords:
        if k.arg in ("offset", "pos", "cookie") and off is None:
            off = k.value
        elif k.arg == "whence" and wh is None:
            wh = k.value
    return off, wh


def _narrow(ctx, f, name: str, at, mode: str):
    """The single definition (stmt, value) of local `name` that can reach `at` once the constant alternatives that
    contradict `mode` ('nonnull' | 'truthy' | 'falsy') are discarded - `r = None ... r = E ... if r is not None: use(r)`
    is how an inlined "value or None" helper and a found-flag look.  None when not exactly one definition remains, or when
    a local the remaining definition mentions may have been rebound between that definition and `at`."""
    fv, cfg = FuncView.of(f.node), ctx.cfg(f)
    rd = reaching_defs(ctx, f, name, at)
    if not rd or any(v is None for _s, v in rd):
        return None
    keep = []
    for st, v in rd:
        v0 = strip_cast(v)
        if isinstance(v0, ast.Constant):
            c = v0.value
            if (mode == "nonnull" and c is None) or (mode == "truthy" and not c) or (mode == "falsy" and c):
                continue
        keep.append((st, v))
    if len(keep) != 1:
        return None
    S, E = keep[0]
    sst = S if isinstance(S, ast.stmt) else fv.stmt_of(S)
    ast_ = at if isinstance(at, ast.stmt) else fv.stmt_of(at)
    if sst is None or ast_ is None or not cfg.has(sst) or not cfg.has(ast_):
        return None
    sn, an = cfg.node(sst), cfg.node(ast_)
    alld = [cfg.node(x if isinstance(x, ast.stmt) else fv.stmt_of(x)) for x, _v in assignments_to(f.node, name) if cfg.has(x if isinstance(x, ast.stmt) else fv.stmt_of(x))]
    for nm in {x.id for x in ast.walk(E) if isinstance(x, ast.Name) and x.id != name and x.id not in params(f.node)}:
        for d, _v in assignments_to(f.node, nm):
            dst = d if isinstance(d, ast.stmt) else fv.stmt_of(d)
            if dst is None or not cfg.has(dst):
                continue
            dn = cfg.node(dst)
            if isinstance(dst, (ast.For, ast.AsyncFor)):
                dn = cfg.edge_node(dst, "iter")
            if dn != sn and cfg.reaches(sn, dn, avoiding=[x for x in alld if x != sn]) and cfg.reaches(dn, an, avoiding=alld):
                return None  # stale: the operand was rebound after the definition was evaluated
    return S, E


def _optionals(ctx, f, at) -> Dict[str, Tuple[ast.AST, ast.AST]]:
    """root name -> (stmt, value): locals that a dominating `x is not None` / truthiness test at `at` narrows to one definition."""
    fn = f.node
    out: Dict[str, Tuple[ast.AST, ast.AST]] = {}
    for _t, pol, t in dominating_conditions(ctx, f, at):
        nm = None
        if isinstance(t, ast.Name) and pol:
            nm, mode = _root(fn, t), "truthy"
        elif isinstance(t, ast.Compare) and len(t.ops) == 1 and isinstance(t.comparators[0], ast.Constant) and t.comparators[0].value is None \
                and isinstance(t.ops[0], (ast.Is, ast.IsNot, ast.Eq, ast.NotEq)) and isinstance(strip_cast(t.left), ast.Name):
            if isinstance(t.ops[0], (ast.IsNot, ast.NotEq)) == pol:
                nm, mode = _root(fn, t.left), "nonnull"
        if nm and "." not in nm and nm not in params(fn) and nm not in out and len(assignments_to(fn, nm)) > 1:
            nd = _narrow(ctx, f, nm, at, mode)
            if nd is not None:
                out[nm] = nd
    return out


def _cond_nodes(ctx, f, node):
    """(test, polarity) of the dominating branch edges of node; a test that is a single-definition flag is replaced by
    its definition (the mirrored duplicates of comparisons are kept: all users are idempotent)."""
    out, seen = [], set()
    fv = FuncView.of(f.node)
    if isinstance(node, ast.expr):
        # expression-level guards: `A if test else B`
        child = node
        for anc in fv.ancestors(node):
            if isinstance(anc, ast.stmt):
                break
            if isinstance(anc, ast.IfExp) and (anc.body is child or anc.orelse is child):
                stack = [(anc.test, anc.body is child)]
                while stack:
                    e, pol = stack.pop()
                    while isinstance(e, ast.UnaryOp) and isinstance(e.op, ast.Not):
                        e, pol = e.operand, not pol
                    if isinstance(e, ast.BoolOp) and isinstance(e.op, ast.And if pol else ast.Or):
                        stack.extend((v, pol) for v in e.values)
                    else:
                        out.append((origin(f.node, e) if isinstance(e, ast.Name) else e, pol))
            child = anc
    for _t, pol, t in dominating_conditions(ctx, f, node):
        if isinstance(t, ast.Name):
            t = origin(f.node, t)
            if isinstance(t, ast.Name) and t.id not in params(f.node) and fv.stmt_of(t) is not None:
                # a flag with several definitions: on this edge only the definitions compatible with its truth value count
                nd = _narrow(ctx, f, t.id, fv.stmt_of(t), "truthy" if pol else "falsy")
                if nd is not None:
                    t = nd[1]
        if (id(t), pol) not in seen:
            seen.add((id(t), pol))
            out.append((t, pol))
    return out


def _linear_facts(ctx, f, node, poly) -> List[SymPoly]:
    """Integer facts `p <= 0` established by the branch edges that dominate node (poly: expression -> SymPoly|None)."""
    facts = []
    for t, pol in _cond_nodes(ctx, f, node):
        parts = compare_parts(t, mirrored=False)
        if not parts or (len(parts) > 1 and not pol):
            continue
        for l, op, r in parts:
            a, b = poly(l), poly(r)
            if a is None or b is None:
                continue
            one = SymPoly.const(1)
            kind = type(op)
            if not pol and kind not in (ast.Eq, ast.NotEq):
                kind = {ast.Lt: ast.GtE, ast.GtE: ast.Lt, ast.Gt: ast.LtE, ast.LtE: ast.Gt}.get(kind)
            if kind is ast.Eq and pol or kind is ast.NotEq and not pol:
                facts += [a - b, b - a]
            elif kind is ast.Lt:
                facts.append(a - b + one)
            elif kind is ast.LtE:
                facts.append(a - b)
            elif kind is ast.Gt:
                facts.append(b - a + one)
            elif kind is ast.GtE:
                facts.append(b - a)
    return facts


def _equalities(ctx, f, node) -> List[ast.Compare]:
    """Equality comparisons known to hold at node (an `==` on its true edge, a `!=` on its false edge)."""
    out = []
    for t, pol in _cond_nodes(ctx, f, node):
        if isinstance(t, ast.Compare) and len(t.ops) == 1 and ((isinstance(t.ops[0], ast.Eq) and pol) or (isinstance(t.ops[0], ast.NotEq) and not pol)):
            out.append(t)
    return out


def _simulate(ctx, f, calls, start: SymPoly, poly, rawnames=(RAW,), scope=None):
    """Symbolic cursor typestate: walk the straight-line seek/read calls on the underlying file (those directly in `scope`,
    default the function body) once; positions are polynomials over symbols, read sizes are constants of the code, nothing
    conditional is followed.  Returns (final position | None, {id(read): (start, len)}, problem | None)."""
    fv = FuncView.of(f.node)
    pos: Optional[SymPoly] = start
    spans: Dict[int, Tuple[SymPoly, int]] = {}
    branching = (ast.If, ast.For, ast.While, ast.ExceptHandler, ast.IfExp, ast.ListComp, ast.GeneratorExp, ast.SetComp, ast.DictComp, ast.BoolOp, ast.Lambda)
    for c in calls:
        if not (isinstance(c.func, ast.Attribute) and _is_raw(f.node, c.func.value, rawnames)):
            continue
        a = c.func.attr
        if a in ("tell", "seekable", "readable", "fileno"):
            continue
        anc = fv.ancestors(c)
        if scope is not None:
            if not any(x is scope for x in anc):
                continue
            anc = anc[: [i for i, x in enumerate(anc) if x is scope][0]]
        if any(isinstance(x, branching) for x in anc):
            return None, spans, f"`{src(c)}` is executed conditionally"
        if a == "seek":
            off, wh = _seek_args(c)
            w = 0 if wh is None else _const(ctx, f, wh)
            p = poly(off) if off is not None else None
            if p is None or w not in (0, 1) or (w == 1 and pos is None):
                return None, spans, f"cannot follow `{src(c)}`"
            pos = p if w == 0 else pos + p
        elif a == "read":
            k = _const(ctx, f, c.args[0]) if c.args else None
            if not _is_int(k) or k < 0 or pos is None:
                return None, spans, f"cannot follow `{src(c)}`"
            spans[id(c)] = (pos, k)
            pos = pos + SymPoly.const(k)
        else:
            return None, spans, f"unknown operation `{src(c)}` on the underlying file"
    return pos, spans, None


def _span_of(ctx, f, e, spans, depth: int = 0):
    """(start, length) of the raw bytes an expression holds: a read, or a constant slice of one."""
    if e is None or depth > 6:
        return None
    e = origin(f.node, e)
    if isinstance(e, ast.Call):
        return spans.get(id(e))
    if isinstance(e, ast.Subscript) and isinstance(e.slice, ast.Slice) and e.slice.step is None:
        base = _span_of(ctx, f, e.value, spans, depth + 1)
        if base is None:
            return None
        lo = 0 if e.slice.lower is None else _const(ctx, f, e.slice.lower)
        hi = base[1] if e.slice.upper is None else _const(ctx, f, e.slice.upper)
        if _is_int(lo) and _is_int(hi) and 0 <= lo <= hi <= base[1]:
            return base[0] + SymPoly.const(lo), hi - lo
    return None


def run(ctx):
    rep = ctx.rep
    rep.explanation = (
        "Static analysis of xordecode.py (no code of the package is run, no data is fed through it): the header length is "
        "compared as a polynomial (nonce_offset + 8) across tell(), seek() - its paths followed once per whence constant "
        "SEEK_SET/SEEK_CUR/SEEK_END with the offset symbolic -, the cursor after __init__ (symbolic cursor typestate: position "
        "polynomials and byte spans), the size relation of iter_nonce_offsets (equalities on the dominating branch edges of the "
        "yield; one scan iteration with the offset symbolic) and the first-word boundary of read_nonce (linear facts from the "
        "dominating branch edges); read() is checked for read accounting on its CFG specialised under the named assumptions "
        "n == 0 / n > 0 / non-empty chunk / more than n bytes consumed (every path returns exactly the bytes it consumed: "
        "either the whole decoded data, or a truncation preceded by a relative give-back seek of n - <bytes consumed>; n == 0 "
        "consumes nothing; a give-back is not reachable on the CFG specialised to 'n > 0 and fewer than n bytes consumed' - at EOF / "
        "when the data ends early it would leave the file beyond the bytes returned); the rolling key chains on ciphertext (reaching definitions of the key operand, every-iteration / "
        "after-use path conditions); detection returns a candidate only after the MZ validation and a rewind (dominance, "
        "None-case analysis, def-use provenance of the candidate collection, scan range as polynomials) and no candidate is turned away "
        "before that validation on a test computed from its header words, the size-relation candidates or its vote count (a stage may be "
        "located by the marker alone and its size word is not validated); the cursor of the "
        "underlying file is the only state carried from one call to the next - an attribute written outside the constructor and "
        "read back on the read path is either a memo of the constructor's data, or a cached rolling key that every movement of "
        "the underlying cursor resets or re-establishes (who-writes / who-reads over the methods of the class, CFG reachability "
        "with the stores as barriers, def-use hops of the stored word), or it is reported as undecided; the methods that look behind the "
        "position for the key word (read_nonce and whatever the first key of the decode step comes from) leave the underlying cursor where it was "
        "on every path whatever their reads return (path-wise symbolic cursor: the position as a polynomial over the entry position and one "
        "symbol len(<read>) in [0, nominal size] per read; absolute restore to a remembered tell() or relative moves that cancel with the "
        "actual length; a backward seek compensated only by a read of the same nominal size is a violation - the read is short at / beyond "
        "the end of the data); a seek relative to the current position / to the end is measured from a quantity only the underlying file "
        "knows - its cursor, resp. where it ends, which is where read() stops delivering decoded bytes: under whence == SEEK_CUR / SEEK_END "
        "(same case analysis as for the header length) the target of the one raw seek is either served by the same whence of the underlying "
        "file, or its def-use sources (offset argument, constants, tell(), and through properties / the constructor's stores its arguments and "
        "the header words it read) are collected - a target built without the anchor, e.g. an end taken from the size word of the header, is a "
        "violation; targets whose sources cannot be followed completely are undecided; what seek() returns is the position tell() reports for the "
        "cursor the seek leaves behind (F25; same case analysis: the raw position is carried as a term of a symbolic cursor through the raw seek(s) "
        "of the path, the returned value and the return expression of tell() at that cursor are compared as polynomials - `return self.tell()`, "
        "`<result of the underlying seek> - (nonce_offset + 8)` and the like are accepted, a bare result of the underlying seek (a position in the "
        "encoded file), a position taken before the seek or no return value are violations, other forms are undecided)."
    )
    rep.not_decided = [
        "plaintext equality for all seek/read histories",
        "most_common ordering of candidates",
        "tests that drop a candidate before the MZ validation and are computed from something else than its header words, the size-relation "
        "candidates or the vote count (the candidate offset, the length of the file, how much of the header is there): undecided (R4); a test "
        "inside a helper that the normaliser could not inline is not seen",
        "give-back seeks of read() whose guard is neither decided under 'fewer than n bytes consumed' nor a test of the chunk just read, or that sit "
        "behind a for-loop / exception handler: undecided (R2)",
        "short reads of the two header words in __init__ (a XorEncoded payload has them: premise of the property) and of the two words of a scan "
        "iteration of iter_nonce_offsets (the code breaks out of the scan on a short read; that check is not verified by R1): the span rules read "
        "`read(k)` as returning k bytes; short reads in read_nonce ARE decided (R7)",
        "I/O errors raised by read() of the underlying file (R7: reads do not raise, seeks may); relative seeks are taken to move by exactly their "
        "offset (an in-memory stream that clamps a relative seek at 0 instead of raising only differs for raw positions below the look-behind "
        "distance, i.e. before the header - not a position of the view)",
        "methods outside the io interface that seek and read the underlying file without being (helpers of) a key fetcher or of read(): whether they "
        "are meant to keep the position is not known - discharged when they do, undecided otherwise; loops that move the file inside a key fetcher: undecided",
        "seek() forms in which a test that matters does not become constant under whence == SEEK_SET/SEEK_CUR/SEEK_END, cursor "
        "movements under a condition in __init__/read_nonce/the scan iteration, accumulators other than bytes/list/stream/counter: undecided",
        "relative seeks served by something else than the same whence of the underlying file whose target does involve the anchor (tell() + offset, "
        "seek to the end first and then back, an end measured once by the constructor): the arithmetic / the several movements are not followed - undecided (R8, R1); "
        "that read() really stops at the end of the underlying file is R2's, not re-established by R8",
        "values returned by seek() that are not arithmetic terms over the offset, the raw position / end of file and the header length (clamped with "
        "max(), converted, taken from a helper with arguments the normaliser could not inline, computed after a call whose effect on the file is not "
        "followed), seek() bodies with try / with / loops around the seek, tests that do not become constant under the whence case: undecided (R9); "
        "that the position returned is *legal* (seeking before the start of the decoded data) is not examined",
        "state carried across calls other than a cached rolling key (remembered positions, read-ahead buffers), caches that are validated "
        "where they are used (position comparison, validity flag), cached values other than a constant / a whole word read at the cursor / "
        "a read_nonce() result: undecided; movements of the underlying file made from outside the class",
    ]
    rep.trusted_base = [
        "CPython ast", "networkx dominators", "SymPoly normal form",
        "io protocol: whence vocabulary SEEK_SET=0, SEEK_CUR=1, SEEK_END=2; seek(p, SET) -> p, seek(d, CUR) -> pos + d, "
        "seek(d, END) -> <end of file> + d, positions beyond the end are legal, seek returns the new position; read(k) returns raw[pos : pos + j], "
        "0 <= j <= k, and leaves pos + j (L1); the span rules R1/R3/R6 use the complete-read reading j == k (L1c: header words exist by the premise of "
        "the property, scan words are used behind the code's own length check, read_nonce's short reads are R7's); x[lo:hi] of a span (s, k), "
        "0 <= lo <= hi <= k, is (s + lo, hi - lo) (L2)",
        "lemma L10: a seek that raises leaves the position unchanged; relative seeks by d >= 0 and absolute seeks to a position the cursor has had do not "
        "raise; reads of the underlying file do not raise; for 0 <= j <= k: -k + j == 0 iff j == k, and -k + j + (k - j) == 0 for every j",
        "lemma L3: u32le(a) ^ u32le(b) == u32le(xor(a, b)) for 4-byte words (little-endian unsigned decode is a bijection of bit "
        "positions, XOR is bitwise); '<I'/'<L', int.from_bytes(.., 'little', signed=False), utils.unpack(size=4, little, unsigned) are that decode",
        "lemma L4: over the integers a < b iff a - b + 1 <= 0 (branch edges as linear facts)",
        "lemma L5: len(xor(data, key)) == len(data); bytes()/bytearray()/memoryview() preserve length",
        "lemma L6: an initially empty bytes accumulator / joined word list / write-only BytesIO / byte counter that receives every "
        "chunk exactly once measures the bytes consumed from the underlying file",
        "lemma L7: after consuming c bytes from p0, a relative seek by n - c (absolute: tell() + n - c) leaves the file at p0 + n",
        "lemma L12: what read() has consumed only grows while it runs, so 'fewer than n bytes consumed when the reads are over' implies <tracker> < n "
        "at every earlier test; a give-back executed then leaves the file at <start> + n, beyond the <start> + <consumed> bytes returned",
        "lemma L8: range(0, m, 1), or a counter from 0 stepped by exactly 1 and used under i < m, visits every integer 0 .. m - 1",
        "lemma L9: a whole word read at the cursor is the rolling key of the position right after that read, read_nonce() returns the key "
        "of the position it is called at, and neither is the key of any other position (arbitrary file contents): a key cached in an "
        "attribute is right only if the cursor has not moved since, or a constant has been stored since",
        "lemma L11: the cursor position and the end of the underlying file are not functions of the offset argument, the constructor's arguments and "
        "bytes read at fixed places of the file (complete fixed-size reads are content; the size word of the header is not validated: marker-only "
        "detection, explicit nonce_offset, truncated / padded stages); read() delivers decoded bytes up to the end of the underlying file, so the view ends at "
        "<end of file> - (nonce_offset + 8); functions only know what they are handed, module-level names carry no information about the file",
        "struct.calcsize on constant format strings of the code (constant folding)",
        "scanner obligations of rules/c15.py (imported as R5)",
    ]
    r1(ctx)
    r2(ctx)
    r3(ctx)
    r4(ctx)
    r6(ctx)
    r7(ctx)
    r8(ctx)
    r9(ctx)
    # automatic detection relies on the marker scan: the scanner obligations of C15 are necessary conditions here
    from rules import c15

    ctx.import_obligations("R5", c15.scanner_obligations, "")


# ============================================================================================== R1: header length
def r1(ctx):
    _r1_tell(ctx)
    _r1_seek(ctx)
    _r1_init(ctx)
    _r1_size_relation(ctx)
    _r1_first_word(ctx)


def _raw_tell_special(f):
    def sp(x):
        if isinstance(x, ast.Call) and isinstance(x.func, ast.Attribute) and x.func.attr == "tell" and not x.args and _is_raw(f.node, x.func.value):
            return POS
        return None

    return sp


def _r1_tell(ctx):
    tell = ctx.repo.func(f"{CLS}.tell")
    rets = [s for s in statements(tell.node) if isinstance(s, ast.Return) and s.value is not None]
    if not rets:
        ctx.undecided("R1", "CURSOR", tell, "return ?", "tell() has no return value to compare")
        return
    want = POS - H
    for r in rets:
        p = _poly(ctx, tell, r.value, _raw_tell_special(tell))
        _emit(ctx, "R1", "CURSOR", tell, "return " + src(r.value), _verdict(p, want),
              f"tell() = {p}: raw position - (nonce_offset + 8)", f"tell() = {p}; required raw position - (nonce_offset + 8)", r)


# ---- value sources (R8): where the number a seek of the underlying file is given comes from
_SRC_OFFSET = "the offset argument"
_SRC_POSITION = "the current position of the underlying file"
_SRC_CONTENT = "bytes read from the underlying file at a fixed place (header words)"
_SRC_CTOR = "arguments of the constructor"
_SRC_UNKNOWN = "?"


def _name_pairs(st) -> Optional[List[Tuple[str, ast.AST]]]:
    """[(local, expression)] for `x = E`, `x: T = E` and the paired tuple assignment `a, b = E1, E2` (all right-hand sides
    are evaluated before the first store); None for any other form of store."""
    if isinstance(st, ast.AnnAssign):
        if not (isinstance(st.target, ast.Name) and st.value is not None):
            return None
        tgt, val = st.target, st.value
    elif isinstance(st, ast.Assign) and len(st.targets) == 1:
        tgt, val = st.targets[0], st.value
    else:
        return None
    if any(isinstance(x, ast.NamedExpr) for x in ast.walk(val)):
        return None
    if isinstance(tgt, ast.Name):
        return [(tgt.id, val)]
    if isinstance(tgt, (ast.Tuple, ast.List)) and isinstance(val, (ast.Tuple, ast.List)) and len(tgt.elts) == len(val.elts) \
            and all(isinstance(x, ast.Name) for x in tgt.elts) and not any(isinstance(x, ast.Starred) for x in val.elts):
        return [(t.id, e) for t, e in zip(tgt.elts, val.elts)]
    return None


def _accessor_body(ctx, f, c: ast.Call):
    """(method, expression) when `self.m()` calls a one-expression accessor of the same class, else None."""
    if c.args or c.keywords:
        return None
    g = _self_callee(ctx, f, c)
    if g is None or len(params(g.node)) != 1:
        return None
    body = g.node.body
    if len(body) == 1 and isinstance(body[0], ast.Return) and body[0].value is not None:
        return g, body[0].value
    return None


def _ctor_attr_sources(ctx, attr: str, depth: int) -> frozenset:
    """Sources of an instance attribute that only the constructor binds, unconditionally and once: its arguments, constants,
    complete fixed-size reads of the underlying file (file *content*).  Anything else - an attribute that another method
    writes (state), a conditional store, a read without a constant size (its length tells where the file ends), a seek
    result, a call that is handed the file - is unknown."""
    unknown = frozenset([_SRC_UNKNOWN])
    if depth > 6:
        return unknown
    init = None
    stores = []
    for m in _instance_methods(ctx):
        for st, a, v in _attr_stores(m):
            if a != attr:
                continue
            if _mname(m) != "__init__":
                return unknown
            init = m
            stores.append((st, v))
    if init is None or len(stores) != 1 or stores[0][1] is None:
        return unknown
    # bound from outside as well (`xf.<attr> = ..` in a classmethod / function of the module): not the constructor's alone
    n_mod = sum(1 for x in ast.walk(init.module.tree) if isinstance(x, ast.Attribute) and x.attr == attr and isinstance(x.ctx, (ast.Store, ast.Del)))
    if n_mod != 1:
        return unknown
    fn = init.node
    st, v = stores[0]
    if not any(st is x for x in fn.body):
        return unknown  # bound under a condition / in a loop: control dependence is not followed
    ps = params(fn)
    rawp = tuple(x.value.id for x in fn.body if isinstance(x, ast.Assign) and len(x.targets) == 1 and dotted(x.targets[0]) == RAW
                 and isinstance(x.value, ast.Name) and x.value.id in ps and not assignments_to(fn, x.value.id))
    envd: Dict[str, frozenset] = {}
    for p_ in ps[1:]:
        envd[p_] = unknown if p_ in rawp or assignments_to(fn, p_) else frozenset([_SRC_CTOR])
    # the locals of the constructor: straight-line single definitions only
    for x in fn.body:
        pairs = _name_pairs(x) if isinstance(x, (ast.Assign, ast.AnnAssign)) else None
        for nm, e in pairs or []:
            if nm not in envd and len(assignments_to(fn, nm)) == 1:
                envd[nm] = _sources(ctx, init, e, envd, depth + 1, (RAW,) + rawp, True)
    return _sources(ctx, init, v, envd, depth + 1, (RAW,) + rawp, True)


def _sources(ctx, f, e, envd: Dict[str, frozenset], depth: int = 0, rawnames=(RAW,), in_ctor: bool = False) -> frozenset:
    """Def-use value flow: the set of sources (`_SRC_*`) the value of expression e, evaluated in method f with the locals
    described by envd, is computed from.  An over-approximation of the data dependences as long as `_SRC_UNKNOWN` is not in
    the result: the operands of every operator / call are united (a function only knows what it is handed: a call that is
    handed the view or the underlying file is unknown), properties and one-expression accessors of the class are followed,
    attributes are looked up at their only writer, the constructor (`_ctor_attr_sources`).  Names that are not locals
    (builtins, imported functions, module constants) carry no information about the file."""
    unknown = frozenset([_SRC_UNKNOWN])
    if e is None:
        return frozenset()
    if depth > 6:
        return unknown
    fn = f.node
    ps = params(fn)
    sn = ps[0] if ps else None

    def rec(x) -> frozenset:
        return _sources(ctx, f, x, envd, depth, rawnames, in_ctor)  # `depth` counts hops into other definitions, not the nesting of e

    def union(nodes) -> frozenset:
        out = frozenset()
        for x in nodes:
            out |= rec(x)
        return out

    if isinstance(e, ast.Constant):
        return frozenset()
    if isinstance(e, ast.Name):
        if e.id in envd:
            return envd[e.id]
        if e.id == sn or e.id in ps or assignments_to(fn, e.id):
            return unknown  # the view itself / a parameter or local the walk has not bound
        return frozenset()
    if isinstance(e, ast.Attribute):
        d = dotted(e)
        if d is not None and d in rawnames:
            return unknown  # the file object as a value
        if isinstance(e.value, ast.Name) and e.value.id == sn and f.cls:
            prop = ctx.rs.property_of(f"{f.module.name}.{f.cls}", e.attr)
            if prop is not None:
                body = prop.node.body
                if len(body) == 1 and isinstance(body[0], ast.Return) and body[0].value is not None and len(params(prop.node)) == 1:
                    return _sources(ctx, prop, body[0].value, {}, depth + 1)
                return unknown
            if _class_attr(ctx, f, e.attr) is not None and not any(a == e.attr for m in _instance_methods(ctx) for _s, a, _v in _attr_stores(m)):
                return frozenset() if _const(ctx, f, e) is not None else unknown
            return _ctor_attr_sources(ctx, e.attr, depth + 1)
        if _const(ctx, f, e) is not None:
            return frozenset()
        return rec(e.value)
    if isinstance(e, ast.Call):
        args = list(e.args) + [k.value for k in e.keywords]
        if any(isinstance(a, ast.Starred) for a in e.args) or any(k.arg is None for k in e.keywords):
            return unknown
        if isinstance(e.func, ast.Attribute):
            recv = e.func.value
            if _is_raw(fn, recv, rawnames):
                if e.func.attr == "tell" and not args:
                    return frozenset([_SRC_POSITION])
                if in_ctor and e.func.attr == "read" and len(args) == 1 and _is_int(_const(ctx, f, args[0])) and _const(ctx, f, args[0]) >= 0:
                    return frozenset([_SRC_CONTENT])  # L11: the bytes of a complete fixed-size read say nothing about the end
                return unknown
            if isinstance(recv, ast.Name) and recv.id == sn:
                acc = _accessor_body(ctx, f, e)
                if acc is not None and not in_ctor:
                    return _sources(ctx, acc[0], acc[1], {}, depth + 1)
                return unknown
            return rec(recv) | union(args)
        if isinstance(e.func, ast.Name):
            if e.func.id in envd or e.func.id in ps or assignments_to(fn, e.func.id):
                return unknown  # a callable held in a local
            return union(args)
        return unknown
    if isinstance(e, (ast.BinOp, ast.UnaryOp, ast.BoolOp, ast.Compare, ast.IfExp, ast.Subscript, ast.Slice, ast.Tuple, ast.List, ast.Set,
                      ast.JoinedStr, ast.FormattedValue)):
        return union(x for x in ast.iter_child_nodes(e) if isinstance(x, ast.expr))
    if isinstance(e, ast.Dict):
        return union([k for k in e.keys if k is not None] + list(e.values)) | (unknown if any(k is None for k in e.keys) else frozenset())
    return unknown  # lambda, comprehension, walrus, starred, await/yield: not followed


def _exec_seek(ctx, f, off: str, wh: str, v: int, trace: Optional[dict] = None):
    """Path-wise value flow through seek(offset, whence) under the named assumption whence == v, v one of the whence
    constants of the io protocol (case analysis over a finite vocabulary; constant propagation through the dispatch): the
    structured statements are walked once, tests that become constant under the assumption select the branch, any other
    test that matters gives 'unknown', the offset is a symbol and offset arithmetic is kept in polynomial normal form; no
    loop is entered.  Every store to a local on the path is followed (plain / annotated / paired tuple assignment, `+=`);
    a local stored in a form that is not followed, or inside a statement that is skipped, is unknown from there on.
    Returns (status 'done'|'fall'|'unknown', [(call, offset poly, whence passed)]).

    With `trace` (a dict) the walk also records where the values come from (def-use value flow, R8): `trace["sources"]`
    maps id(<raw seek call>) to the set of sources (`_SRC_*`) its offset argument is computed from on this path, and
    `trace["opaque"]` lists the operations on the path whose effect on the underlying cursor is not followed (raw calls
    other than seek/tell, calls of other methods of the view).

    With `trace["returns"]` (a list; R9) the walk also keeps the raw position as a term of a symbolic cursor (L1: before the
    seek <raw position>; after `seek(p, SEEK_SET)` p, after `seek(d, SEEK_CUR)` position + d, after `seek(d, SEEK_END)`
    <end of file> + d; after anything else that may move the file a fresh symbol), gives the result of a raw seek / a raw
    `tell()` / a call of an argument-less method of the view that only asks for the position (`_reader_term`) the term
    it has *where it is evaluated*, and appends (return statement | None for falling off the end, returned term | "none" |
    None = not an arithmetic term, term tell() returns for the cursor at that point) for the exit of the path."""
    fn = f.node
    env: Dict[str, Optional[SymPoly]] = {wh: SymPoly.const(v)}
    seeks: List[Tuple[ast.Call, Optional[SymPoly], Optional[int]]] = []
    rets = trace.get("returns") if trace is not None else None
    cursor = {"pos": POS, "step": 0}  # R9: term of the raw position, number of (possible) movements so far
    results: Dict[int, SymPoly] = {}  # R9: id(raw seek call) -> the position it returns
    ambiguous: set = set()  # R9: position queries evaluated in the same expression as a raw seek (order not followed)
    # value sources of the locals (R8): the offset parameter is itself, whence is a constant under the case
    envd: Dict[str, frozenset] = {off: frozenset([_SRC_OFFSET]), wh: frozenset()}
    if trace is not None:
        trace.setdefault("sources", {})
        trace.setdefault("opaque", [])

    def sources(e) -> frozenset:
        return _sources(ctx, f, e, envd)

    def forget(st):
        """locals stored by a statement that is not followed are unknown from here on"""
        for x in ast.walk(st):
            if isinstance(x, ast.Name) and isinstance(x.ctx, (ast.Store, ast.Del)):
                env[x.id] = None
                envd[x.id] = frozenset([_SRC_UNKNOWN])
        if rets is not None:
            for x in ast.walk(st):
                if isinstance(x, ast.Call) and disturbs(x):
                    moved()

    def moved(to: Optional[SymPoly] = None):
        """R9: the underlying cursor is (or may be) somewhere else from here on"""
        cursor["step"] += 1
        cursor["pos"] = to if to is not None else SymPoly.atom(f"<raw position after step {cursor['step']}>")

    def disturbs(c: ast.Call) -> bool:
        """R9: a call other than a raw seek (followed) that may move the underlying file: its other operations, methods of
        the view that do more than ask for the position, anything that is handed the view / the file"""
        if isinstance(c.func, ast.Attribute) and _is_raw(fn, c.func.value):
            return c.func.attr not in ("seek",) + _PASSIVE
        g = _self_callee(ctx, f, c)
        if g is not None:
            return _reads_position(ctx, g) and _reader_term(ctx, g, POS, 0) is None
        sn = params(fn)[0]
        return any((isinstance(a, ast.Name) and a.id == sn) or _is_raw(fn, a) for a in list(c.args) + [k.value for k in c.keywords])

    def sp(x):
        if rets is not None and isinstance(x, ast.Call) and isinstance(x.func, ast.Attribute):
            if id(x) in ambiguous:
                return SymPoly.atom(f"<{src(x)} next to a seek>")
            if _is_raw(fn, x.func.value):
                if x.func.attr == "seek":
                    return results.get(id(x))
                if x.func.attr == "tell" and not x.args and not x.keywords:
                    return cursor["pos"]
            else:
                g = _self_callee(ctx, f, x)
                if g is not None and not x.args and not x.keywords and _reads_position(ctx, g):
                    return _reader_term(ctx, g, cursor["pos"], cursor["step"])
        if isinstance(x, ast.Name) and x.id in env:
            return env[x.id] if env[x.id] is not None else SymPoly.atom(f"<{x.id}?>")
        if isinstance(x, ast.IfExp):
            t = tv(x.test)
            if t is not None:
                return poly(x.body if t else x.orelse)
        if isinstance(x, ast.Call) and isinstance(x.func, ast.Attribute) and x.func.attr == "get" and 1 <= len(x.args) <= 2 and not x.keywords:
            # {SEEK_SET: shift}.get(whence, 0): a table keyed by constants
            tab = origin(fn, x.func.value)
            k = cval(x.args[0])
            if isinstance(tab, ast.Dict) and k is not None and all(kk is not None and _is_int(_const(ctx, f, kk)) for kk in tab.keys):
                for kk, vv in zip(tab.keys, tab.values):
                    if _const(ctx, f, kk) == k:
                        return poly(vv)
                return poly(x.args[1]) if len(x.args) == 2 else None
        return None

    def poly(e):
        return _poly(ctx, f, e, sp)

    def cval(e):
        p = poly(e)
        c = p.const_value() if p is not None else None
        return int(c) if c is not None and c.denominator == 1 else None

    def tv(t):
        if isinstance(t, ast.UnaryOp) and isinstance(t.op, ast.Not):
            x = tv(t.operand)
            return None if x is None else not x
        if isinstance(t, ast.BoolOp):
            vals = [tv(x) for x in t.values]
            if isinstance(t.op, ast.And):
                return False if any(x is False for x in vals) else (True if all(x is True for x in vals) else None)
            return True if any(x is True for x in vals) else (False if all(x is False for x in vals) else None)
        if isinstance(t, ast.Compare) and len(t.ops) == 1:
            op, l, r = t.ops[0], t.left, t.comparators[0]
            a = cval(l)
            if isinstance(op, (ast.In, ast.NotIn)):
                vals = _const(ctx, f, r)
                if a is None or not isinstance(vals, (tuple, list, set, frozenset)):
                    return None
                return (a in vals) == isinstance(op, ast.In)
            b = cval(r)
            if a is None or b is None:
                return None
            for kind, fn_ in ((ast.Eq, lambda: a == b), (ast.Is, lambda: a == b), (ast.NotEq, lambda: a != b), (ast.IsNot, lambda: a != b),
                              (ast.Lt, lambda: a < b), (ast.LtE, lambda: a <= b), (ast.Gt, lambda: a > b), (ast.GtE, lambda: a >= b)):
                if isinstance(op, kind):
                    return fn_()
            return None
        if isinstance(t, ast.Constant):
            return bool(t.value)
        c = cval(t)
        return None if c is None else bool(c)

    def collect(e):
        if e is None:
            return
        # the calls that are evaluated under the case: a conditional expression whose test is constant under the case evaluates one arm
        # only; calls under a test that is not, behind a short-circuit operator or inside a lambda / comprehension are `conditional`
        live: List[ast.Call] = []
        conditional: set = set()

        def gather(x, cond: bool):
            if isinstance(x, ast.IfExp):
                t = tv(x.test)
                gather(x.test, cond)
                for arm in ((x.body,) if t is True else (x.orelse,) if t is False else (x.body, x.orelse)):
                    gather(arm, cond or t is None)
                return
            if isinstance(x, ast.Call):
                live.append(x)
                if cond:
                    conditional.add(id(x))
            sub_cond = cond or isinstance(x, (ast.Lambda, ast.ListComp, ast.SetComp, ast.DictComp, ast.GeneratorExp))
            for k, ch in enumerate(ast.iter_child_nodes(x)):
                gather(ch, sub_cond or (isinstance(x, ast.BoolOp) and k > 1))  # child 0 of a BoolOp is the operator, child 1 its first operand

        gather(e, False)
        calls = sorted(live, key=lambda c: (getattr(c, "lineno", 0), getattr(c, "col_offset", 0)))
        rseeks = [c for c in calls if isinstance(c.func, ast.Attribute) and c.func.attr == "seek" and _is_raw(fn, c.func.value)] if rets is not None else []
        if rseeks:
            # arguments are evaluated before the call: a position query inside the arguments of the only seek sees the cursor before it
            before = {id(x) for x in ast.walk(rseeks[0])} if len(rseeks) == 1 else set()
            for c in calls:
                if id(c) in before:
                    continue
                if isinstance(c.func, ast.Attribute) and ((c.func.attr == "tell" and _is_raw(fn, c.func.value))
                                                         or (_self_callee(ctx, f, c) is not None and _reads_position(ctx, _self_callee(ctx, f, c)))):
                    ambiguous.add(id(c))
        for c in calls:
            if isinstance(c.func, ast.Attribute) and c.func.attr == "seek" and _is_raw(fn, c.func.value):
                a, w = _seek_args(c)
                seeks.append((c, poly(a) if a is not None else None, 0 if w is None else cval(w)))
                if trace is not None:
                    trace["sources"][id(c)] = sources(a) if a is not None else frozenset([_SRC_UNKNOWN])
                if rets is not None:
                    _c0, pa, pw = seeks[-1]
                    moved(None if pa is None or pw not in (0, 1, 2) or id(c) in conditional else pa if pw == 0 else (cursor["pos"] + pa) if pw == 1 else END + pa)
                    results[id(c)] = cursor["pos"]  # L1: seek returns the new position
                continue
            if rets is not None and disturbs(c):
                moved()
            if trace is not None and isinstance(c.func, ast.Attribute) and (
                    (_is_raw(fn, c.func.value) and c.func.attr not in ("tell", "seekable", "readable", "fileno"))
                    or (_self_callee(ctx, f, c) is not None and _accessor_body(ctx, f, c) is None)):
                trace["opaque"].append(c)

    def touches(st) -> bool:
        for x in ast.walk(st):
            if isinstance(x, ast.Call) and isinstance(x.func, ast.Attribute) and _is_raw(fn, x.func.value) and x.func.attr not in ("tell",):
                return True
            if isinstance(x, ast.Name) and isinstance(x.ctx, ast.Store) and x.id in (off, wh):
                return True
            if isinstance(x, (ast.Return, ast.Raise)):
                return True
        return False

    def _match_case(pat, subj):
        """True/False: the pattern matches the int subject; None: not a pattern of constants"""
        if isinstance(pat, ast.MatchValue):
            c = cval(pat.value)
            return None if c is None else c == subj
        if isinstance(pat, ast.MatchOr):
            vals = [_match_case(x, subj) for x in pat.patterns]
            return None if any(x is None for x in vals) else any(vals)
        if isinstance(pat, ast.MatchAs) and pat.pattern is None:
            return True
        return None

    def leave(st):
        """R9: the path ends here with a value (None: by falling off the end)"""
        if rets is None:
            return
        tellf = ctx.repo.func(f"{CLS}.tell") if ctx.repo.has_func(f"{CLS}.tell") else None
        want = _reader_term(ctx, tellf, cursor["pos"], cursor["step"]) if tellf is not None else None
        val = st.value if st is not None else None
        if val is None or (isinstance(val, ast.Constant) and val.value is None):
            rets.append((st, "none", want))
        else:
            rets.append((st, poly(val), want))

    def run(body) -> str:
        for st in body:
            if isinstance(st, ast.If):
                t = tv(st.test)
                if t is None:
                    if not touches(st):
                        forget(st)
                        continue
                    return "unknown"
                r = run(st.body if t else st.orelse)
                if r != "fall":
                    return r
            elif isinstance(st, getattr(ast, "Match", ())):
                subj = cval(st.subject)
                chosen = None
                for case in st.cases:
                    hit = _match_case(case.pattern, subj)
                    if hit is None or case.guard is not None or subj is None:
                        chosen = "unknown"
                        break
                    if hit:
                        chosen = case
                        break
                if chosen == "unknown":
                    if touches(st):
                        return "unknown"
                    forget(st)
                    continue
                if chosen is not None:
                    r = run(chosen.body)
                    if r != "fall":
                        return r
            elif isinstance(st, (ast.Assign, ast.AnnAssign)) and _name_pairs(st) is not None:
                # `x = E`, `x: T = E`, `a, b = E1, E2`: the right-hand sides are evaluated first, then bound
                collect(st.value)
                pairs = _name_pairs(st)
                vals = [(nm, poly(e), sources(e)) for nm, e in pairs]
                for nm, p, d in vals:
                    env[nm], envd[nm] = p, d
            elif isinstance(st, ast.AugAssign) and isinstance(st.target, ast.Name) and isinstance(st.op, (ast.Add, ast.Sub)):
                collect(st.value)
                cur, d = poly(ast.Name(id=st.target.id, ctx=ast.Load())), poly(st.value)
                ds = sources(ast.Name(id=st.target.id, ctx=ast.Load())) | sources(st.value)
                env[st.target.id] = None if cur is None or d is None else (cur + d if isinstance(st.op, ast.Add) else cur - d)
                envd[st.target.id] = ds
            elif isinstance(st, ast.Return):
                collect(st.value)
                leave(st)
                return "done"
            elif isinstance(st, ast.Raise):
                return "done"
            elif isinstance(st, (ast.Expr, ast.Assign, ast.AnnAssign, ast.AugAssign)):
                collect(getattr(st, "value", None))
                forget(st)
            elif isinstance(st, ast.Pass):
                continue
            elif touches(st):
                return "unknown"
            else:
                forget(st)
        return "fall"

    status = run(fn.body)
    if status == "fall":
        leave(None)
    return status, seeks


def _reads_position(ctx, g, depth: int = 0) -> bool:
    """The method touches the underlying file or calls methods of the view (conservative: what it returns may depend on the
    cursor); False for accessors that only combine attributes and constants."""
    if depth > 3:
        return True
    sn = params(g.node)[0] if params(g.node) else None
    for c in fn_calls(g.node):
        if isinstance(c.func, ast.Attribute) and _is_raw(g.node, c.func.value):
            return True
        if any(_is_raw(g.node, a) or (isinstance(a, ast.Name) and a.id == sn) for a in list(c.args) + [k.value for k in c.keywords]):
            return True  # the file / the view handed on
        g2 = _self_callee(ctx, g, c)
        if g2 is not None and _reads_position(ctx, g2, depth + 1):
            return True
    return False


def _reader_term(ctx, g, pos: SymPoly, step: int, depth: int = 0) -> Optional[SymPoly]:
    """Term of what the argument-less method g of the view returns when it is called with the underlying cursor at `pos`,
    for a method that only *asks* the underlying file for its position: straight-line single assignments to locals and one
    final return, no operation of the underlying file but `tell()`, calls of methods of the view only of the same kind
    (terms by substituting definitions - device 3).  tell() itself, when it is not of that form, is the opaque term
    "<tell() at step k>" - equal to itself as long as nothing may have moved the file in between.  None: not such a method."""
    fn = g.node
    is_tell = ctx.repo.has_func(f"{CLS}.tell") and ctx.repo.func(f"{CLS}.tell").node is fn
    opaque = SymPoly.atom(f"<tell() at step {step}>") if is_tell else None
    if depth > 3 or len(params(fn)) != 1 or not fn.body:
        return opaque
    *head, last = fn.body
    if not (isinstance(last, ast.Return) and last.value is not None) or any(isinstance(x, ast.Return) for st in head for x in ast.walk(st)):
        return opaque
    for st in head:
        pairs = _name_pairs(st) if isinstance(st, (ast.Assign, ast.AnnAssign)) else None
        if pairs is None or any(len(assignments_to(fn, nm)) != 1 for nm, _e in pairs):
            return opaque
    for c in fn_calls(fn):
        if isinstance(c.func, ast.Attribute) and _is_raw(fn, c.func.value) and not (c.func.attr == "tell" and not c.args and not c.keywords):
            return opaque
        if any(_is_raw(fn, a) or (isinstance(a, ast.Name) and a.id == params(fn)[0]) for a in list(c.args) + [k.value for k in c.keywords]):
            return opaque
    failed = []

    def sp(x):
        if isinstance(x, ast.Call) and isinstance(x.func, ast.Attribute):
            if _is_raw(fn, x.func.value):
                return pos
            g2 = _self_callee(ctx, g, x)
            if g2 is not None and _reads_position(ctx, g2):
                t = _reader_term(ctx, g2, pos, step, depth + 1) if not x.args and not x.keywords else None
                if t is None:
                    failed.append(x)
                    return SymPoly.atom(f"<{src(x)}?>")
                return t
        return None

    p = _poly(ctx, g, last.value, sp)
    return opaque if p is None or failed else p


def _r1_seek(ctx):
    seek = ctx.repo.func(f"{CLS}.seek")
    ps = params(seek.node)
    t_all = "both whence classes handled"
    if len(ps) < 3 or not _raw_calls(seek, "seek"):
        ctx.undecided("R1", "CURSOR", seek, t_all, "seek(offset, whence) does not forward to a seek of the underlying file that can be located")
        return
    off, wh = ps[1], ps[2]
    OFF = SymPoly.atom(off)
    served = {}
    for name, v in _WHENCE.items():  # case analysis over the whence vocabulary of the io protocol (reference table)
        status, seeks = _exec_seek(ctx, seek, off, wh, v)
        text = f"seek(offset, {name})"
        if status == "unknown" or len(seeks) > 1:
            served[v] = "unknown"
            ctx.undecided("R1", "CURSOR", seek, text, f"cannot follow seek() for whence == {name}" + (f": {len(seeks)} seeks of the underlying file" if len(seeks) > 1 else ""))
            continue
        if not seeks:
            served[v] = "bad"
            ctx.ob("R1", "CURSOR", seek, text, False, f"with whence == {name} the underlying file is not moved at all")
            continue
        served[v] = "ok"
        c, pa, pw = seeks[0]
        if pw is None or pw != (0 if v == 0 else v):
            ctx.undecided("R1", "CURSOR", seek, text, f"whence == {name} is served by `{src(c)}` with whence {pw if pw is not None else '?'}: not a plain translation/forwarding", c)
            continue
        if v == 0:
            _emit(ctx, "R1", "CURSOR", seek, text, _verdict(pa, OFF + H), f"moves the raw file to {pa}: offset + (nonce_offset + 8)",
                  f"seek(SEEK_SET) moves the raw file to {pa}; required offset + (nonce_offset + 8)", c)
        else:
            _emit(ctx, "R1", "CURSOR", seek, text, _verdict(pa, OFF, vocab=H.atoms()), "relative/end seeks are forwarded unchanged",
                  f"relative/end seeks move the raw file by {pa}; required: forwarded unchanged", c)
    v_all = _worst(served.values())
    _emit(ctx, "R1", "CURSOR", seek, t_all, v_all, "SEEK_SET, SEEK_CUR and SEEK_END all reach the underlying file",
          f"whence values reaching the underlying file: { {k: v for k, v in served.items()} }; required: all of SEEK_SET, SEEK_CUR, SEEK_END")


def _r1_init(ctx):
    init = ctx.repo.func(f"{CLS}.__init__")
    fn = init.node
    # `self.fh = fh` / `self.nonce_offset = nonce_offset`: the parameter and the attribute are the same value
    alias = {}
    for st in statements(fn):
        if isinstance(st, ast.Assign) and len(st.targets) == 1 and isinstance(st.value, ast.Name) and st.value.id in params(fn) and not assignments_to(fn, st.value.id):
            d = dotted(st.targets[0])
            if d and d.startswith("self.") and d.count(".") == 1:
                alias[st.value.id] = d
    rawnames = (RAW,) + tuple(p for p, d in alias.items() if d == RAW)

    def sp(x):
        if isinstance(x, ast.Name) and x.id in alias:
            return SymPoly.atom(alias[x.id])
        return None

    def poly(e):
        return _poly(ctx, init, e, sp)

    pos, spans, problem = _simulate(ctx, init, fn_calls(fn), None, poly, rawnames)
    if problem is not None or pos is None:
        ctx.undecided("R1", "CURSOR", init, "cursor after __init__", problem or "the constructor does not position the underlying file")
    else:
        _emit(ctx, "R1", "CURSOR", init, "cursor after __init__", _verdict(pos, H),
              f"raw cursor after the constructor is {pos}: nonce_offset + 8 (logical position 0)", f"raw cursor after the constructor is {pos}; required nonce_offset + 8 (logical position 0)")
    # the two header words: initial_nonce = raw[nonce_offset : +4], nonced_filesize = raw[nonce_offset + 4 : +4]
    NO = SymPoly.atom("self.nonce_offset")
    want = {"self.initial_nonce": (NO, 4), "self.nonced_filesize": (NO + SymPoly.const(4), 4)}
    got = {}
    for st in statements(fn):
        if isinstance(st, ast.Assign):
            for t in st.targets:
                if dotted(t) in want:
                    got.setdefault(dotted(t), []).append(st.value)
                elif isinstance(t, (ast.Tuple, ast.List)) and any(dotted(x) in want for x in t.elts):
                    paired = isinstance(st.value, (ast.Tuple, ast.List)) and len(st.value.elts) == len(t.elts)
                    for k, x in enumerate(t.elts):
                        if dotted(x) in want:
                            got.setdefault(dotted(x), []).append(st.value.elts[k] if paired else ast.Subscript(value=st.value, slice=ast.Constant(value=k), ctx=ast.Load()))
    vs, notes = [], []
    if "self.initial_nonce" not in got:
        vs.append("unknown")
        notes.append("initial_nonce is not bound in the constructor")
    for name, vals in got.items():
        for v in vals:
            sp_ = _span_of(ctx, init, v, spans) if problem is None else None
            if sp_ is None:
                vs.append("unknown")
                notes.append(f"{name} = {src(v)}: not a located header read")
            elif sp_[1] == want[name][1] and sp_[0] == want[name][0]:
                vs.append("ok")
                notes.append(f"{name} = raw[{sp_[0]} : +{sp_[1]}]")
            else:
                vs.append("bad" if sp_[0].atoms() <= NO.atoms() else "unknown")
                notes.append(f"{name} = raw[{sp_[0]} : +{sp_[1]}]; required raw[{want[name][0]} : +4]")
    _emit(ctx, "R1", "AGREE", init, "initial_nonce, nonced_filesize", _worst(vs), "the two header words: " + "; ".join(notes), "; ".join(notes))


def _origin1(fn, e, depth: int = 0):
    """origin() that also sees through a one-element unpacking `(x,) = E` (as `E[0]`)."""
    e = origin(fn, e)
    if isinstance(e, ast.Name) and e.id not in params(fn) and depth < 4:
        hits = [st for st in statements(fn) if isinstance(st, ast.Assign) and len(st.targets) == 1 and isinstance(st.targets[0], (ast.Tuple, ast.List))
                and any(isinstance(x, ast.Name) and x.id == e.id for x in st.targets[0].elts)]
        if len(hits) == 1 and len(assignments_to(fn, e.id)) == 1 and len(hits[0].targets[0].elts) == 1:
            return ast.Subscript(value=hits[0].value, slice=ast.Constant(value=0), ctx=ast.Load())
    return e


def _u32le_operand(ctx, f, e):
    """('ok', operand) when e decodes `operand` as an unsigned little-endian 32-bit integer, ('bad', why) when it is an
    integer decode with other parameters, None when e is not a recognised decode."""
    e = strip_cast(e)
    if isinstance(e, ast.Subscript) and isinstance(e.value, ast.Call) and dotted(e.value.func) == "struct.unpack" and _c(e.slice) == 0 and len(e.value.args) == 2:
        fmt = _const(ctx, f, e.value.args[0])
        return ("ok", e.value.args[1]) if fmt in ("<I", "<L") else ("bad", f"struct format {fmt!r}")
    if not isinstance(e, ast.Call):
        return None
    cal = ctx.rs.resolve_call(f, e)
    if cal.kind == "func" and cal.func is not None and cal.func.fq == "utils.unpack":
        callee = cal.func.node
        b = bind_args(e, callee)
        names = params(callee)
        explicit = set(names[: len(e.args)]) | {k.arg for k in e.keywords}
        for k, v in (cal.bound or {}).items():
            if k not in explicit:
                b[k] = v
        size, order, signed = _const(ctx, f, b.get("size")), _const(ctx, f, b.get("byteorder")), _const(ctx, f, b.get("signed"))
        if size == 4 and order == "little" and not signed:
            return "ok", b.get("data")
        return "bad", f"size={size}, byteorder={order}, signed={signed}"
    if dotted(e.func) == "int.from_bytes" and e.args:
        order = e.args[1] if len(e.args) > 1 else None
        signed = None
        for k in e.keywords:
            if k.arg == "byteorder":
                order = k.value
            elif k.arg == "signed":
                signed = k.value
        o, s = _const(ctx, f, order), (_const(ctx, f, signed) if signed is not None else False)
        if o == "little" and s is False:
            return "ok", e.args[0]
        return "bad", f"int.from_bytes(byteorder={o!r}, signed={s})"
    return None


def _r1_size_relation(ctx):
    ino = ctx.repo.func("xordecode.iter_nonce_offsets")
    fn = ino.node
    ps = params(fn)
    yields = [n for n in body_walk(fn) if isinstance(n, ast.Yield)]
    cands = {dotted(y.value) for y in yields if y.value is not None}
    if not yields or len(cands) != 1 or None in cands or len(ps) < 2:
        for text in ("size relation", "decoded_size = u32(xor(nonce, size))"):
            ctx.undecided("R1", "CURSOR" if text == "size relation" else "AGREE", ino, text, "iter_nonce_offsets does not yield a single scan variable guarded by a size test")
        return
    i = cands.pop()
    # names that hold the total size: the second parameter and locals computed from it
    totals = {ps[1]}
    for _ in range(3):
        for st in statements(fn):
            if isinstance(st, ast.Assign) and len(st.targets) == 1 and isinstance(st.targets[0], ast.Name) and any(isinstance(n, ast.Name) and n.id in totals for n in ast.walk(st.value)) \
                    and not isinstance(strip_cast(st.value), (ast.BinOp, ast.UnaryOp)):  # arithmetic on the total is expanded, not a total itself
                totals.add(st.targets[0].id)
    totals.discard(i)
    calls: Dict[str, ast.AST] = {}

    def sp(x):
        if isinstance(x, (ast.Call, ast.Subscript)):
            calls.setdefault(src(x), x)
        if isinstance(x, ast.Subscript):
            return SymPoly.atom(src(x))
        if isinstance(x, ast.BinOp) and not isinstance(x.op, (ast.Add, ast.Sub, ast.Mult, ast.Div)):
            calls.setdefault(src(x), x)  # e.g. u32(nonce) ^ u32(size): an opaque term of the relation
            return SymPoly.atom(src(x))
        return None

    I, EIGHT = SymPoly.atom(i), SymPoly.const(8)
    verdicts, details, decoded = [], [], []
    for y in yields:
        found = None
        for eq in _equalities(ctx, ino, y):
            l, r = _poly(ctx, ino, eq.left, sp, stop=frozenset(totals | {i})), _poly(ctx, ino, eq.comparators[0], sp, stop=frozenset(totals | {i}))
            if l is None or r is None:
                continue
            diff = l - r
            rest = diff.atoms() - {i} - totals
            tot = diff.atoms() & totals
            if len(rest) != 1 or len(tot) != 1 or not (diff.atoms() >= {i}):
                if rest and tot:
                    found = found or ("unknown", f"size relation {src(eq)} = {diff} is not over <decoded size>, <offset>, <total size> only", None)
                continue
            D = rest.pop()
            want = SymPoly.atom(D) + I + EIGHT - SymPoly.atom(tot.pop())
            if diff == want or diff == -want:
                found = ("ok", f"size relation {src(eq)}: header length 8 agrees with tell/seek", D)
            else:
                found = ("bad", f"size relation {src(eq)} = {diff}; required <decoded size> + <offset> + 8 - <total size>", D)
            break
        if found is None:
            found = ("bad", "a candidate offset is yielded without a dominating `decoded size + offset + 8 == total size` test", None)
        verdicts.append(found[0])
        details.append(found[1])
        if found[2] is not None:
            decoded.append(found[2])
    v = _worst(verdicts)
    pick = [d for x, d in zip(verdicts, details) if x == v]
    _emit(ctx, "R1", "CURSOR", ino, "size relation", v, pick[0], pick[0])
    # the decoded size: u32-le of the XOR of the two 4-byte words read at the candidate
    text = "decoded_size = u32(xor(nonce, size))"
    if not decoded:
        ctx.undecided("R1", "AGREE", ino, text, "no size relation located: the decoded size cannot be identified")
        return
    vs, notes = [], []
    for D in dict.fromkeys(decoded):
        e = calls.get(D)
        if e is None and D.isidentifier():
            e = _origin1(fn, ast.Name(id=D, ctx=ast.Load()))
        ops = None
        if isinstance(e, ast.BinOp) and isinstance(e.op, ast.BitXor):
            # u32(a) ^ u32(b) == u32(xor(a, b))
            sides = [_u32le_operand(ctx, ino, _origin1(fn, x)) for x in (e.left, e.right)]
            if any(d is None for d in sides):
                vs.append("unknown")
                notes.append(f"decoded size `{D}`: the XOR operands are not recognised integer decodes")
                continue
            if any(d[0] == "bad" for d in sides):
                vs.append("bad")
                notes.append(f"decoded size `{D}` is not the XOR of two unsigned little-endian u32 ({[d[1] for d in sides if d[0] == 'bad'][0]})")
                continue
            ops = [d[1] for d in sides]
        else:
            dec = _u32le_operand(ctx, ino, e) if e is not None else None
            if dec is None:
                vs.append("unknown")
                notes.append(f"decoded size `{D}` is not a recognised integer decode")
                continue
            if dec[0] == "bad":
                vs.append("bad")
                notes.append(f"decoded size `{D}` is not an unsigned little-endian u32 ({dec[1]})")
                continue
            x = origin(fn, dec[1]) if dec[1] is not None else None
            if not (isinstance(x, ast.Call) and ctx.rs.resolve_call(ino, x).fq == "utils.xor"):
                vs.append("bad" if isinstance(x, (ast.Call, ast.Name, ast.Subscript)) else "unknown")
                notes.append(f"decoded size is u32 of `{src(x)}`: not the XOR of the nonce word and the size word")
                continue
            ops = list(x.args) + [k.value for k in x.keywords]
        # the words: raw[i : i + 4] and raw[i + 4 : i + 8], read in the scan iteration that yields i
        fv = FuncView.of(fn)
        loop = fv.enclosing(yields[0], (ast.For, ast.While))
        _pos, spans, problem = _simulate(ctx, ino, fn_calls(fn), None, lambda e: _poly(ctx, ino, e, stop=frozenset({i})), rawnames=(ps[0],), scope=loop) if loop is not None else (None, {}, "no scan loop")
        got = [_span_of(ctx, ino, o, spans) for o in ops]
        if problem is not None or len(ops) != 2 or any(g is None for g in got):
            located = len(ops) == 2 and all(isinstance(origin(fn, o), (ast.Call, ast.Subscript)) for o in ops) and problem is None
            vs.append("unknown" if not located else "bad")
            notes.append(f"XOR operands {[src(o) for o in ops]} cannot be placed in the file" + (f" ({problem})" if problem else ""))
            continue
        need = {(I, 4), (I + SymPoly.const(4), 4)}
        two = set(got) == need
        vs.append("ok" if two else ("bad" if all(g[0].atoms() <= {i} for g in got) else "unknown"))
        notes.append("size dword is un-XORed with the nonce (the two 4-byte words read at the candidate) and read little-endian" if two else
                     f"XOR operands are {[f'raw[{g[0]} : +{g[1]}]' for g in got]}: not the two 4-byte words at the candidate offset")
    _emit(ctx, "R1", "AGREE", ino, text, _worst(vs), "; ".join(notes), "; ".join(notes))


def _r1_first_word(ctx):
    rn = ctx.repo.func(f"{CLS}.read_nonce")
    fn = rn.node
    fv = FuncView.of(fn)
    text = "first-word boundary"
    posv = {st.targets[0].id for st in statements(fn) if isinstance(st, ast.Assign) and len(st.targets) == 1 and isinstance(st.targets[0], ast.Name)
            and _raw_tell_special(rn)(strip_cast(st.value)) is not None}
    tell_sp = _raw_tell_special(rn)

    def sp(x):
        if isinstance(x, ast.Name) and x.id in posv:
            return POS
        return tell_sp(x)

    def poly(e):
        return _poly(ctx, rn, e, sp, stop=frozenset(posv))

    # the sinks: every use of self.initial_nonce (normally its slice from the offset within the first word)
    sinks = []
    for n in body_walk(fn):
        if isinstance(n, ast.Attribute) and isinstance(n.ctx, ast.Load) and dotted(n) == "self.initial_nonce":
            par = fv.parent.get(id(n))
            sinks.append(par if isinstance(par, ast.Subscript) and par.value is n else n)
    if not sinks:
        ctx.undecided("R1", "CURSOR", rn, text, "read_nonce does not use self.initial_nonce: the first-word handling cannot be located")
        return
    FOUR = SymPoly.const(4)
    want_fact = POS - H - FOUR + SymPoly.const(1)  # pos < nonce_offset + 12
    vs, notes = [], []
    for s in sinks:
        # a "value or None" offset (an inlined helper): under the None test its only other definition is the value, and
        # what guards that definition guards the sink
        opt = _optionals(ctx, rn, s)

        def sp2(x, opt=opt):
            if isinstance(x, ast.Name) and _root(fn, x) in opt:
                return _poly(ctx, rn, opt[_root(fn, x)][1], sp2, stop=frozenset(posv))
            return sp(x)

        def poly(e, sp2=sp2):
            return _poly(ctx, rn, e, sp2, stop=frozenset(posv))

        facts = [p for p in _linear_facts(ctx, rn, s, poly) + [q for S, _E in opt.values() for q in _linear_facts(ctx, rn, S, poly)] if "<raw position>" in p.atoms()]
        if any(p == want_fact for p in facts):
            vs.append("ok")
            notes.append("initial nonce used while pos < nonce_offset + 12")
        elif not facts or all(p.atoms() <= want_fact.atoms() for p in facts):
            vs.append("bad")
            notes.append(f"initial nonce mixed in under {[f'{p} <= 0' for p in facts] or 'no bound on the position'}; required pos < nonce_offset + 12")
        else:
            vs.append("unknown")
            notes.append(f"position bounds {[f'{p} <= 0' for p in facts]} are not over the position and the header length only")
        # offset within the first word
        if not isinstance(s, ast.Subscript) or not isinstance(s.slice, ast.Slice) or s.slice.step is not None:
            vs.append("unknown")
            notes.append(f"{src(s)} is not a slice")
            continue
        lo = poly(s.slice.lower) if s.slice.lower is not None else SymPoly.const(0)
        v = _verdict(lo, POS - H)
        if s.slice.upper is not None and v == "ok":
            v = "unknown"
        vs.append(v)
        notes.append(f"offset within the first word = {lo}" + ("" if v == "ok" else "; required pos - (nonce_offset + 8)"))
        par = fv.parent.get(id(s))
        if isinstance(par, ast.BinOp) and isinstance(par.op, ast.Add) and par.left is s and isinstance(par.right, ast.Subscript) and isinstance(par.right.slice, ast.Slice):
            o = par.right
            lo2 = poly(o.slice.lower) if o.slice.lower is not None else SymPoly.const(0)
            v2 = _verdict(lo2, FOUR - (POS - H)) if o.slice.upper is None and o.slice.step is None else "unknown"
            vs.append(v2)
            notes.append(f"remainder taken from the previous ciphertext word at {lo2}" + ("" if v2 == "ok" else "; required 4 - (pos - (nonce_offset + 8))"))
    _emit(ctx, "R1", "CURSOR", rn, text, _worst(vs), "; ".join(dict.fromkeys(notes)), "; ".join(dict.fromkeys(notes)))


# ============================================================================================== R2: read accounting
class _Read:
    """Facts about XorEncodedFile.read(): the underlying reads, and the *trackers* of what was consumed - a bytes
    accumulator (`acc += w`, `acc = acc + w`, `acc.extend(w)`), a list of words (`acc.append(w)`, joined later), an in-memory
    stream (`acc.write(w)`, `acc.getvalue()`) or a byte counter (`k += len(w)`), where w has the length of a chunk read from
    the underlying file."""

    def __init__(self, ctx):
        self.ctx = ctx
        self.f = f = ctx.repo.func(f"{CLS}.read")
        self.fn = f.node
        self.cfg = ctx.cfg(f)
        self.fv = FuncView.of(f.node)
        ps = params(f.node)
        self.n = ps[1] if len(ps) > 1 else None
        self.reads = _raw_calls(f, "read")
        self.trk: Dict[str, dict] = {}
        self.assume: Dict[str, bool] = {}
        self.loose_seeks = True  # seeks of the underlying file that are not recognised give-backs may compensate unrecorded reads
        self._find_trackers()

    # -- length provenance
    def chunk_reads(self, e, at, plain: bool = False, depth: int = 0) -> Optional[List[ast.Call]]:
        """The reads of the underlying file whose result e holds at statement `at` (flow-sensitive: a chunk variable may be
        fed by several read sites, e.g. a primed loop), looking through length-preserving wrappers (xor(data=..), bytes(..))
        unless `plain`; None when e is not (only) such a chunk."""
        if e is None or depth > 6:
            return None
        e = strip_cast(e)
        if isinstance(e, ast.Call):
            if any(e is r for r in self.reads):
                return [e]
            if plain:
                return None
            cal = self.ctx.rs.resolve_call(self.f, e)
            if cal.kind == "func" and cal.func is not None and cal.fq == "utils.xor":
                return self.chunk_reads(bind_args(e, cal.func.node).get("data"), at, plain, depth + 1)
            if dotted(e.func) in ("bytes", "bytearray", "memoryview") and len(e.args) == 1 and not e.keywords:
                return self.chunk_reads(e.args[0], at, plain, depth + 1)
            return None
        if isinstance(e, ast.Name) and e.id not in params(self.fn):
            rd = reaching_defs(self.ctx, self.f, e.id, at)
            if not rd or any(v is None for _s, v in rd):
                return None
            out: List[ast.Call] = []
            for s, v in rd:
                r = self.chunk_reads(v, s, plain, depth + 1)
                if r is None:
                    return None
                out += [x for x in r if not any(x is y for y in out)]
            return out
        return None

    def _find_trackers(self):
        fn = self.fn

        def classify(v, st):
            r = self.chunk_reads(v, st)
            if r is not None:
                return "bytes", r
            if isinstance(v, ast.Call) and dotted(v.func) == "len" and len(v.args) == 1 and not v.keywords:
                r = self.chunk_reads(v.args[0], st)
                if r is not None:
                    return "count", r
            return None

        found: Dict[str, dict] = {}

        def add(name, kind, st, reads, sign=1):
            t = found.setdefault(name, {"kind": kind, "upd": [], "truncs": [], "valid": True, "sign": sign, "init": None})
            if t["kind"] != kind or t["sign"] != sign:
                t["valid"] = False
            t["upd"].append((st, reads))

        for st in statements(fn):
            if isinstance(st, ast.AugAssign) and isinstance(st.op, (ast.Add, ast.Sub)) and isinstance(st.target, ast.Name):
                k = classify(st.value, st)
                if k and (isinstance(st.op, ast.Add) or k[0] == "count"):
                    add(st.target.id, k[0], st, k[1], 1 if isinstance(st.op, ast.Add) else -1)
            elif isinstance(st, ast.Assign) and len(st.targets) == 1 and isinstance(st.targets[0], ast.Name) and isinstance(st.value, ast.BinOp) \
                    and isinstance(st.value.op, (ast.Add, ast.Sub)) and dotted(st.value.left) == st.targets[0].id:
                k = classify(st.value.right, st)
                if k and (isinstance(st.value.op, ast.Add) or k[0] == "count"):
                    add(st.targets[0].id, k[0], st, k[1], 1 if isinstance(st.value.op, ast.Add) else -1)
            elif isinstance(st, ast.Expr) and isinstance(st.value, ast.Call) and isinstance(st.value.func, ast.Attribute) and isinstance(st.value.func.value, ast.Name) \
                    and st.value.func.attr in ("append", "extend", "write") and len(st.value.args) == 1 and self.chunk_reads(st.value.args[0], st) is not None:
                add(st.value.func.value.id, {"append": "list", "extend": "bytes", "write": "stream"}[st.value.func.attr], st, self.chunk_reads(st.value.args[0], st))
        for name, t in found.items():
            if name in params(fn):
                t["valid"] = False
            upd = [s for s, _r in t["upd"]]
            for s, v in assignments_to(fn, name):
                if any(s is u for u in upd):
                    continue
                if v is None:
                    t["valid"] = False
                    continue
                c = _const(self.ctx, None, v)
                if t["kind"] == "count" and t["init"] is None and _poly(self.ctx, self.f, v, stop=frozenset({name})) is not None \
                        and not any(isinstance(x, ast.Name) and x.id == name for x in ast.walk(v)):
                    t["init"] = v  # a counter may start anywhere (0: bytes consumed, n: bytes still owed, ..)
                    continue
                if t["kind"] == "bytes" and ((isinstance(c, bytes) and c == b"") or (isinstance(v, ast.Call) and dotted(v.func) in ("bytes", "bytearray") and not v.args)):
                    continue
                if t["kind"] == "list" and ((isinstance(v, ast.List) and not v.elts) or (isinstance(v, ast.Call) and dotted(v.func) == "list" and not v.args)):
                    continue
                if t["kind"] == "stream" and isinstance(v, ast.Call) and (dotted(v.func) or "").split(".")[-1] == "BytesIO" and not v.args and not v.keywords:
                    continue
                if t["kind"] == "bytes" and isinstance(v, ast.Subscript) and isinstance(v.slice, ast.Slice) and dotted(v.value) == name:
                    t["truncs"].append((s, v))
                    continue
                t["valid"] = False
            if t["kind"] == "count" and t["init"] is None:
                t["valid"] = False
        # `del acc[k:]` cuts a mutable accumulator to its first k bytes: the same truncation as `acc = acc[:k]`
        for st in statements(fn):
            if isinstance(st, ast.Delete):
                for tg in st.targets:
                    if isinstance(tg, ast.Subscript) and isinstance(tg.value, ast.Name) and tg.value.id in found and found[tg.value.id]["kind"] == "bytes":
                        t = found[tg.value.id]
                        if isinstance(tg.slice, ast.Slice) and tg.slice.upper is None and tg.slice.step is None and tg.slice.lower is not None:
                            cut = ast.Subscript(value=ast.Name(id=tg.value.id, ctx=ast.Load()), slice=ast.Slice(lower=None, upper=tg.slice.lower, step=None), ctx=ast.Load())
                            t.setdefault("dels", []).append((st, ast.copy_location(cut, tg)))
                        else:
                            t["valid"] = False
        self.trk = {k: t for k, t in found.items() if t["valid"]}

    # -- exactness: every chunk that is read is recorded exactly once
    def exactness(self, name, at=None) -> Tuple[str, str]:
        """Does tracker `name` account for every byte consumed when control is at statement `at` (None: at any exit)?"""
        cfg, fv = self.cfg, self.fv
        t = self.trk[name]
        handlers = [nd for nd, s in cfg.stmt.items() if isinstance(s, ast.ExceptHandler)]
        atn = cfg.node(at) if at is not None and cfg.has(at) else None
        res, why = "ok", "every chunk read from the underlying file is recorded exactly once"
        for R in self.reads:
            rst = fv.stmt_of(R)
            if rst is None or not cfg.has(rst):
                return "unknown", "an underlying read cannot be placed in the CFG"
            Rs = cfg.node(rst)
            Us = [cfg.node(u) for u, rs in t["upd"] if any(r is R for r in rs) and cfg.has(u)]
            if not Us:
                if atn is not None and not cfg.reaches(Rs, atn) and Rs != atn:
                    continue  # this read cannot have happened when control is at `at` (another branch of read())
                if not self.loose_seeks:
                    return "bad", f"the bytes read by `{src(R)}` are recorded nowhere and never given back: they are consumed but not returned"
                return "unknown", f"`{src(R)}` is not recorded in `{name}`"
            cvars = [x.id for x in (rst.targets if isinstance(rst, ast.Assign) and rst.value is R else []) if isinstance(x, ast.Name)]
            assume = {}
            for c in cvars:
                assume.update({c: True, f"len({c}) == 0": False, f"len({c}) != 0": True, f"len({c}) > 0": True, f"len({c}) >= 1": True, f"len({c}) < 1": False,
                               f"{c} == b''": False, f"{c} != b''": True, f"{c} is None": False})
            spec = specialise(cfg, assume)
            ctests = [nd for nd, s in cfg.stmt.items() if isinstance(s, (ast.If, ast.While)) and tv_eval(s.test, assume) is None
                      and any(isinstance(x, ast.Name) and x.id in cvars for x in ast.walk(s.test))]
            # the other read sites that feed the same updates start a new chunk
            sib = [cfg.node(fv.stmt_of(r2)) for u, rs in t["upd"] if any(r is R for r in rs) for r2 in rs if r2 is not R and cfg.has(fv.stmt_of(r2))]

            def escapes(avoid):
                return spec.reaches(Rs, EXIT, avoiding=avoid) or spec.reaches(Rs, Rs, avoiding=avoid) or any(spec.reaches(Rs, x, avoiding=avoid) for x in sib)

            if escapes(Us + handlers):
                if escapes(Us + handlers + ctests):
                    return "bad", f"a chunk read by `{src(R)}` can be dropped without being recorded in `{name}` (bytes are consumed but not returned)"
                res, why = "unknown", f"whether every non-empty chunk is recorded in `{name}` depends on a test of the chunk that is not understood"
            for u in Us:
                if any(spec.reaches(u, u2, avoiding=[Rs] + sib) for u2 in Us):
                    return "bad", f"a chunk can be recorded twice in `{name}`"
        return res, why

    # -- values
    def truncated_by(self, name, at) -> List[Tuple[ast.AST, ast.AST]]:
        t = self.trk.get(name)
        if not t or not (t["truncs"] or t.get("dels")):
            return []
        rd = reaching_defs(self.ctx, self.f, name, at)
        out = [(ts, tv) for ts, tv in t["truncs"] if any(s is ts for s, _v in rd)]
        ast_ = at if isinstance(at, ast.stmt) else self.fv.stmt_of(at)
        for ds, dv in t.get("dels", []):
            if ast_ is not None and self.cfg.has(ds) and self.cfg.has(ast_) and self.cfg.reaches(self.cfg.node(ds), self.cfg.node(ast_)):
                out.append((ds, dv))
        return out

    def always_truncated(self, name, at) -> bool:
        """every path to `at` passes an in-place truncation (`del acc[k:]`) of the accumulator"""
        t = self.trk.get(name) or {}
        ast_ = at if isinstance(at, ast.stmt) else self.fv.stmt_of(at)
        dels = [self.cfg.node(ds) for ds, _dv in t.get("dels", []) if self.cfg.has(ds)]
        return bool(dels) and ast_ is not None and self.cfg.has(ast_) and not self.cfg.reaches(ENTRY, self.cfg.node(ast_), avoiding=dels)

    def full(self, e, at, depth=0) -> Optional[str]:
        """Name of the tracker whose complete contents e evaluates to at statement `at` (None if not such a value)."""
        e = strip_cast(e)
        if depth > 5 or e is None:
            return None
        if isinstance(e, ast.Name):
            t = self.trk.get(e.id)
            if t is not None:
                if t["kind"] == "bytes" and not self.truncated_by(e.id, at):
                    return e.id
                return None
            rd = reaching_defs(self.ctx, self.f, e.id, at)
            if not rd or any(v is None for _s, v in rd):
                return None
            names = set()
            for s, v in rd:
                nm = self.full(v, s, depth + 1)
                if nm is None:
                    return None
                # the copy must be taken after the last update
                if any(self.cfg.has(s) and self.cfg.reaches(self.cfg.node(s), self.cfg.node(u)) for u, _r in self.trk[nm]["upd"] if self.cfg.has(u)):
                    return None
                names.add(nm)
            return names.pop() if len(names) == 1 else None
        if isinstance(e, ast.Call):
            if dotted(e.func) in ("bytes", "bytearray") and len(e.args) == 1 and not e.keywords:
                return self.full(e.args[0], at, depth + 1)
            if isinstance(e.func, ast.Attribute) and e.func.attr == "getvalue" and not e.args and isinstance(e.func.value, ast.Name):
                t = self.trk.get(e.func.value.id)
                if t is not None and t["kind"] == "stream":
                    return e.func.value.id
            if isinstance(e.func, ast.Attribute) and e.func.attr == "join" and len(e.args) == 1 and isinstance(e.args[0], ast.Name):
                sep = _const(self.ctx, self.f, e.func.value)
                t = self.trk.get(e.args[0].id)
                if isinstance(sep, bytes) and sep == b"" and t is not None and t["kind"] == "list":
                    return e.args[0].id
        return None

    def tell_poly(self, call) -> Optional[SymPoly]:
        """Raw position reported by a tell() of the underlying file, in terms of the position when read() is done reading:
        taken before any chunk can have been read it is <raw position> - <bytes consumed>, taken after the last read it is
        <raw position>."""
        st = self.fv.stmt_of(call)
        if st is None or not self.cfg.has(st):
            return None
        X = self.cfg.node(st)
        Rs = [self.cfg.node(self.fv.stmt_of(r)) for r in self.reads if self.cfg.has(self.fv.stmt_of(r))]
        if all(not self.cfg.reaches(R, X) and R != X for R in Rs):
            return POS - CONSUMED
        if all(not self.cfg.reaches(X, R) and R != X for R in Rs):
            return POS
        return None

    def special(self, at, used: set):
        def sp(x):
            x = strip_cast(x)
            if isinstance(x, ast.IfExp) and self.assume:
                # `want = n if n > 0 else None`: decided under the assumptions the caller reasons under (n > 0 ..)
                t = tv_eval(x.test, self.assume, frozenset({self.n}) if self.n else frozenset())
                tt = x.test
                if t is None and isinstance(tt, ast.Compare) and len(tt.ops) == 1 and isinstance(tt.ops[0], (ast.Is, ast.IsNot)) and isinstance(tt.comparators[0], ast.Constant) \
                        and tt.comparators[0].value is None and not isinstance(strip_cast(tt.left), ast.Constant) and _poly(self.ctx, self.f, tt.left, sp) is not None \
                        and _poly(self.ctx, self.f, tt.left, sp).atoms() <= ({self.n} | CONSUMED.atoms() | POS.atoms()):
                    t = isinstance(tt.ops[0], ast.IsNot)  # the operand evaluates to a number under the assumptions: it is not None
                if t is not None:
                    return _poly(self.ctx, self.f, x.body if t else x.orelse, sp)
            if isinstance(x, ast.Call) and isinstance(x.func, ast.Attribute) and x.func.attr == "tell" and not x.args and _is_raw(self.fn, x.func.value):
                used.add("<tell>")
                return self.tell_poly(x)
            if isinstance(x, ast.Call) and dotted(x.func) == "len" and len(x.args) == 1:
                nm = self.full(x.args[0], at)
                if nm is not None:
                    used.add(nm)
                    return CONSUMED
            if isinstance(x, ast.Name) and x.id in self.trk and self.trk[x.id]["kind"] == "count":
                t = self.trk[x.id]
                p0 = _poly(self.ctx, self.f, t["init"], stop=frozenset({x.id}))
                if p0 is not None:
                    used.add(x.id)
                    return p0 + (CONSUMED if t["sign"] > 0 else -CONSUMED)
            if isinstance(x, ast.Call) and isinstance(x.func, ast.Attribute) and x.func.attr == "tell" and not x.args and isinstance(x.func.value, ast.Name) \
                    and x.func.value.id in self.trk and self.trk[x.func.value.id]["kind"] == "stream":
                used.add(x.func.value.id)  # an in-memory stream that is only written to: its position is its length
                return CONSUMED
            return None

        return sp


def r2(ctx):
    R = _Read(ctx)
    f, cfg, fv, n = R.f, R.cfg, R.fv, R.n
    if n is None or not R.reads:
        ctx.undecided("R2", "CURSOR", f, "read(0) consumes nothing", "read(n) does not read from the underlying file in a way that can be located")
        ctx.undecided("R2", "CURSOR", f, "accumulator", "read(n) does not read from the underlying file in a way that can be located")
        return
    N = SymPoly.atom(n)
    # (a) n == 0 consumes nothing
    spec0 = specialise(cfg, {f"{n} == 0": True, f"{n} > 0": False, f"{n} != 0": False, n: False, f"{n} == -1": False, f"{n} < 0": False, f"{n} is None": False,
                             f"{n} >= 0": True, f"{n} <= 0": True, f"{n} >= 1": False, f"{n} < 1": True}, ints=frozenset({n}))
    reach = [c for c in R.reads if cfg.has(fv.stmt_of(c)) and spec0.reaches(ENTRY, cfg.node(fv.stmt_of(c)))]
    ctx.ob("R2", "CURSOR", f, "read(0) consumes nothing", not reach, "with n == 0 no underlying read is reachable" if not reach else
           f"with n == 0 the underlying file is still read ({[src(c) for c in reach]}): read(0) drains the file and returns b''", f.node)
    # (b) what was consumed is tracked
    if not R.trk:
        ctx.undecided("R2", "CURSOR", f, "accumulator", "cannot locate how the decoded words are collected (no bytes accumulator, joined word list or byte counter fed by the chunks read)")
        return
    uses: List[Tuple[str, ast.AST]] = []  # (tracker, statement at which a verdict relies on it)
    # give-back and truncation only matter for n > 0: conditional expressions on n are read under that assumption
    assume = {f"{n} > 0": True, f"{n} >= 0": True, f"{n} >= 1": True, f"{n} != 0": True, n: True, f"{n} == 0": False, f"{n} < 0": False, f"{n} <= 0": False,
              f"{n} < 1": False, f"{n} is None": False, f"{n} == -1": False}
    R.assume = assume
    # give-back seeks: relative seek of n - <consumed>
    givebacks, other_seeks = [], []
    # the view's own seek() forwards a relative seek unchanged (R1 checks that): `self.seek(d, SEEK_CUR)` is a relative seek of
    # the underlying file; its other forms move the file by something this rule does not translate
    own = [c for c in fn_calls(f.node) if isinstance(c.func, ast.Attribute) and isinstance(c.func.value, ast.Name) and c.func.value.id == params(f.node)[0]
           and ctx.rs.resolve_call(f, c).fq == f"{CLS}.seek"]
    for c in _raw_calls(f, "seek") + own:
        off, wh = _seek_args(c)
        w = 0 if wh is None else _const(ctx, f, wh)
        if off is None or not cfg.has(fv.stmt_of(c)):
            continue
        u: set = set()
        p = _poly(ctx, f, off, R.special(c, u))
        if any(c is x for x in own) and w != 1:
            other_seeks.append((c, None, None, {"<own seek>"}))
            continue
        if (w == 1 and p == N - CONSUMED) or (w == 0 and p == POS + N - CONSUMED):
            givebacks.append(c)
            uses += [(nm, fv.stmt_of(c)) for nm in u - {"<tell>"}]
        else:
            other_seeks.append((c, p, w, u))
    gnodes = [cfg.node(fv.stmt_of(g)) for g in givebacks]
    R.loose_seeks = bool(other_seeks)
    # the give-back matters on the paths where something is cut: n > 0 and more than n bytes consumed.  Tests made after
    # the last read that say so (in any spelling) are decided before asking for dominance.
    rnodes = [cfg.node(fv.stmt_of(r)) for r in R.reads if cfg.has(fv.stmt_of(r))]
    surplus_keys: Dict[str, bool] = {}
    for nd, st in cfg.stmt.items():
        if not isinstance(st, (ast.If, ast.While)) or any(cfg.reaches(nd, rn) for rn in rnodes):
            continue
        for cmp_ in [x for x in ast.walk(st.test) if isinstance(x, ast.Compare) and len(x.ops) == 1]:
            a, b = _poly(ctx, f, cmp_.left, R.special(st, set())), _poly(ctx, f, cmp_.comparators[0], R.special(st, set()))
            if a is None or b is None:
                continue
            d, op = a - b, cmp_.ops[0]
            if d == N - CONSUMED:
                d, op = -d, {ast.Lt: ast.Gt, ast.LtE: ast.GtE, ast.Gt: ast.Lt, ast.GtE: ast.LtE}.get(type(op), type(op))()
            if d == CONSUMED - N and type(op) in (ast.Gt, ast.GtE, ast.NotEq, ast.Lt, ast.LtE, ast.Eq):
                surplus_keys[src(cmp_)] = isinstance(op, (ast.Gt, ast.GtE, ast.NotEq))
    cut = specialise(cfg, {**assume, **surplus_keys}, ints=frozenset({n}))
    not_positive = specialise(cfg, {f"{n} > 0": False, f"{n} >= 1": False, f"{n} <= 0": True, f"{n} < 1": True})
    no_surplus = specialise(cfg, {k: not v for k, v in surplus_keys.items()})

    def only_when_cut(gn) -> bool:
        """the node is executed only with n > 0 and more than n bytes consumed (so `cut` describes what follows it)"""
        return bool(surplus_keys) and not not_positive.reaches(ENTRY, gn) and not no_surplus.reaches(ENTRY, gn)

    def no_giveback(tn) -> Tuple[str, str]:
        """verdict for a truncation that no recognised give-back dominates"""
        cands = [(c, p, w, u) for c, p, w, u in other_seeks if cfg.dominates(cfg.node(fv.stmt_of(c)), tn) or cut.dominates(cfg.node(fv.stmt_of(c)), tn)]
        if not cands:
            return "bad", ""
        vs = []
        for c, p, w, u in cands:
            if p is not None and p.atoms() <= (N.atoms() | CONSUMED.atoms() | POS.atoms()) and w in (0, 1):
                vs.append("bad")  # written in the rule's vocabulary and not n - <consumed>
            elif not u:
                vs.append("bad")  # independent of how much was consumed (a short last chunk breaks it)
            else:
                vs.append("unknown")
        c, p, w, u = cands[0]
        return ("bad" if all(v == "bad" for v in vs) else "unknown"), f" (`{src(c)}` moves by {p if p is not None else src(_seek_args(c)[0])}: not n - <bytes consumed>)"

    def classify(e, at, depth=0):
        e = strip_cast(e)
        if isinstance(e, ast.Constant) and isinstance(e.value, bytes) and not e.value:
            return [("empty", None, at)]
        if isinstance(e, ast.Name) and e.id in R.trk and R.trk[e.id]["kind"] == "bytes":
            rd = reaching_defs(ctx, f, e.id, at)
            out = []
            trs = R.truncated_by(e.id, at)
            for ts, tv in trs:
                out.append(("trunc", tv, ts))
            ntr = len([1 for ts, _tv in trs if any(s is ts for s, _v in rd)])
            if (ntr < len(rd) or not rd) and not R.always_truncated(e.id, at):
                uses.append((e.id, at))
                out.append(("full", None, at))
            return out
        nm = R.full(e, at)
        if nm is not None:
            uses.append((nm, at))
            return [("full", None, at)]
        if isinstance(e, ast.Subscript) and isinstance(e.slice, ast.Slice):
            nm = R.full(e.value, at)
            if nm is not None:
                uses.append((nm, at))
                return [("trunc", e, at)]
        if isinstance(e, ast.Call) and dotted(e.func) in ("bytes", "bytearray") and len(e.args) == 1 and not e.keywords and depth < 4:
            return classify(e.args[0], at, depth + 1)
        if isinstance(e, ast.Name) and depth < 4 and e.id not in params(f.node):
            rd = reaching_defs(ctx, f, e.id, at)
            if rd and all(v is not None for _s, v in rd):
                out = []
                for s, v in rd:
                    out.extend(classify(v, s, depth + 1))
                return out
        return [("unknown", None, at)]

    trunc_nodes = []
    results = []
    for r in cfg.return_stmts():
        if r.value is None:
            results.append((r, [("unknown", None, r)]))
            continue
        parts = classify(r.value, r)
        results.append((r, parts))
        trunc_nodes += [cfg.node(at) for kind, _sl, at in parts if kind == "trunc" and cfg.has(at)]
    # exactness of every tracker the verdicts rely on
    evs = {}
    for nm, at in (uses or [(nm, None) for nm in R.trk]):
        evs.setdefault((nm, id(at)), R.exactness(nm, at))
    ev = _worst(v for v, _w in evs.values())
    pick = [w for v, w in evs.values() if v == ev]
    _emit(ctx, "R2", "CURSOR", f, "accumulator", ev, f"consumed bytes tracked by {sorted({k[0] for k in evs})}: {pick[0]}", pick[0])
    for r, parts in results:
        vs, notes = [], []
        truncated = False
        for kind, sl, at in parts:
            if kind == "empty":
                vs.append("ok")
                notes.append("returns nothing")
            elif kind == "full":
                vs.append("ok")
                notes.append("returns everything it consumed")
            elif kind == "unknown":
                vs.append("unknown")
                notes.append(f"cannot relate `{src(r.value)}` to the bytes consumed")
            else:
                truncated = True
                up = _poly(ctx, f, sl.slice.upper, R.special(at, set())) if sl.slice.upper is not None else None
                if up is not None and "<bytes consumed>" in up.atoms():
                    up = _poly(ctx, f, sl.slice.upper)
                lo = _const(ctx, f, sl.slice.lower) if sl.slice.lower is not None else 0
                shape = sl.slice.step is None and lo == 0 and up == N
                if not shape:
                    vs.append("bad" if (up is None or up.atoms() <= {n}) else "unknown")
                    notes.append(f"returns {src(sl)}: not the first n bytes of what was consumed")
                    continue
                tn = cfg.node(at)
                ok = any(cfg.dominates(g, tn) or cut.dominates(g, tn) for g in gnodes)
                vg, extra = ("ok", "") if ok else no_giveback(tn)
                vs.append(vg)
                notes.append("the truncation to n bytes is preceded by a relative seek of n - <bytes consumed>: the surplus of the last 4-byte word is given back" if ok else
                             f"returns {src(sl)} after consuming whole 4-byte words without giving the surplus back" + extra
                             + ": read(3) leaves tell() == 4 and the next read skips a byte")
        v = _worst(vs)
        if all(k == "empty" for k, _s, _a in parts):
            ctx.ob("R2", "CURSOR", f, "return " + src(r.value), True, "returns nothing", r, nontrivial=False)
            continue
        pick = [w for x, w in zip(vs, notes) if x == v]
        _emit(ctx, "R2", "CURSOR", f, "return " + src(r.value) + (" [truncated]" if truncated else ""), v, "; ".join(dict.fromkeys(notes)), "; ".join(dict.fromkeys(pick)), r)
    # a give-back is only correct together with the truncation
    for g, gn in zip(givebacks, gnodes):
        ok = bool(trunc_nodes) and (cfg.all_paths_pass(gn, EXIT, trunc_nodes) or (only_when_cut(gn) and cut.all_paths_pass(gn, EXIT, trunc_nodes)))
        ctx.ob("R2", "CURSOR", f, "give-back is followed by the truncation", ok,
               "after giving back n - <bytes consumed> the result is cut to n bytes" if ok else
               "bytes are given back to the underlying file but still returned: the position advances by less than what is returned", g)
    # ... and only when there is something to give back: the give-back leaves the file at <position before the reads> + n (L7), which is
    # where the returned bytes end only if at least n bytes were consumed.  Named scenario "short": n > 0 and fewer than n bytes consumed
    # by the time the reads are over (the data ends before n bytes, or the read starts at / beyond the end - both are in the quantifier of
    # the property).  What was consumed only grows while read() runs, so under "short" every test `<tracker> ? n` made at any time has the
    # outcome of `<bytes consumed> < n` (lemma L12); the outcome of a test of the chunk just read (EOF test) is free - the file may end
    # anywhere.  A give-back that a path of decided / free tests reaches in that scenario moves the file beyond the bytes returned.
    for g, gn in zip(givebacks, gnodes):
        v, why = _short_reachability(ctx, R, assume, N, gn)
        _emit(ctx, "R2", "CURSOR", f, "give-back only after at least n bytes were consumed", v,
              "with n > 0 and fewer than n bytes consumed (data ends early / read at EOF) the give-back is not executed",
              "the give-back is also executed when fewer than n bytes were consumed (n > 0, the data ends before n bytes / the read starts at or beyond the end): it "
              "leaves the underlying file at <position before the reads> + n, beyond the bytes that are returned - tell() advances by more than len(result), every "
              f"further read at EOF moves the position on ({why})", g,
              f"whether the give-back is executed when fewer than n bytes were consumed depends on a test that is not understood ({why})")


def _short_reachability(ctx, R: "_Read", assume: Dict[str, bool], N: SymPoly, target) -> Tuple[str, str]:
    """'ok' | 'bad' | 'unknown': can CFG node `target` of read() be reached in the scenario "short": n > 0 and fewer than n bytes
    consumed when the reads are over?  Two named sub-scenarios, one walk of the CFG each (device 2: three-valued evaluation of the
    branch tests under the scenario, infeasible edges removed; comparisons decided as polynomials over n and <bytes consumed>, device 3):
      "at EOF"    nothing is consumed (every read of the underlying file returns b''): tests of the chunk just read and `<tracker> ? 0`
                  are decided, `<tracker> ? n` reads 0 < n;
      "some data" 1 <= <bytes consumed> < n: `<tracker> ? n` reads `<` at any time (lemma L12), `<tracker> ? 0` reads `>` once the reads
                  are over, tests of the chunk just read are free (the data may end anywhere); the path must pass an update of a tracker.
    A test that is neither decided nor free makes the paths through it `unknown`; so do loops other than the read loop's own `while`
    and exception handlers."""
    import copy

    f, fn, cfg, fv, n = R.f, R.fn, R.cfg, R.fv, R.n
    ints = frozenset({n})
    cvars = set()
    for st in statements(fn):
        if isinstance(st, ast.Assign) and any(strip_cast(st.value) is r for r in R.reads):
            cvars |= {t.id for t in st.targets if isinstance(t, ast.Name)}
    rnodes = [cfg.node(fv.stmt_of(r)) for r in R.reads if cfg.has(fv.stmt_of(r))]
    updates = [cfg.node(u) for t in R.trk.values() for u, _r in t["upd"] if cfg.has(u)]
    lt = {ast.Gt: False, ast.GtE: False, ast.NotEq: True, ast.Lt: True, ast.LtE: True, ast.Eq: False}
    gt = {ast.Gt: True, ast.GtE: True, ast.NotEq: True, ast.Lt: False, ast.LtE: False, ast.Eq: False}
    eq = {ast.Gt: False, ast.GtE: True, ast.NotEq: False, ast.Lt: False, ast.LtE: True, ast.Eq: True}
    mirror = {ast.Lt: ast.Gt, ast.LtE: ast.GtE, ast.Gt: ast.Lt, ast.GtE: ast.LtE}
    empty = {}
    for c in cvars:
        empty.update({c: False, f"len({c}) == 0": True, f"len({c}) != 0": False, f"len({c}) > 0": False, f"len({c}) >= 1": False, f"len({c}) < 1": True,
                      f"{c} == b''": True, f"{c} != b''": False, f"{c} is None": False})

    def free(t) -> bool:
        names = {x.id for x in ast.walk(t) if isinstance(x, ast.Name)}
        return bool(names & cvars) and names <= (cvars | {"len", "bytes", "bool"}) and not any(isinstance(x, ast.Attribute) for x in ast.walk(t))

    def walk(some: bool) -> Tuple[str, str]:
        asm = dict(assume) if some else {**assume, **empty}

        def over(at) -> bool:
            nd = cfg.node(at) if cfg.has(at) else None
            return nd is not None and not any(cfg.reaches(nd, rn) or nd == rn for rn in rnodes)

        def sign(d: SymPoly, k, at):
            """outcome of `d <k> 0` for d = +-(<bytes consumed> - n) / +-<bytes consumed>"""
            if d == N - CONSUMED or d == -CONSUMED:
                d, k = -d, mirror.get(k, k)
            if d == CONSUMED - N:
                return lt.get(k)
            if d == CONSUMED:
                return (gt.get(k) if over(at) else None) if some else eq.get(k)
            return None

        def pair(l, op, r, at):
            try:
                v = tv_eval(ast.Compare(left=l, ops=[op], comparators=[r]), asm, ints)
            except Exception:
                v = None
            if v is not None:
                return v
            a, b = _poly(ctx, f, l, R.special(at, set())), _poly(ctx, f, r, R.special(at, set()))
            return None if a is None or b is None else sign(a - b, type(op), at)

        def ev(t, at, depth=0):
            """True | False | 'free' (a test of the chunk just read whose outcome the scenario leaves open) | None"""
            if depth > 6:
                return None
            if isinstance(t, ast.Name) and t.id not in cvars and t.id not in params(fn) and t.id not in R.trk:
                o = origin(fn, t)
                if o is not t and not isinstance(o, ast.Name):
                    return ev(o, at, depth + 1)
            if isinstance(t, ast.UnaryOp) and isinstance(t.op, ast.Not):
                v = ev(t.operand, at, depth + 1)
                return v if v in (None, "free") else (not v)
            if isinstance(t, ast.BoolOp):
                vs = [ev(x, at, depth + 1) for x in t.values]
                absorb = isinstance(t.op, ast.Or)
                if any(v is absorb for v in vs):
                    return absorb
                if all(v is (not absorb) for v in vs):
                    return not absorb
                return "free" if all(v is (not absorb) or v == "free" for v in vs) else None
            v = tv_eval(t, asm, ints)
            if v is not None:
                return v
            if isinstance(t, ast.Compare):
                vs, l = [], t.left
                for op, r in zip(t.ops, t.comparators):
                    vs.append(pair(l, op, r, at))
                    l = r
                if any(x is False for x in vs):
                    return False
                if all(x is True for x in vs):
                    return True
            else:
                # truthiness of a tracker / of its size: `<bytes consumed> != 0`
                if isinstance(t, ast.Name) and t.id in R.trk and R.trk[t.id]["kind"] in ("bytes", "list"):
                    return sign(CONSUMED, ast.NotEq, at)
                p = _poly(ctx, f, t, R.special(at, set()))
                if p is not None and (p == CONSUMED or p == -CONSUMED or p == CONSUMED - N or p == N - CONSUMED):
                    return sign(p, ast.NotEq, at)
            return "free" if free(t) else None

        spec = copy.copy(cfg)
        spec.g = cfg.g.copy()
        spec._idom = None
        spec._ipdom = None
        open_: List[Tuple[tuple, str]] = []
        for nd, st in cfg.stmt.items():
            if isinstance(st, (ast.If, ast.While)):
                v = ev(st.test, st)
                if v is True or v is False:
                    e = cfg.edge_node(st, "false" if v else "true")
                    if spec.g.has_edge(nd, e):
                        spec.g.remove_edge(nd, e)
                elif v is None:
                    open_.append((nd, f"`{src(st.test)[:60]}`"))
            elif isinstance(st, (ast.For, ast.AsyncFor)):
                open_.append((nd, f"the loop `for {src(st.target)} in {src(st.iter)[:40]}`"))
            elif isinstance(st, ast.ExceptHandler):
                open_.append((nd, "an exception handler"))
        if not spec.reaches(ENTRY, target):
            return "ok", ""
        shut = [nd for nd, _w in open_]
        name = "1 <= <bytes consumed> < n" if some else "read at / beyond the end: nothing consumed"
        if some:
            hit = any(u != target and spec.reaches(ENTRY, u, avoiding=shut) and spec.reaches(u, target, avoiding=shut) for u in updates)
        else:
            hit = spec.reaches(ENTRY, target, avoiding=shut + updates)
        if hit:
            path = [w.split(":", 1)[-1] for w in spec.witness_path(ENTRY, target, avoiding=shut) if w.startswith("L")][-3:]
            return "bad", f"scenario `{name}`" + (": reached through " + " -> ".join(path) if path else "")
        on_the_way = [w for nd, w in open_ if spec.reaches(ENTRY, nd) and spec.reaches(nd, target)]
        return "unknown", f"scenario `{name}`: not understood: " + (", ".join(on_the_way[:3]) or "the order of updates and tests")

    res = [walk(False), walk(True)]
    v = _worst(x for x, _w in res)
    return v, "; ".join(w for x, w in res if x == v and w)


# ============================================================================================== R3: rolling key
def r3(ctx):
    R = _Read(ctx)
    f, cfg, fv, fn = R.f, R.cfg, R.fv, R.fn
    loops = []
    for c in R.reads:
        lp = fv.enclosing(c, (ast.While, ast.For))
        if lp is not None and not any(lp is x for x in loops):
            loops.append(lp)
    xors = [c for lp in loops for c in ast.walk(lp) if isinstance(c, ast.Call) and ctx.rs.resolve_call(f, c).fq == "utils.xor"]
    if not loops or not xors:
        for text, kind in (("xor(chunk, nonce)", "AGREE"), ("nonce = chunk", "AGREE"), ("nonce = self.read_nonce()", "AGREE")):
            ctx.undecided("R3", kind, f, text, "read() does not decode word by word in a loop over reads of the underlying file: the decode step cannot be located")
    else:
        vs1, n1, vs2, n2, vs3, n3 = [], [], [], [], [], []
        for x in xors:
            callee = ctx.rs.resolve_call(f, x).func
            b = bind_args(x, callee.node) if callee is not None else {}
            data, key = b.get("data"), b.get("key")
            xs = fv.stmt_of(x)
            rds = R.chunk_reads(data, xs, plain=True) if data is not None and xs is not None and cfg.has(xs) else None
            if not rds:
                vs1.append("bad" if data is not None else "unknown")
                n1.append(f"decode step {src(x)}: the data operand is not a word read from the underlying file")
                continue
            ks = [_const(ctx, f, rd.args[0]) if rd.args else None for rd in rds]
            vs1.append("ok" if all(k == 4 for k in ks) else "bad")
            n1.append("each 4-byte ciphertext word is XORed with the current nonce" if all(k == 4 for k in ks) else f"decode step is not xor(<4-byte read>, nonce): reads {[src(rd) for rd in rds]}")
            key = strip_cast(key) if key is not None else None
            if not isinstance(key, ast.Name) or key.id in params(fn):
                vs2.append("unknown")
                n2.append(f"the key operand `{src(key)}` is not a local whose definitions can be followed")
                vs3.append("unknown")
                n3.append(n2[-1])
                continue
            lp = fv.enclosing(x, (ast.While, ast.For))
            rss = [fv.stmt_of(rd) for rd in rds]
            if lp is None or any(r is None or not cfg.has(r) for r in rss):
                vs2.append("unknown")
                n2.append("the decode step cannot be placed in a loop over reads of the underlying file")
                vs3.append("unknown")
                n3.append(n2[-1])
                continue
            inside = {id(s) for s in ast.walk(lp)}
            defs = reaching_defs(ctx, f, key.id, x)
            inl = [(s, v) for s, v in defs if id(s) in inside]
            first = [(s, v) for s, v in defs if id(s) not in inside]
            # chain: inside the loop the key becomes the ciphertext word that was just decoded: after its use, before the
            # next word is read, on every iteration
            if not inl:
                vs2.append("bad")
                n2.append("the key is never updated inside the decode loop (must become the previous ciphertext word)")
            else:
                def same_word(s, v):
                    if v is None:
                        return False
                    r = R.chunk_reads(v, s if isinstance(s, ast.stmt) else fv.stmt_of(s), plain=True)
                    return r is not None and len(r) == len(rds) and all(any(a is b_ for b_ in rds) for a in r)

                wrong = [v for s, v in inl if not same_word(s, v)]
                Xs, Cs = cfg.node(xs), [cfg.node(r) for r in rss]
                Ds = [cfg.node(s if isinstance(s, ast.stmt) else fv.stmt_of(s)) for s, v in inl]
                always = cfg.all_paths_pass(Xs, Xs, Ds)
                after_use = all(cfg.all_paths_pass(c, d, [Xs]) for c in Cs for d in Ds) and Xs not in Cs
                fresh = all(cfg.all_paths_pass(d, Xs, Cs) for d in Ds)
                if wrong:
                    vs2.append("bad")
                    n2.append(f"rolling key update is {[src(v) for v in wrong]} (must be the ciphertext word read from the file, after the xor)")
                elif not (always and fresh and after_use):
                    vs2.append("bad")
                    n2.append(f"rolling key update is {[src(v) for s, v in inl]} but updated-on-every-iteration={always}, set-after-use={after_use and fresh}")
                else:
                    vs2.append("ok")
                    n2.append("the next nonce is the previous CIPHERTEXT word, set after it was used")
            # first key
            if not first:
                vs3.append("bad")
                n3.append("no initial nonce reaches the first decode step")
            else:
                good = [v is not None and isinstance(origin(fn, v), ast.Call) and ctx.rs.resolve_call(f, origin(fn, v)).fq == f"{CLS}.read_nonce" for s, v in first]
                vs3.append("ok" if all(good) else "bad")
                n3.append("the first nonce comes from the 4 bytes before the current position" if all(good) else f"initial nonce is {[src(v) for s, v in first]}, not read_nonce()")
        for text, vs, ns in (("xor(chunk, nonce)", vs1, n1), ("nonce = chunk", vs2, n2), ("nonce = self.read_nonce()", vs3, n3)):
            if not vs:
                ctx.undecided("R3", "AGREE", f, text, "the decode step was not located")
                continue
            v = _worst(vs)
            pick = [w for a, w in zip(vs, ns) if a == v]
            _emit(ctx, "R3", "AGREE", f, text, v, pick[0], pick[0])
    _r3_read_nonce(ctx)


def _nominal_len(ctx, f):
    """special(): `len(x)` of a local whose every definition is a read of k bytes of the underlying file (k a constant of the
    code) or a bytes constant of k bytes is k - under the reading "a read of k bytes returns k bytes" (L1, complete reads)
    that the span rules R1/R3 work with; the unconditional statement about the cursor is R7's."""
    fn = f.node

    def width(v):
        v = strip_cast(v) if v is not None else None
        if isinstance(v, ast.Call) and isinstance(v.func, ast.Attribute) and v.func.attr == "read" and _is_raw(fn, v.func.value) and v.args:
            k = _const(ctx, f, v.args[0])
            return k if _is_int(k) and k >= 0 else None
        c = _const(ctx, f, v) if v is not None else None
        return len(c) if isinstance(c, bytes) else None

    def sp(x):
        if isinstance(x, ast.Call) and dotted(x.func) == "len" and len(x.args) == 1 and not x.keywords:
            a = strip_cast(x.args[0])
            if isinstance(a, ast.Name) and a.id not in params(fn):
                ws = {width(v) for _s, v in reaching_defs(ctx, f, a.id, x)}  # flow-sensitive: the definitions that reach this use
                if len(ws) == 1 and None not in ws:
                    return SymPoly.const(ws.pop())
            elif isinstance(a, ast.Call):
                w = width(a)
                if w is not None:
                    return SymPoly.const(w)
        return None

    return sp


def _complete_walk(ctx, m):
    """(final position | None, {id(read): (start, len)}, problem | None) like `_simulate`, from the path-wise cursor walk of
    R7 under the reading "every read returns its nominal size": conditional statements are followed (tests on the length of
    a read result are constant under that reading); the paths that do not pass an exception handler must agree."""
    cur = _Cursor(ctx, m, complete=True)
    exits = [x for x in cur.run() if not x.handler]
    if cur.problem is not None or not exits:
        return None, {}, cur.problem or "no normal exit"
    if any(len(v) != 1 for v in cur.spans.values()):
        return None, {}, "a read of the underlying file starts at different positions on different paths"
    ends = {repr(x.pos): x.pos for x in exits}
    if len(ends) != 1 or None in ends.values():
        return None, {}, "the paths leave the cursor at different / unknown positions"
    return list(ends.values())[0], {k: next(iter(v)) for k, v in cur.spans.items()}, None


def _r3_read_nonce(ctx):
    rn = ctx.repo.func(f"{CLS}.read_nonce")
    fn = rn.node
    uses = [n for n in body_walk(fn) if dotted(n) == "self.initial_nonce"]
    posv = {st.targets[0].id for st in statements(fn) if isinstance(st, ast.Assign) and len(st.targets) == 1 and isinstance(st.targets[0], ast.Name)
            and _raw_tell_special(rn)(strip_cast(st.value)) is not None}
    tell_sp = _raw_tell_special(rn)
    len_sp = _nominal_len(ctx, rn)

    def sp(x):
        if isinstance(x, ast.Name) and x.id in posv:
            return POS
        return tell_sp(x) or len_sp(x)

    fv = FuncView.of(fn)
    calls = [c for c in fn_calls(fn) if fv.enclosing(c, (ast.ExceptHandler,)) is None]
    in_handler = [c for c in fn_calls(fn) if fv.enclosing(c, (ast.ExceptHandler,)) is not None and isinstance(c.func, ast.Attribute) and _is_raw(fn, c.func.value) and c.func.attr in ("seek", "read")]
    pos, spans, problem = _simulate(ctx, rn, calls, POS, lambda e: _poly(ctx, rn, e, sp, stop=frozenset(posv)))
    if (problem is not None or _verdict(pos, POS) == "unknown") and not in_handler:
        alt = _complete_walk(ctx, rn)  # conditional movements, values returned by seek(): followed path-wise
        if alt[2] is None:
            pos, spans, problem = alt
    t1, t2 = "previous ciphertext word / initial nonce", "net cursor movement"
    if problem is not None or in_handler or not spans:
        why = problem or ("the underlying file is also moved in an exception handler" if in_handler else "read_nonce does not read from the underlying file")
        ctx.undecided("R3", "AGREE", rn, t1, why)
        ctx.undecided("R3", "CURSOR", rn, t2, why)
        return
    prev = [s for s in spans.values() if s[0] == POS - SymPoly.const(4) and s[1] == 4]
    located = all(s[0].atoms() <= POS.atoms() for s in spans.values())
    v = "ok" if prev and uses else ("bad" if located else "unknown")
    _emit(ctx, "R3", "AGREE", rn, t1, v,
          "reads the 4 bytes before the position; uses initial_nonce in the first word",
          f"reads {[f'raw[{s[0]} : +{s[1]}]' for s in spans.values()]}; required the 4 bytes before the position={bool(prev)}; uses initial_nonce in the first word={bool(uses)}")
    _emit(ctx, "R3", "CURSOR", rn, t2, _verdict(pos, POS), "with the word before the position available (reads return their nominal size) read_nonce leaves the cursor where it was; "
          "for short reads see R7", f"even when every read returns its nominal size read_nonce leaves the cursor at {pos}; required: where it was")


# ============================================================================================== R6: state carried across calls
# A read-only file over the decoded bytes has exactly one piece of state, its position, and XorEncodedFile keeps it in the
# cursor of the underlying file.  Whatever else a method leaves behind in an instance attribute for a later call (a cached
# key, a remembered position, a read-ahead buffer) makes the result of read(n) depend on the history of calls unless it is
# re-established or invalidated on every path on which the underlying cursor moves.
_MOVERS = ("seek", "read", "read1", "readinto", "readinto1", "readline", "readlines", "readall", "write", "writelines", "truncate")
_MUTATORS = ("append", "appendleft", "extend", "add", "update", "clear", "pop", "popleft", "popitem", "insert", "remove", "discard", "setdefault", "write",
             "seek", "truncate", "sort", "reverse")
_NOT_READ_PATH = ("__init__", "__repr__", "__str__", "__del__")
_LOGGING = ("logger", "logging", "log", "print", "warnings")


def _mname(m) -> str:
    return m.qualname.split(".")[-1]


def _instance_methods(ctx) -> list:
    out = []
    for m in ctx.repo.methods(CLS):
        decos = {dotted(d.func) if isinstance(d, ast.Call) else dotted(d) for d in getattr(m.node, "decorator_list", [])}
        if decos & {"classmethod", "staticmethod"} or not params(m.node):
            continue
        out.append(m)
    return out


def _attr_stores(m) -> List[Tuple[ast.stmt, str, Optional[ast.AST]]]:
    """(statement, attribute, value | None) for everything a method leaves behind in an attribute of its instance: plain /
    annotated / tuple assignment (value: the expression stored), augmented assignment, `del`, item stores and in-place
    mutation of the attribute's object (value None: not a plain expression)."""
    fn = m.node
    sn = params(fn)[0]

    def attr(t) -> Optional[str]:
        return t.attr if isinstance(t, ast.Attribute) and isinstance(t.value, ast.Name) and t.value.id == sn else None

    def held(t) -> Optional[str]:
        return attr(t.value) if isinstance(t, ast.Subscript) else None

    out: List[Tuple[ast.stmt, str, Optional[ast.AST]]] = []
    for st in statements(fn):
        if isinstance(st, ast.Assign):
            for t in st.targets:
                if attr(t):
                    out.append((st, attr(t), st.value))
                elif held(t):
                    out.append((st, held(t), None))
                elif isinstance(t, (ast.Tuple, ast.List)):
                    paired = isinstance(st.value, (ast.Tuple, ast.List)) and len(st.value.elts) == len(t.elts) and not any(isinstance(x, ast.Starred) for x in list(t.elts) + list(st.value.elts))
                    for k, x in enumerate(t.elts):
                        a = attr(x) or held(x) or (attr(x.value) if isinstance(x, ast.Starred) else None)
                        if a:
                            out.append((st, a, st.value.elts[k] if paired and attr(x) else None))
        elif isinstance(st, ast.AnnAssign) and st.value is not None and attr(st.target):
            out.append((st, attr(st.target), st.value))
        elif isinstance(st, ast.AugAssign) and (attr(st.target) or held(st.target)):
            out.append((st, attr(st.target) or held(st.target), None))
        elif isinstance(st, ast.Delete):
            out += [(st, attr(t) or held(t), None) for t in st.targets if attr(t) or held(t)]
        elif isinstance(st, ast.Expr) and isinstance(st.value, ast.Call) and isinstance(st.value.func, ast.Attribute) and st.value.func.attr in _MUTATORS and attr(st.value.func.value):
            out.append((st, attr(st.value.func.value), None))
    raw = RAW.split(".", 1)[1]
    return [(st, a, v) for st, a, v in out if a != raw]


def _attr_loads(m, name: str) -> List[ast.Attribute]:
    """The places where a method reads the attribute (not the receiver of an in-place mutation / item store, which is a
    store), other than in a statement that only logs."""
    fn = m.node
    fv = FuncView.of(fn)
    sn = params(fn)[0]
    out = []
    for n in body_walk(fn):
        if not (isinstance(n, ast.Attribute) and isinstance(n.ctx, ast.Load) and isinstance(n.value, ast.Name) and n.value.id == sn and n.attr == name):
            continue
        par = fv.parent.get(id(n))
        if isinstance(par, ast.Subscript) and par.value is n and isinstance(par.ctx, (ast.Store, ast.Del)):
            continue
        st = fv.stmt_of(n)
        if isinstance(par, ast.Attribute) and par.value is n and par.attr in _MUTATORS and isinstance(st, ast.Expr) and isinstance(st.value, ast.Call) and st.value.func is par:
            continue
        if isinstance(st, ast.Expr) and isinstance(st.value, ast.Call) and (dotted(st.value.func) or "").split(".")[0] in _LOGGING:
            continue
        out.append(n)
    return out


def _mentions(ctx, m, e, at, name: str, depth: int = 0) -> bool:
    """Does the instance attribute `name` flow into expression e evaluated at `at` (through the reaching definitions of locals)?"""
    if e is None or depth > 6:
        return False
    fn = m.node
    sn = params(fn)[0]
    for x in ast.walk(e):
        if isinstance(x, ast.Attribute) and isinstance(x.value, ast.Name) and x.value.id == sn and x.attr == name:
            return True
        if isinstance(x, ast.Name) and isinstance(x.ctx, ast.Load) and x.id not in params(fn):
            for s, v in reaching_defs(ctx, m, x.id, at):
                if v is not None and _mentions(ctx, m, v, s, name, depth + 1):
                    return True
    return False


def _position_free(ctx, m, e, at, state, depth: int = 0) -> bool:
    """The value of expression e at `at` is computed without looking at the underlying file or at other carried state: from
    constants, parameters and attributes set by the constructor only (a memo such as the decoded size of the header)."""
    if e is None or depth > 6:
        return False
    fn = m.node
    sn = params(fn)[0]
    for x in ast.walk(e):
        if isinstance(x, ast.Attribute) and isinstance(x.value, ast.Name) and x.value.id == sn and (x.attr in state or f"{sn}.{x.attr}" == RAW):
            return False
        if isinstance(x, ast.Call) and isinstance(x.func, ast.Attribute) and (_is_raw(fn, x.func.value) or _self_callee(ctx, m, x) is not None):
            return False
        if isinstance(x, ast.Name) and isinstance(x.ctx, ast.Load) and x.id not in params(fn):
            rd = reaching_defs(ctx, m, x.id, at)
            if any(v is None or not _position_free(ctx, m, v, s, state, depth + 1) for s, v in rd):
                return False
            if not rd and assignments_to(fn, x.id):
                return False
    return True


def _is_key(ctx, ms, name: str) -> bool:
    """The attribute is used where the rolling key of a read is expected: it flows into a value returned by read_nonce() or
    into the key operand of the decode step."""
    for m in ms:
        fv = FuncView.of(m.node)
        sinks = []
        if m.fq == f"{CLS}.read_nonce":
            sinks += [(r.value, r) for r in statements(m.node) if isinstance(r, ast.Return) and r.value is not None]
        for x in fn_calls(m.node):
            cal = ctx.rs.resolve_call(m, x)
            if cal.kind == "func" and cal.func is not None and cal.fq == "utils.xor":
                sinks.append((bind_args(x, cal.func.node).get("key"), fv.stmt_of(x)))
        if any(at is not None and _mentions(ctx, m, e, at, name) for e, at in sinks):
            return True
    return False


def _net_zero(ctx, m) -> bool:
    """The straight-line seeks/reads of the underlying file in this method cancel (cursor typestate from the symbol
    <raw position> ends at <raw position>): what read_nonce() does to fetch the word before the position."""
    fn = m.node
    fv = FuncView.of(fn)
    raw = [c for c in fn_calls(fn) if isinstance(c.func, ast.Attribute) and c.func.attr in _MOVERS and _is_raw(fn, c.func.value)]
    if not raw:
        return True
    if any(fv.enclosing(c, (ast.ExceptHandler,)) is not None for c in raw):
        return False
    tell_sp = _raw_tell_special(m)
    posv = {st.targets[0].id for st in statements(fn) if isinstance(st, ast.Assign) and len(st.targets) == 1 and isinstance(st.targets[0], ast.Name) and tell_sp(strip_cast(st.value)) is not None}

    len_sp = _nominal_len(ctx, m)

    def sp(x):
        return POS if isinstance(x, ast.Name) and x.id in posv else (tell_sp(x) or len_sp(x))

    pos, _spans, problem = _simulate(ctx, m, fn_calls(fn), POS, lambda e: _poly(ctx, m, e, sp, stop=frozenset(posv)))
    if problem is not None or _verdict(pos, POS) == "unknown":
        alt = _complete_walk(ctx, m)
        if alt[2] is None:
            pos, _spans, problem = alt
    return problem is None and pos == POS


def _self_callee(ctx, m, c):
    """The method of the same class a call `self.m2(..)` resolves to."""
    if not (isinstance(c.func, ast.Attribute) and isinstance(c.func.value, ast.Name) and c.func.value.id == params(m.node)[0]):
        return None
    cal = ctx.rs.resolve_call(m, c)
    if cal.kind == "func" and cal.func is not None and cal.func.cls == m.cls and cal.func.module.name == m.module.name and cal.func.fq != m.fq:
        return cal.func
    return None


def _movements(ctx, m, memo: Dict[str, bool]) -> List[Tuple[ast.Call, ast.stmt, Dict[str, bool]]]:
    """(call, statement, assumption) for what may move the underlying cursor in method m: seeks (not `seek(0, SEEK_CUR)`) and
    reads of the underlying file - a read whose result is bound to a local is a movement under the named assumption "the
    chunk just read is non-empty" -, and calls of methods of the class that move it.  Movements that cancel inside the
    method (`_net_zero`) are not movements of the method."""
    fn = m.node
    fv, cfg = FuncView.of(fn), ctx.cfg(m)
    cancel = _net_zero(ctx, m)
    out = []
    for c in fn_calls(fn):
        if not isinstance(c.func, ast.Attribute):
            continue
        st = fv.stmt_of(c)
        if st is None or not cfg.has(st):
            continue
        a = c.func.attr
        if _is_raw(fn, c.func.value):
            if a not in _MOVERS or cancel:
                continue
            if a == "seek":
                off, wh = _seek_args(c)
                w, o = (0 if wh is None else _const(ctx, m, wh)), _const(ctx, m, off)
                if w == 1 and _is_int(o) and o == 0:
                    continue
            if a.startswith("read") and c.args and _is_int(_const(ctx, m, c.args[0])) and _const(ctx, m, c.args[0]) == 0:
                continue
            assume: Dict[str, bool] = {}
            if a.startswith("read") and isinstance(st, ast.Assign) and st.value is c and len(st.targets) == 1 and isinstance(st.targets[0], ast.Name):
                v = st.targets[0].id
                assume = {v: True, f"len({v}) == 0": False, f"len({v}) != 0": True, f"len({v}) > 0": True, f"len({v}) >= 1": True, f"len({v}) < 1": False,
                          f"{v} == b''": False, f"{v} != b''": True, f"{v} is None": False}
            out.append((c, st, assume))
        else:
            callee = _self_callee(ctx, m, c)
            if callee is not None and _moves(ctx, callee, memo):
                out.append((c, st, {}))
    return out


def _moves(ctx, m, memo: Dict[str, bool]) -> bool:
    if m.fq not in memo:
        memo[m.fq] = True  # a recursive cycle counts as moving
        memo[m.fq] = bool(_movements(ctx, m, memo))
    return memo[m.fq]


def _always_stores(ctx, m, name: str) -> bool:
    """every normal return of the method passes a store of the attribute"""
    cfg = ctx.cfg(m)
    ks = [cfg.node(st) for st, a, _v in _attr_stores(m) if a == name and cfg.has(st)]
    return bool(ks) and not cfg.reaches(ENTRY, EXIT, avoiding=ks)


def _key_value(ctx, m, e, at, depth: int = 0):
    """('const' | 'key' | 'other', links): what kind of value expression e holds at statement `at`.
    'const': a constant of the code (a sentinel that says nothing about the position);
    'key':   the rolling key of the position the cursor has when the value is produced - the whole word just read from the
             underlying file, or the result of read_nonce() - possibly held in locals; `links` are the (definition,
             local, use) hops the value travels through;
    'other': anything else (slices, arithmetic, conditional values, other attributes)."""
    fn = m.node
    fv = FuncView.of(fn)
    if e is None or depth > 6:
        return "other", []
    e = strip_cast(e)
    if isinstance(e, ast.Constant):
        return "const", []
    if isinstance(e, ast.Call):
        if isinstance(e.func, ast.Attribute) and e.func.attr == "read" and _is_raw(fn, e.func.value):
            return "key", []
        if dotted(e.func) in ("bytes", "bytearray") and len(e.args) == 1 and not e.keywords:
            return _key_value(ctx, m, e.args[0], at, depth + 1)
        callee = _self_callee(ctx, m, e)
        if callee is not None and callee.fq == f"{CLS}.read_nonce":
            return "key", []
        return "other", []
    if isinstance(e, ast.Name) and e.id not in params(fn):
        rd = reaching_defs(ctx, m, e.id, at)
        ust = at if isinstance(at, ast.stmt) else fv.stmt_of(at)
        if not rd or ust is None or any(v is None for _s, v in rd):
            return ("const", []) if not rd and _const(ctx, m, e) is not None else ("other", [])
        kinds, links = [], []
        for s, v in rd:
            dst = s if isinstance(s, ast.stmt) else fv.stmt_of(s)
            k, l = _key_value(ctx, m, v, dst, depth + 1)
            if k == "other" or dst is None:
                return "other", []
            kinds.append(k)
            links += l
            if k == "key":
                links.append((dst, e.id, ust))
        return ("key" if "key" in kinds else "const"), links
    if _const(ctx, m, e) is not None:
        return "const", []
    return "other", []


def r6(ctx):
    cls_where = "xordecode.py::XorEncodedFile"
    ms = _instance_methods(ctx)
    stores = {m.fq: _attr_stores(m) for m in ms}
    state = sorted({a for m in ms if _mname(m) != "__init__" for _st, a, _v in stores[m.fq]})
    consumed, memos = {}, []
    for name in state:
        loads = [(m, n) for m in ms if _mname(m) not in _NOT_READ_PATH for n in _attr_loads(m, name)]
        if loads and all(v is not None and _position_free(ctx, m, v, st, set(state)) for m in ms for st, a, v in stores[m.fq] if a == name):
            memos.append(name)  # computed from the constructor's data alone: the same value at every position
        elif loads:
            consumed[name] = loads
    t0 = "the cursor of the underlying file is the only state carried across calls"
    if not consumed:
        idle = [a for a in state if a not in consumed and a not in memos]
        ctx.ob("R6", "CURSOR", cls_where, t0, True, "no attribute written outside the constructor is read back by read/seek/tell/read_nonce: what read(n) returns is a function of "
               "the raw position and the constructor's header words only" + (f" (written but never read back on the read path: {idle})" if idle else "")
               + (f" (memos computed from the constructor's data alone: {memos})" if memos else ""))
        return
    memo: Dict[str, bool] = {}
    for name, loads in consumed.items():
        text = f"state self.{name} carried across calls is re-established whenever the underlying cursor moves"
        users = sorted({_mname(m) for m, _n in loads})
        if not _is_key(ctx, ms, name):
            ctx.undecided("R6", "CURSOR", cls_where, text, f"self.{name} is written outside the constructor and read back by {users}: the view keeps state besides the cursor of the "
                          "underlying file; the rule only interprets a cached rolling key (a value that reaches the key operand of the decode step)")
            continue
        # a cache that is validated where it is used - against the current position or by other carried state (a validity flag,
        # a remembered position) - is a different design: not followed
        checked = False
        for m, n in loads:
            for _t, _pol, t in dominating_conditions(ctx, m, n):
                sub = [origin(m.node, x) if isinstance(x, ast.Name) else x for x in ast.walk(t)]
                tells = any(isinstance(y, ast.Call) and isinstance(y.func, ast.Attribute) and y.func.attr == "tell" for x in sub for y in ast.walk(x))
                attrs = any(isinstance(y, ast.Attribute) and isinstance(y.value, ast.Name) and y.value.id == params(m.node)[0] and y.attr in state and y.attr != name
                            for x in sub for y in ast.walk(x))
                checked = checked or tells or attrs
        if checked:
            ctx.undecided("R6", "CURSOR", cls_where, text, f"the cached key self.{name} is used under a test on the current position or on other carried state: a validated cache is not followed")
            continue
        findings: List[Tuple[str, object, ast.AST, str]] = []
        for m in ms:
            fn, cfg, fv = m.node, ctx.cfg(m), FuncView.of(m.node)
            mine = [(st, v) for st, a, v in stores[m.fq] if a == name and cfg.has(st)]
            kills = [cfg.node(st) for st, _v in mine]
            for c in fn_calls(fn):
                callee = _self_callee(ctx, m, c)
                st = fv.stmt_of(c)
                if callee is not None and st is not None and cfg.has(st) and _always_stores(ctx, callee, name) and cfg.node(st) not in kills:
                    kills.append(cfg.node(st))  # its own obligations say what it leaves behind
            every = [(c, cfg.node(st), specialise(cfg, assume) if assume else cfg) for c, st, assume in _movements(ctx, m, memo)]
            movs = [(c, mn, spec) for c, mn, spec in every if mn not in kills]  # a store in the moving statement itself happens after the movement
            # (a) the value the method was entered with survives a movement of the cursor
            if _mname(m) != "__init__":
                for c, mn, spec in movs:
                    if not (spec.reaches(ENTRY, mn, avoiding=kills) and spec.reaches(mn, EXIT, avoiding=kills)):
                        continue
                    unset = False
                    for _t, pol, t in dominating_conditions(ctx, m, c):
                        if isinstance(t, ast.Compare) and len(t.ops) == 1 and isinstance(t.comparators[0], ast.Constant) and t.comparators[0].value is None \
                                and dotted(t.left) == f"{params(fn)[0]}.{name}" and isinstance(t.ops[0], (ast.Is, ast.IsNot, ast.Eq, ast.NotEq)):
                            unset = unset or (isinstance(t.ops[0], (ast.Is, ast.Eq)) == pol)
                        elif dotted(t) == f"{params(fn)[0]}.{name}" and not pol:
                            unset = True
                    if not unset:
                        findings.append(("bad", m, c, f"{_mname(m)}() moves the underlying cursor (`{src(c)}`) on a path that neither resets nor re-establishes self.{name}: the key cached "
                                         "for the old position is used by the next read at the new one"))
                        break
            # (b) what the method stores must be the key of the position it leaves the cursor at
            for st, v in mine:
                sn = cfg.node(st)
                kind, links = _key_value(ctx, m, v, st)
                if kind == "const":
                    continue
                if kind == "other":
                    findings.append(("unknown", m, st, f"{_mname(m)}() stores `{src(v) if v is not None else src(st)}` in self.{name}: not a constant and not a whole word read at the cursor / "
                                     "a read_nonce() result - its relation to the position is not followed"))
                    continue
                stale = None
                for dst, local, ust in links:
                    if not (cfg.has(dst) and cfg.has(ust)):
                        continue
                    dn, un = cfg.node(dst), cfg.node(ust)
                    others = [cfg.node(s if isinstance(s, ast.stmt) else fv.stmt_of(s)) for s, _v in assignments_to(fn, local)
                              if (s if isinstance(s, ast.stmt) else fv.stmt_of(s)) is not None and cfg.has(s if isinstance(s, ast.stmt) else fv.stmt_of(s))]
                    others = [x for x in others if x != dn]
                    for c, mn, spec in every:
                        if mn in (dn, un):
                            continue
                        if spec.reaches(dn, mn, avoiding=others) and spec.reaches(mn, un, avoiding=others + [dn]):
                            stale = (c, f"the word held in `{local}` is stored in self.{name} after `{src(c)}` has moved the cursor away from it")
                            break
                    if stale:
                        break
                if stale is None:
                    for c, mn, spec in movs:
                        if mn == sn:
                            continue
                        if spec.reaches(sn, mn, avoiding=[k for k in kills if k != sn]) and spec.reaches(mn, EXIT, avoiding=kills):
                            stale = (c, f"{_mname(m)}() stores the key of the current position in self.{name} and then moves the cursor (`{src(c)}`) without resetting it: the next "
                                        "sequential read decodes its first word with the key of another position (e.g. after a read that gives bytes of its last word back)")
                            break
                if stale is not None:
                    findings.append(("bad", m, stale[0], stale[1]))
        if not findings:
            ctx.ob("R6", "CURSOR", cls_where, text, True, f"every store of self.{name} is a constant or the key of the position the method leaves the cursor at, and every movement of the "
                   "underlying cursor is followed by a store")
            continue
        seen = set()
        for v in ("bad", "unknown"):
            for verdict, m, node, detail in findings:
                if verdict == v and m.fq not in seen:
                    seen.add(m.fq)
                    _emit(ctx, "R6", "CURSOR", m, text, verdict, detail, detail, node)


# ============================================================================================== R7: position-preserving helpers
# A read-only file has one piece of state that the caller can see: its position, which here is the cursor of the underlying
# file.  The view fetches the key word of a position by looking *behind* it; whatever it does to get there, it must put the
# cursor back - on every path, for every outcome of the reads involved.  `read(k)` moves the cursor by the number of bytes it
# returns, which is only known to lie in [0, k]: it is k when k bytes are available, and nothing guarantees that once the view
# may be positioned at / beyond the end of the data (a legal position of a file).
_PASSIVE = ("tell", "seekable", "readable", "writable", "fileno", "isatty", "flush", "getbuffer", "getvalue")
_IO_API = ("__init__", "__repr__", "__str__", "__del__", "__enter__", "__exit__", "__iter__", "__next__", "close", "seek", "read", "read1", "readall", "readinto",
           "readinto1", "readline", "readlines", "write", "writelines", "truncate", "tell")


def _psubst(p: Optional[SymPoly], sym: str, c) -> Optional[SymPoly]:
    """p with the atom `sym` replaced by the constant c."""
    if p is None or sym not in p.atoms():
        return p
    out = SymPoly()
    for k, v in p.terms.items():
        n = sum(1 for a in k if a == sym)
        out = out + SymPoly({tuple(a for a in k if a != sym): v * (Fraction(c) ** n)})
    return out


class _CS:
    """One path of the cursor walk: the position polynomial (None: not known), the values / byte lengths of locals, the
    intervals of the read-length symbols, the positions the cursor has had, what the path assumed."""

    __slots__ = ("pos", "env", "lens", "bounds", "derived", "valid", "calls", "callens", "opaque", "handler", "trace", "ret", "lost", "pins", "flags")

    def __init__(self):
        self.pos: Optional[SymPoly] = None
        self.env: Dict[str, Optional[SymPoly]] = {}
        self.lens: Dict[str, SymPoly] = {}
        self.bounds: Dict[str, Tuple[int, Optional[int]]] = {}
        self.derived: set = set()
        self.valid: List[SymPoly] = []
        self.calls: Dict[int, Optional[SymPoly]] = {}
        self.callens: Dict[int, SymPoly] = {}
        self.opaque: Optional[str] = None
        self.handler = False
        self.trace: Tuple[str, ...] = ()
        self.ret: Optional[SymPoly] = None
        self.lost: Optional[str] = None
        self.pins: Dict[str, int] = {}
        self.flags: Dict[str, ast.AST] = {}  # local -> the boolean expression it was bound to (operands not rebound since)

    def copy(self) -> "_CS":
        c = _CS()
        c.pos, c.env, c.lens, c.bounds, c.derived, c.valid = self.pos, dict(self.env), dict(self.lens), dict(self.bounds), set(self.derived), list(self.valid)
        c.calls, c.callens, c.opaque, c.handler, c.trace, c.ret, c.lost = dict(self.calls), dict(self.callens), self.opaque, self.handler, self.trace, self.ret, self.lost
        c.pins, c.flags = dict(self.pins), dict(self.flags)
        return c

    def key(self):
        return (repr(self.pos), tuple(sorted((k, repr(v)) for k, v in self.env.items())), tuple(sorted((k, repr(v)) for k, v in self.lens.items())),
                tuple(sorted(self.bounds.items())), tuple(sorted(self.derived)), self.opaque, self.handler, repr(self.ret), self.lost, tuple(sorted(self.flags)))

    def pin(self, sym: str, c: int):
        """the read-length symbol is known to be c on this path"""
        self.pos = _psubst(self.pos, sym, c)
        self.ret = _psubst(self.ret, sym, c)
        self.env = {k: _psubst(v, sym, c) for k, v in self.env.items()}
        self.lens = {k: _psubst(v, sym, c) for k, v in self.lens.items()}
        self.calls = {k: _psubst(v, sym, c) for k, v in self.calls.items()}
        self.callens = {k: _psubst(v, sym, c) for k, v in self.callens.items()}
        self.valid = [_psubst(v, sym, c) for v in self.valid]
        self.bounds.pop(sym, None)
        self.pins[sym] = c


class _Cursor:
    """Path-wise symbolic cursor typestate of one method of the view (devices 2-4 of the technique policy): the structured
    statements are walked once, every path separately; the position is a polynomial over the symbol <raw position> (the
    cursor at entry) and one symbol per read of the underlying file, `<len k>` = the number of bytes that read returned, of
    which only 0 <= <len k> <= <nominal size> is known (interval domain); `tell()` results, `len(<read result>)` and
    arithmetic on them are polynomials over the same symbols; tests on `len(<read result>)` against constants refine the
    interval on the two branch edges (a one-point interval pins the symbol), tests that compare the position with the header
    length say nothing about the end of the file and are followed on both edges, any other test that looks at a read result
    or at the position marks the path as `opaque`.  A seek that may raise (a relative seek not known to be forwards, an
    absolute seek to something that is not a position the cursor has had) enters the handlers of the enclosing try with the
    state before it; reads are assumed not to raise.  Calls of other methods of the class that touch the underlying file
    are walked in place with their arguments bound.  No loop that moves the file is entered (problem -> undecided).
    `complete=True` is the reading "every read returns its nominal size" (L1 as R1/R3 use it)."""

    MAXPATHS = 96

    def __init__(self, ctx, m, complete: bool = False, depth: int = 0, counter=None, stack=()):
        self.ctx, self.m, self.fn = ctx, m, m.node
        self.complete = complete
        self.depth = depth
        self.counter = counter if counter is not None else [0]
        self.stack = tuple(stack) + (m.fq,)
        self.problem: Optional[str] = None
        self.collectors: List[List[_CS]] = []
        self.escaped = False
        self.spans: Dict[int, set] = {}
        self.symdesc: Dict[str, str] = {}
        self.backward: List[ast.Call] = []
        self._touch: Dict[int, bool] = {}

    # ---- values
    def poly(self, e, s: _CS) -> Optional[SymPoly]:
        if e is None:
            return None

        def special(x):
            if isinstance(x, ast.Name):
                if x.id in s.env:
                    v = s.env[x.id]
                    return v if v is not None else SymPoly.atom(f"<{x.id}?>")
                return None
            if isinstance(x, ast.Call):
                if id(x) in s.calls:
                    v = s.calls[id(x)]
                    return v if v is not None else SymPoly.atom(f"<{src(x)[:30]}?>")
                if dotted(x.func) == "len" and len(x.args) == 1 and not x.keywords:
                    return self.len_of(x.args[0], s)
                if isinstance(x.func, ast.Attribute) and _is_raw(self.fn, x.func.value):
                    return SymPoly.atom(f"<{src(x)[:30]}?>")
            return None

        return _poly(self.ctx, self.m, e, special)

    def len_of(self, e, s: _CS) -> Optional[SymPoly]:
        e = strip_cast(e)
        if isinstance(e, ast.Name):
            return s.lens.get(e.id)
        if isinstance(e, ast.Call):
            if id(e) in s.callens:
                return s.callens[id(e)]
            if dotted(e.func) in ("bytes", "bytearray", "memoryview") and len(e.args) == 1 and not e.keywords:
                return self.len_of(e.args[0], s)
            return None
        c = _const(self.ctx, self.m, e)
        return SymPoly.const(len(c)) if isinstance(c, (bytes, str)) else None

    def const(self, e, s: _CS):
        p = self.poly(e, s)
        c = p.const_value() if p is not None else None
        return int(c) if c is not None and c.denominator == 1 else None

    @staticmethod
    def rng(p: SymPoly, bounds) -> Optional[Tuple[Optional[Fraction], Optional[Fraction]]]:
        """interval of a polynomial that is linear in the bounded read-length symbols (None: not of that form)"""
        lo: Optional[Fraction] = Fraction(0)
        hi: Optional[Fraction] = Fraction(0)
        for k, v in p.terms.items():
            if k == ():
                lo = None if lo is None else lo + v
                hi = None if hi is None else hi + v
                continue
            if len(k) != 1 or k[0] not in bounds:
                return None
            a, b = bounds[k[0]]
            if v > 0:
                lo = None if lo is None else lo + v * a
                hi = None if hi is None or b is None else hi + v * b
            else:
                lo = None if lo is None or b is None else lo + v * b
                hi = None if hi is None else hi + v * a
        return lo, hi

    def nonneg(self, p: Optional[SymPoly], s: _CS) -> bool:
        r = self.rng(p, s.bounds) if p is not None else None
        return r is not None and r[0] is not None and r[0] >= 0

    def tracked(self, e, s: _CS) -> bool:
        """does the expression look at a read result, at the position or at the underlying file?"""
        syms = set(s.bounds) | POS.atoms() | END.atoms()
        for x in ast.walk(e):
            if isinstance(x, ast.Name) and isinstance(x.ctx, ast.Load):
                if x.id in s.lens or x.id in s.derived:
                    return True
                v = s.env.get(x.id)
                if v is not None and v.atoms() & syms:
                    return True
            elif isinstance(x, ast.Call):
                if id(x) in s.calls or id(x) in s.callens or (isinstance(x.func, ast.Attribute) and _is_raw(self.fn, x.func.value)):
                    return True
        return False

    # ---- effects
    def touches(self, callee, seen=()) -> bool:
        """the method (or a method of the class it calls) calls the underlying file"""
        if callee.fq in seen:
            return True
        for c in fn_calls(callee.node):
            if isinstance(c.func, ast.Attribute) and _is_raw(callee.node, c.func.value):
                return True
            c2 = _self_callee(self.ctx, callee, c)
            if c2 is not None and self.touches(c2, tuple(seen) + (callee.fq,)):
                return True
        return False

    def effect_calls(self, e) -> List[ast.Call]:
        """the calls of an expression that touch the underlying file, in evaluation order (operands before the call)"""
        out: List[ast.Call] = []

        def go(n):
            if isinstance(n, ast.Lambda):
                return
            for ch in ast.iter_child_nodes(n):
                go(ch)
            if isinstance(n, ast.Call):
                if isinstance(n.func, ast.Attribute) and _is_raw(self.fn, n.func.value):
                    out.append(n)
                else:
                    callee = _self_callee(self.ctx, self.m, n)
                    if callee is not None:
                        if id(n) not in self._touch:
                            self._touch[id(n)] = self.touches(callee)
                        if self._touch[id(n)]:
                            out.append(n)

        if e is not None:
            go(e)
        return out

    def moves(self, node) -> bool:
        return any(not (isinstance(c.func, ast.Attribute) and _is_raw(self.fn, c.func.value) and c.func.attr in _PASSIVE) for c in self.effect_calls(node))

    def new_symbol(self, s: _CS, call, k) -> SymPoly:
        self.counter[0] += 1
        sym = f"<len {self.counter[0]}>"
        self.symdesc[sym] = f"len(`{src(call)}`)"
        if self.complete and k is not None:
            return SymPoly.const(k)
        if k == 0:
            return SymPoly.const(0)
        s.bounds[sym] = (0, k)
        return SymPoly.atom(sym)

    def may_raise(self, s: _CS):
        if self.collectors:
            self.collectors[-1].append(s.copy())
        else:
            self.escaped = True

    def apply_raw(self, c: ast.Call, s: _CS) -> List[_CS]:
        a = c.func.attr
        if a == "tell" and not c.args:
            s.calls[id(c)] = s.pos
            return [s]
        if a in _PASSIVE:
            return [s]
        if a == "seek":
            off, wh = _seek_args(c)
            w = 0 if wh is None else self.const(wh, s)
            p = self.poly(off, s) if off is not None else None
            if w == 1:
                if not self.nonneg(p, s):
                    self.may_raise(s)
                    r = self.rng(p, s.bounds) if p is not None else None
                    if r is not None and r[1] is not None and r[1] < 0:
                        self.backward.append(c)
                new = s.pos + p if s.pos is not None and p is not None else None
            elif w == 0:
                if p is None or not any(p == v or self.nonneg(p - v, s) for v in s.valid):
                    self.may_raise(s)
                new = p
            elif w == 2:
                if not self.nonneg(p, s):
                    self.may_raise(s)
                new = END + p if p is not None else None
            else:
                self.may_raise(s)
                new = None
            if new is None:
                s.lost = f"`{src(c)}` moves the cursor to a position that cannot be expressed"
            s.pos = new
            s.calls[id(c)] = new
            s.trace += (src(c),)
            if new is not None:
                s.valid.append(new)
            return [s]
        if a in _MOVERS:
            k = self.const(c.args[0], s) if a in ("read", "read1") and c.args else None
            if k is not None and k < 0:
                k = None
            L = self.new_symbol(s, c, k)
            if s.pos is not None:
                if k is not None:
                    self.spans.setdefault(id(c), set()).add((s.pos, k))
                s.pos = s.pos + L
                s.valid.append(s.pos)
            if a in ("read", "read1", "readall", "readline"):
                s.callens[id(c)] = L
            s.trace += (src(c),)
            return [s]
        return [s]

    def apply_callee(self, c: ast.Call, s: _CS) -> List[_CS]:
        callee = _self_callee(self.ctx, self.m, c)
        name = _mname(callee)
        if self.depth >= 2 or callee.fq in self.stack:
            s.pos, s.lost = None, f"`{src(c)}` is not followed (call depth)"
            s.calls[id(c)] = None
            return [s]
        sub = _Cursor(self.ctx, callee, self.complete, self.depth + 1, self.counter, self.stack)
        s0 = _CS()
        s0.pos, s0.bounds, s0.valid, s0.opaque, s0.lost, s0.pins = s.pos, dict(s.bounds), list(s.valid), s.opaque, s.lost, dict(s.pins)
        for p_, a_ in bind_args(c, callee.node, skip_self=True).items():
            s0.env[p_] = self.poly(a_, s) if a_ is not None else None
            L = self.len_of(a_, s) if a_ is not None else None
            if L is not None:
                s0.lens[p_] = L
            if a_ is not None and self.tracked(a_, s):
                s0.derived.add(p_)
        exits = sub.run(s0)
        self.symdesc.update(sub.symdesc)
        self.backward += sub.backward
        if sub.escaped:
            e = s.copy()
            e.pos, e.lost = None, f"an exception raised inside `{src(c)}`"
            self.may_raise(e)
        if sub.problem is not None or not exits:
            s.pos, s.lost = None, f"{name}(): {sub.problem or 'no normal exit'}"
            s.calls[id(c)] = None
            s.trace += (src(c),)
            return [s]
        out = []
        for x in exits:
            t = s.copy()
            for sym, cv in x.pins.items():  # read lengths pinned by a test inside the callee are pinned for the caller too
                if sym not in t.pins:
                    t.pin(sym, cv)
            t.pos, t.bounds, t.valid, t.opaque, t.lost = x.pos, dict(x.bounds), list(x.valid), x.opaque, x.lost
            t.calls[id(c)] = x.ret
            t.trace += (f"{name}()",) if x.trace else ()
            out.append(t)
        return out

    def effects(self, e, states: List[_CS]) -> List[_CS]:
        calls = self.effect_calls(e)
        if not calls:
            return states
        fv = FuncView.of(self.fn)
        for c in calls:
            for anc in fv.ancestors(c):
                if isinstance(anc, ast.stmt):
                    break
                if isinstance(anc, (ast.IfExp, ast.BoolOp, ast.ListComp, ast.SetComp, ast.DictComp, ast.GeneratorExp, ast.Lambda)):
                    if self.moves(c):
                        self.problem = f"`{src(c)}` is evaluated conditionally / repeatedly inside an expression"
                        return []
        for c in calls:
            nxt: List[_CS] = []
            for s in states:
                nxt += self.apply_raw(c, s) if (isinstance(c.func, ast.Attribute) and _is_raw(self.fn, c.func.value)) else self.apply_callee(c, s)
            states = nxt
        return states

    # ---- bindings
    def unflag(self, name: str, s: _CS):
        s.flags = {k: e for k, e in s.flags.items() if k != name and not any(isinstance(x, ast.Name) and x.id == name for x in ast.walk(e))}

    def bind(self, name: str, value, s: _CS):
        v = strip_cast(value) if value is not None else None
        self.unflag(name, s)
        if isinstance(v, (ast.Compare, ast.BoolOp)) or (isinstance(v, ast.UnaryOp) and isinstance(v.op, ast.Not)):
            if not self.effect_calls(v) and not any(isinstance(x, ast.Name) and x.id == name for x in ast.walk(v)):
                s.flags[name] = v
        s.env[name] = self.poly(value, s) if value is not None else None
        L = self.len_of(v, s) if v is not None else None
        if L is not None:
            s.lens[name] = L
        else:
            s.lens.pop(name, None)
        if value is not None and self.tracked(value, s):
            s.derived.add(name)
        else:
            s.derived.discard(name)

    def kill(self, node, s: _CS):
        for x in ast.walk(node):
            if isinstance(x, ast.Name) and isinstance(x.ctx, (ast.Store, ast.Del)):
                self.unflag(x.id, s)
                if x.id in s.env or x.id in s.lens:
                    s.derived.add(x.id)
                s.env[x.id] = None
                s.lens.pop(x.id, None)

    # ---- tests
    def branch(self, t, s: _CS) -> Tuple[List[_CS], List[_CS]]:
        """(states on the true edge, states on the false edge)"""
        if isinstance(t, ast.UnaryOp) and isinstance(t.op, ast.Not):
            a, b = self.branch(t.operand, s)
            return b, a
        if isinstance(t, ast.BoolOp):
            conj = isinstance(t.op, ast.And)
            go, stop = [s], []
            for v in t.values:
                nxt = []
                for x in go:
                    a, b = self.branch(v, x)
                    nxt += a if conj else b
                    stop += b if conj else a
                go = nxt
            return (go, stop) if conj else (stop, go)
        if isinstance(t, ast.Compare) and len(t.ops) == 1 and isinstance(t.ops[0], (ast.Lt, ast.LtE, ast.Gt, ast.GtE, ast.Eq, ast.NotEq)):
            a, b = self.poly(t.left, s), self.poly(t.comparators[0], s)
            if a is not None and b is not None:
                r = self.compare(a - b, type(t.ops[0]), s)
                if r is not None:
                    return r
        elif isinstance(t, ast.Name) and t.id in s.flags:
            return self.branch(s.flags[t.id], s)  # a flag: the test it was bound to (its operands have not been rebound since)
        elif not isinstance(t, ast.Compare):
            L = self.len_of(t, s)
            if L is not None:
                r = self.compare(L, ast.Gt, s)  # truthiness of bytes: non-empty
                if r is not None:
                    return r
            c = _c(t) if isinstance(t, ast.Constant) else None
            if isinstance(t, ast.Constant):
                return ([s], []) if c else ([], [s])
        x, y = s, s.copy()
        if self.tracked(t, s):
            x.opaque = y.opaque = x.opaque or f"`{src(t)[:60]}`"
        return [x], [y]

    def compare(self, d: SymPoly, op, s: _CS) -> Optional[Tuple[List[_CS], List[_CS]]]:
        """branch edges of `d <op> 0`; None: the comparison is not understood"""
        holds = {ast.Lt: lambda v: v < 0, ast.LtE: lambda v: v <= 0, ast.Gt: lambda v: v > 0, ast.GtE: lambda v: v >= 0, ast.Eq: lambda v: v == 0, ast.NotEq: lambda v: v != 0}[op]
        c = d.const_value()
        if c is not None:
            return ([s], []) if holds(c) else ([], [s])
        pa = next(iter(POS.atoms()))
        if d.atoms() <= (POS.atoms() | H.atoms() | set(s.bounds)) and (not (d.atoms() & set(s.bounds)) or [k for k in d.terms if pa in k] == [(pa,)]):
            # a position against the header length says nothing about the end of the file; when the position is the one after a
            # read (it contains a read length) the test constrains that length only relative to the entry position, which is
            # arbitrary: for no outcome of the test is the read complete at every position - both edges are followed as they are
            return [s], [s.copy()]
        r = self.rng(d, s.bounds)
        if r is None:
            return None
        lo, hi = r
        # decided by the interval
        if op is ast.Lt and hi is not None and hi < 0 or op is ast.LtE and hi is not None and hi <= 0 or op is ast.Gt and lo is not None and lo > 0 \
                or op is ast.GtE and lo is not None and lo >= 0 or op is ast.NotEq and ((lo is not None and lo > 0) or (hi is not None and hi < 0)):
            return [s], []
        if op is ast.Lt and lo is not None and lo >= 0 or op is ast.LtE and lo is not None and lo > 0 or op is ast.Gt and hi is not None and hi <= 0 \
                or op is ast.GtE and hi is not None and hi < 0 or op is ast.Eq and ((lo is not None and lo > 0) or (hi is not None and hi < 0)):
            return [], [s]
        syms = [k[0] for k in d.terms if k != ()]
        if len(syms) != 1:
            return None
        sym, v, c0 = syms[0], d.terms[(syms[0],)], d.terms.get((), Fraction(0))
        t = -c0 / v  # d <op> 0  <=>  sym <op'> t   (op mirrored when v < 0)
        if v < 0:
            op = {ast.Lt: ast.Gt, ast.LtE: ast.GtE, ast.Gt: ast.Lt, ast.GtE: ast.LtE}.get(op, op)
        def refine(state: _CS, kind, neg: bool) -> Optional[_CS]:
            a, b = state.bounds[sym]
            if neg:
                kind = {ast.Lt: ast.GtE, ast.LtE: ast.Gt, ast.Gt: ast.LtE, ast.GtE: ast.Lt, ast.Eq: ast.NotEq, ast.NotEq: ast.Eq}[kind]
            if kind is ast.Lt:
                b2 = math.ceil(t) - 1
                b = b2 if b is None else min(b, b2)
            elif kind is ast.LtE:
                b2 = math.floor(t)
                b = b2 if b is None else min(b, b2)
            elif kind is ast.Gt:
                a = max(a, math.floor(t) + 1)
            elif kind is ast.GtE:
                a = max(a, math.ceil(t))
            elif kind is ast.Eq:
                if t.denominator != 1:
                    return None
                a = max(a, int(t))
                b = int(t) if b is None else min(b, int(t))
            else:  # NotEq
                if t.denominator == 1:
                    if a == int(t):
                        a += 1
                    elif b is not None and b == int(t):
                        b -= 1
            if b is not None and a > b:
                return None
            state.bounds[sym] = (a, b)
            if b is not None and a == b:
                state.pin(sym, a)
            return state

        yes, no = refine(s.copy(), op, False), refine(s.copy(), op, True)
        return ([yes] if yes is not None else []), ([no] if no is not None else [])

    # ---- statements
    def dedupe(self, states: List[_CS]) -> List[_CS]:
        seen, out = set(), []
        for s in states:
            k = s.key()
            if k not in seen:
                seen.add(k)
                out.append(s)
        return out

    def block(self, body, states: List[_CS]) -> List[Tuple[_CS, str]]:
        live, done = list(states), []
        for st in body:
            nxt: List[_CS] = []
            for s in live:
                for s2, out in self.stmt(st, s):
                    (nxt if out == "fall" else done).append(s2 if out == "fall" else (s2, out))
                if self.problem is not None:
                    return []
            live = self.dedupe(nxt)
            if len(live) + len(done) > self.MAXPATHS:
                self.problem = "too many paths"
                return []
            if not live:
                break
        return [(s, "fall") for s in live] + done

    def stmt(self, st, s: _CS) -> List[Tuple[_CS, str]]:
        fall = lambda states: [(x, "fall") for x in states]  # noqa: E731
        if isinstance(st, (ast.Pass, ast.Global, ast.Nonlocal, ast.Import, ast.ImportFrom, ast.FunctionDef, ast.AsyncFunctionDef, ast.ClassDef)):
            return [(s, "fall")]
        if isinstance(st, ast.Expr):
            return fall(self.effects(st.value, [s]))
        if isinstance(st, (ast.Assign, ast.AnnAssign)):
            if st.value is None:
                return [(s, "fall")]
            targets = st.targets if isinstance(st, ast.Assign) else [st.target]
            if any(self.effect_calls(t) for t in targets):
                self.problem = f"`{src(st)[:60]}`: the underlying file is used inside an assignment target"
                return []
            out = self.effects(st.value, [s])
            for x in out:
                for t in targets:
                    if isinstance(t, ast.Name):
                        self.bind(t.id, st.value, x)
                    else:
                        self.kill(t, x)
            return fall(out)
        if isinstance(st, ast.AugAssign):
            out = self.effects(st.value, [s])
            for x in out:
                if isinstance(st.target, ast.Name):
                    nm = st.target.id
                    self.unflag(nm, x)
                    cur, d = x.env.get(nm), self.poly(st.value, x)
                    Lc, Ld = x.lens.get(nm), self.len_of(st.value, x)
                    tr = self.tracked(st.value, x)
                    x.env[nm] = (cur + d if isinstance(st.op, ast.Add) else cur - d) if cur is not None and d is not None and isinstance(st.op, (ast.Add, ast.Sub)) else None
                    if Lc is not None and Ld is not None and isinstance(st.op, ast.Add):
                        x.lens[nm] = Lc + Ld
                    else:
                        x.lens.pop(nm, None)
                    if tr:
                        x.derived.add(nm)
            return fall(out)
        if isinstance(st, ast.Return):
            out = self.effects(st.value, [s]) if st.value is not None else [s]
            for x in out:
                x.ret = self.poly(st.value, x) if st.value is not None else None
            return [(x, "return") for x in out]
        if isinstance(st, ast.Raise):
            if self.moves(st):
                self.problem = "the underlying file is moved inside a raise statement"
                return []
            return [(s, "raise")]
        if isinstance(st, (ast.Break, ast.Continue)):
            return [(s, "break" if isinstance(st, ast.Break) else "continue")]
        if isinstance(st, (ast.Assert, ast.Delete)):
            if self.moves(st):
                self.problem = f"`{src(st)[:60]}` moves the underlying file"
                return []
            self.kill(st, s)
            return [(s, "fall")]
        if isinstance(st, ast.If):
            out: List[Tuple[_CS, str]] = []
            for x in self.effects(st.test, [s]):
                yes, no = self.branch(st.test, x)
                out += self.block(st.body, yes) if yes else []
                out += (self.block(st.orelse, no) if st.orelse else fall(no)) if no else []
            return out
        if isinstance(st, ast.Try) or type(st).__name__ == "TryStar":
            return self.do_try(st, s)
        if isinstance(st, (ast.With, ast.AsyncWith)):
            if any(self.effect_calls(i.context_expr) for i in st.items):
                self.problem = "the underlying file is used as / inside a context manager"
                return []
            for i in st.items:
                if i.optional_vars is not None:
                    self.kill(i.optional_vars, s)
            return self.block(st.body, [s])
        if isinstance(st, (ast.For, ast.AsyncFor, ast.While)):
            if self.moves(st):
                self.problem = "a loop moves the underlying file: its net movement is not followed"
                return []
            self.kill(st, s)
            out = [(s, "fall")]
            if any(isinstance(x, ast.Return) for x in ast.walk(st)):
                r = s.copy()
                r.ret = None
                out.append((r, "return"))
            return out
        if self.moves(st):
            self.problem = f"`{src(st)[:60]}`: a statement of this kind that moves the underlying file is not followed"
            return []
        self.kill(st, s)
        return [(s, "fall")]

    def do_try(self, st, s: _CS) -> List[Tuple[_CS, str]]:
        self.collectors.append([])
        body = self.block(st.body, [s])
        raised = self.collectors.pop()
        if self.problem is not None:
            return []
        raised += [x for x, o in body if o == "raise"]
        through = [x for x, o in body if o == "fall"]
        results = [(x, o) for x, o in body if o not in ("fall", "raise")]
        results += self.block(st.orelse, through) if st.orelse and through else [(x, "fall") for x in through]
        if st.handlers:
            for h in st.handlers:
                hs = []
                for x in self.dedupe(raised):
                    y = x.copy()
                    y.handler = True
                    if h.name:
                        y.env[h.name] = None
                    hs.append(y)
                results += self.block(h.body, hs) if hs else []
        else:
            results += [(x, "raise") for x in raised]
        if self.problem is not None:
            return []
        if st.finalbody:
            out = []
            for x, o in results:
                for y, o2 in self.block(st.finalbody, [x]):
                    out.append((y, o if o2 == "fall" else o2))
            results = out
        return results

    def run(self, s0: Optional[_CS] = None) -> List[_CS]:
        """the states at the normal exits (return / falling off the end) of the method"""
        if s0 is None:
            s0 = _CS()
            s0.pos = POS
            s0.valid = [POS]
        res = self.block(self.fn.body, [s0])
        if self.problem is not None:
            return []
        return self.dedupe([x for x, o in res if o in ("fall", "return")])


def _cursor_verdict(ctx, m) -> Tuple[str, str, Optional[ast.AST]]:
    """('ok' | 'bad' | 'unknown', detail, node): is the net movement of the underlying cursor provably 0 on every path of
    the method, whatever the reads return?"""
    cur = _Cursor(ctx, m)
    exits = cur.run()
    node = cur.backward[0] if cur.backward else None
    if cur.problem is not None:
        return "unknown", cur.problem, node
    if not exits:
        return "unknown", "the method has no normal exit that can be followed", node
    vocab = POS.atoms() | END.atoms() | H.atoms()
    worst, notes = "ok", []
    nmoves = 0
    for x in exits:
        how = " -> ".join(x.trace) or "no movement"
        nmoves += bool(x.trace)
        if x.pos is None:
            v, why = "unknown", f"[{how}] {x.lost or 'the position is not known'} and the position is not restored absolutely afterwards"
        else:
            net = x.pos - POS
            if not net.terms:
                continue
            syms = sorted(a for a in net.atoms() if a in cur.symdesc)
            if not (net.atoms() <= (vocab | set(cur.symdesc))):
                v, why = "unknown", f"[{how}] leaves the cursor at {x.pos}: not over the position, the header length and the read lengths only"
            elif x.opaque is not None:
                v, why = "unknown", f"[{how}] leaves the cursor at {x.pos} on a path that depends on the test {x.opaque}, which is not understood"
            else:
                v = "bad"
                why = f"[{how}] leaves the cursor at {x.pos} instead of <raw position>" + (" (path through the exception handler)" if x.handler else "")
                if syms:
                    rng = {a: x.bounds.get(a, (0, None)) for a in syms}
                    why += " where " + ", ".join(f"{a} = {cur.symdesc[a]} in [{rng[a][0]}, {rng[a][1] if rng[a][1] is not None else 'inf'}]" for a in syms) + ": a read moves the cursor by the number of bytes it returns, which is its nominal size " \
                           "only when that many bytes are available - not when the view is positioned at / beyond the end of the data (seek(EOF + 2); read(5) returns b'' and tell() has moved)"
        notes.append((v, why))
        worst = _worst([worst, v])
    if worst == "ok":
        return "ok", (f"on each of the {len(exits)} path(s) the cursor ends at <raw position>, whatever the reads return" if nmoves else "the underlying file is not moved"), node
    return worst, "; ".join(dict.fromkeys(w for v, w in notes if v == worst)), node


def _key_fetchers(ctx) -> list:
    """The methods whose result is the key word of the current position: read_nonce(), and whatever method of the class
    the first key of the decode step in read() comes from."""
    out = [ctx.repo.func(f"{CLS}.read_nonce")]
    f = ctx.repo.func(f"{CLS}.read")
    fn = f.node
    for c in fn_calls(fn):
        cal = ctx.rs.resolve_call(f, c)
        if not (cal.kind == "func" and cal.func is not None and cal.fq == "utils.xor"):
            continue
        key = bind_args(c, cal.func.node).get("key")
        key = strip_cast(key) if key is not None else None
        if not isinstance(key, ast.Name) or key.id in params(fn):
            continue
        for _s, v in reaching_defs(ctx, f, key.id, c):
            o = origin(fn, v) if v is not None else None
            g = _self_callee(ctx, f, o) if isinstance(o, ast.Call) else None
            if g is not None and g not in out:
                out.append(g)
    return out


def r7(ctx):
    ms = _instance_methods(ctx)
    fetchers = _key_fetchers(ctx)
    t = "cursor restored"
    for g in fetchers:
        v, detail, node = _cursor_verdict(ctx, g)
        name = _mname(g)
        _emit(ctx, "R7", "CURSOR", g, t, v,
              f"{name}() fetches the key word of the current position and leaves the underlying cursor where it was: {detail}",
              f"{name}() is called for the key word of the current position and must leave the underlying cursor where it was, but {detail}",
              node, unknown_detail=f"{name}() must leave the underlying cursor where it was; cannot be evaluated: {detail}")
    # other look-behind / peek helpers: methods that are neither part of the io interface nor (helpers of) read() or of a key
    # fetcher (those are walked in place), and that both seek and read the underlying file
    covered = {g.fq for g in fetchers}
    # helpers that the normaliser has inlined into their call sites have been walked there
    for mod_, st_ in (getattr(ctx.repo, "norm_stats", None) or {}).items():
        covered |= {f"{mod_}.{str(x).split(' ')[0]}" for x in (st_.get("inlined") or [])}
    work = list(fetchers) + [m for m in ms if _mname(m) == "read"]
    while work:
        m = work.pop()
        for c in fn_calls(m.node):
            c2 = _self_callee(ctx, m, c)
            if c2 is not None and c2.fq not in covered:
                covered.add(c2.fq)
                work.append(c2)
    for m in ms:
        if _mname(m) in _IO_API or m.fq in covered:
            continue
        attrs = {c.func.attr for c in fn_calls(m.node) if isinstance(c.func, ast.Attribute) and _is_raw(m.node, c.func.value)}
        if "seek" not in attrs or not (attrs & {"read", "read1", "readinto", "readall", "readline"}):
            continue
        v, detail, node = _cursor_verdict(ctx, m)
        if v == "ok":
            ctx.ob("R7", "CURSOR", m, t, True, f"{_mname(m)}() seeks and reads the underlying file and leaves the cursor where it was: {detail}", node)
        else:
            ctx.undecided("R7", "CURSOR", m, t, f"{_mname(m)}() seeks and reads the underlying file; whether it is meant to keep the position is not known ({detail})", node)


# ============================================================================================== R8: anchors of relative seeks
_SRC_END = "the end of the underlying file"


def r8(ctx):
    """A seek relative to the current position / to the end is measured from a quantity that only the underlying file knows:
    its cursor, resp. where it ends - which is where read() stops delivering decoded bytes.  The target the underlying file is
    moved to under whence == SEEK_CUR / SEEK_END must be computed from that anchor (def-use value flow, L11)."""
    seek = ctx.repo.func(f"{CLS}.seek")
    ps = params(seek.node)
    cases = (("SEEK_CUR", _SRC_POSITION, "seek(offset, SEEK_CUR) is anchored at the current position of the underlying file"),
             ("SEEK_END", _SRC_END, "seek(offset, SEEK_END) is anchored at the end of the underlying file"))
    if len(ps) < 3 or not _raw_calls(seek, "seek"):
        for _n, _a, text in cases:
            ctx.undecided("R8", "CURSOR", seek, text, "seek(offset, whence) does not forward to a seek of the underlying file that can be located")
        return
    off, wh = ps[1], ps[2]
    implicit = {_WHENCE["SEEK_SET"]: None, _WHENCE["SEEK_CUR"]: _SRC_POSITION, _WHENCE["SEEK_END"]: _SRC_END}
    for name, anchor, text in cases:  # the two relative members of the whence vocabulary of the io protocol
        v = _WHENCE[name]
        trace: dict = {}
        status, seeks = _exec_seek(ctx, seek, off, wh, v, trace)
        if status == "unknown" or len(seeks) != 1:
            # several seeks (e.g. to the end first, then back): the typestate of R1 does not follow them; no seek at all is R1's finding
            ctx.undecided("R8", "CURSOR", seek, text, f"cannot follow seek() for whence == {name}" + (f": {len(seeks)} seeks of the underlying file" if status != "unknown" else ""))
            continue
        c, _pa, pw = seeks[0]
        if pw == v:
            ctx.ob("R8", "CURSOR", seek, text, True,
                   f"whence == {name} is served by `{src(c)}` with whence {name} of the underlying file: measured from {anchor}"
                   + (", which is where read() stops delivering decoded bytes" if v == 2 else ""), c)
            continue
        if pw not in implicit:
            ctx.undecided("R8", "CURSOR", seek, text, f"whence == {name} is served by `{src(c)}` whose whence is not a constant of the io protocol", c)
            continue
        if trace["opaque"]:
            ctx.undecided("R8", "CURSOR", seek, text, f"whence == {name} is served by `{src(c)}` after `{src(trace['opaque'][0])}`, whose effect on the underlying file is not followed", c)
            continue
        srcs = set(trace["sources"].get(id(c), {_SRC_UNKNOWN}))
        if implicit[pw] is not None:
            srcs.add(implicit[pw])
        if _SRC_UNKNOWN in srcs:
            ctx.undecided("R8", "CURSOR", seek, text, f"whence == {name} is served by `{src(c)}`; where its target comes from cannot be followed completely "
                          f"(it may well be derived from {anchor})", c)
            continue
        if anchor in srcs:
            ctx.undecided("R8", "CURSOR", seek, text, f"whence == {name} is served by `{src(c)}`, whose target is computed from {anchor} among other things; the arithmetic is not verified here", c)
            continue
        how = {0: "an absolute seek", 1: "a seek relative to the current position", 2: "a seek relative to the end"}[pw]
        why = ("read() delivers decoded bytes until the underlying file is exhausted, so the end of the view is <end of underlying file> - (nonce_offset + 8); none of "
               "these sources determines it (the size word of the header is just file content: a truncated stage, trailing bytes or an explicit nonce_offset make it "
               "differ from the data present), so seek(0, SEEK_END); tell() is not the decoded length and seek(-k, SEEK_END); read(k) is not the last k bytes"
               if v == 2 else
               "the position after the seek must be the position before it plus offset, and none of these sources determines the position before it")
        ctx.ob("R8", "CURSOR", seek, text, False,
               f"whence == {name} is served by {how} `{src(c)}` whose target is computed from " + (", ".join(sorted(srcs)) or "constants") + f" only - "
               f"nothing on this path asks the underlying file for {anchor}.  " + why, c)


# ============================================================================================== R9: what seek() returns
def r9(ctx):
    """A file object returns its new position from seek(): on every return path of the view's seek() the value returned is the
    position tell() reports for the cursor the seek leaves behind.  Same case analysis over the whence vocabulary as R1/R8; the
    returned value and tell()'s value are terms over the symbolic cursor of `_exec_seek` (L1: a raw seek returns the raw
    position it leaves; `tell()` of the underlying file is the position at the point where it is evaluated)."""
    seek = ctx.repo.func(f"{CLS}.seek")
    ps = params(seek.node)
    if len(ps) < 3 or not _raw_calls(seek, "seek"):
        ctx.undecided("R9", "CURSOR", seek, "seek() returns the position tell() reports", "seek(offset, whence) does not forward to a seek of the underlying file that can be located")
        return
    off, wh = ps[1], ps[2]
    vocab = {off} | POS.atoms() | END.atoms() | H.atoms()
    for name, v in _WHENCE.items():  # case analysis over the whence vocabulary of the io protocol (reference table)
        text = f"seek(offset, {name}) returns the position tell() reports"
        trace: dict = {"returns": []}
        status, seeks = _exec_seek(ctx, seek, off, wh, v, trace)
        if status == "unknown":
            ctx.undecided("R9", "CURSOR", seek, text, f"cannot follow seek() for whence == {name}")
            continue
        for st, term, want in trace["returns"]:  # the one exit of the path (none when it ends in a raise)
            what = f"`{src(st)}`" if st is not None else "falling off the end of seek()"
            after = f"the position tell() reports after the seek ({want})" if want is not None else "the position tell() reports after the seek"
            if isinstance(term, str):
                ctx.ob("R9", "CURSOR", seek, text, False,
                       f"with whence == {name} seek() ends by {what} and returns None; a file object returns its new position from seek(): {after}", st)
            elif term is None or want is None:
                ctx.undecided("R9", "CURSOR", seek, text, f"with whence == {name} seek() ends by {what}; the returned value " +
                              ("is not an arithmetic term over the position of the underlying file" if term is None else f"is {term}, but what tell() returns cannot be expressed") +
                              f" - cannot be compared with {after}", st)
            elif term == want:
                ctx.ob("R9", "CURSOR", seek, text, True, f"with whence == {name} seek() returns {term}: {after}"
                       + ("" if seeks else " (the underlying file is not moved on this path: R1)"), st)
            elif (term.atoms() | want.atoms()) <= vocab:
                ctx.ob("R9", "CURSOR", seek, text, False,
                       f"with whence == {name} seek() ends by {what} and returns {term}, but {after} - "
                       + f"the difference is {term - want}: "
                       + "the caller is told a position of the underlying (encoded) file / a stale position, not the position in the decoded data that tell() "
                         "and the next read() work from (`pos = f.seek(..)` must agree with `f.tell()`)", st)
            else:
                ctx.undecided("R9", "CURSOR", seek, text, f"with whence == {name} seek() ends by {what} and returns {term}; {after}: the terms contain "
                              f"values the rule does not see through ({', '.join(sorted((term.atoms() | want.atoms()) - vocab))})", st)


# ============================================================================================== R4: detection
def _resolves_to(ctx, f, e, fq: str) -> bool:
    if not isinstance(e, ast.Call):
        return False
    cal = ctx.rs.resolve_call(f, e)
    return cal.fq == fq or (cal.func is not None and cal.func.fq == fq)


_KNOWN = ("xordecode.iter_nonce_offsets", "utils.iter_find_needle", "pe.find_mz_offset")


def _helper_of(ctx, g, e):
    """The package function a call resolves to when it is a helper of this module that the normaliser did not inline."""
    if not isinstance(e, ast.Call):
        return None
    cal = ctx.rs.resolve_call(g, e)
    if cal.kind == "func" and cal.func is not None and cal.func.module.name == "xordecode" and cal.func.fq not in _KNOWN and cal.func.fq != g.fq:
        return cal.func
    return None


def _helpers(ctx, f, depth: int = 2) -> list:
    out = []

    def go(g, d):
        for c in fn_calls(g.node):
            h = _helper_of(ctx, g, c)
            if h is not None and h.fq != f.fq and not any(h.fq == x.fq for x in out):
                out.append(h)
                if d > 1:
                    go(h, d - 1)

    go(f, depth)
    return out


def _constructs(ctx, g, c, depth: int = 0) -> bool:
    cal = ctx.rs.resolve_call(g, c)
    if cal.kind == "class" and cal.fq == CLS:
        return True
    h = _helper_of(ctx, g, c)
    return h is not None and depth < 2 and any(_constructs(ctx, h, c2, depth + 1) for c2 in fn_calls(h.node))


def _validated_return(ctx, g, r, depth: int = 0) -> Tuple[str, str]:
    """Verdict for `return <view>` in function g: every value that can be returned is a freshly built XorEncodedFile that
    passed `find_mz_offset(<it>) is not None` and was rewound - the value is followed through copies and joins (a `None`
    alternative must be excluded by a None test), and through helpers that return such a view or None."""
    fn, cfg, fv = g.node, ctx.cfg(g), FuncView.of(g.node)
    name0 = _root(fn, r.value)
    if name0 is None or "." in name0:
        return "unknown", "the returned value is not a local candidate"

    def is_(e, nm):
        return e is not None and _root(fn, e) == nm

    def nonnull(t, pol, nm):
        if is_(t, nm):
            return pol
        if isinstance(t, ast.Compare) and len(t.ops) == 1 and is_(t.left, nm) and isinstance(t.comparators[0], ast.Constant) and t.comparators[0].value is None:
            return isinstance(t.ops[0], (ast.IsNot, ast.NotEq)) == pol
        return False

    def validates(t, pol, nm):
        """True: holds only if find_mz_offset(<candidate>) is not None; False: a find_mz_offset test of another kind"""
        if not (isinstance(t, ast.Compare) and len(t.ops) == 1):
            e = origin(fn, strip_cast(t))
            if _resolves_to(ctx, g, e, "pe.find_mz_offset") and e.args and is_(e.args[0], nm):
                return False  # truthiness: offset 0 (the normal case) is falsy
            return None
        l, op, rr = origin(fn, t.left), t.ops[0], t.comparators[0]
        if not (_resolves_to(ctx, g, l, "pe.find_mz_offset") and l.args and is_(l.args[0], nm)):
            return None
        if isinstance(rr, ast.Constant) and rr.value is None and isinstance(op, (ast.Is, ast.IsNot, ast.Eq, ast.NotEq)):
            return isinstance(op, (ast.IsNot, ast.NotEq)) == pol
        return False

    conds_cache: Dict[int, list] = {}

    def conds(pt):
        if id(pt) not in conds_cache:
            conds_cache[id(pt)] = _cond_nodes(ctx, g, pt)
        return conds_cache[id(pt)]

    def rewound(nm, pt) -> bool:
        for c in fn_calls(fn):
            if isinstance(c.func, ast.Attribute) and c.func.attr == "seek" and is_(c.func.value, nm):
                off, wh = _seek_args(c)
                if _const(ctx, g, off) == 0 and (wh is None or _const(ctx, g, wh) == 0) and cfg.has(fv.stmt_of(c)) and cfg.has(fv.stmt_of(pt)) \
                        and cfg.dominates(cfg.node(fv.stmt_of(c)), cfg.node(fv.stmt_of(pt))):
                    return True
        return False

    def follow(nm, at, path, d) -> List[Tuple[str, str]]:
        path = path + [(nm, at)]
        rd = reaching_defs(ctx, g, nm, at)
        if not rd or d > 6:
            return [("unknown", f"cannot follow where `{nm}` comes from")]
        out = []
        for st, v in rd:
            v0 = strip_cast(v) if v is not None else None
            if v0 is None:
                out.append(("unknown", f"`{nm}` is bound by `{src(st)[:40]}`"))
            elif isinstance(v0, ast.Constant) and v0.value is None:
                # excluded by a None test, or by a successful find_mz_offset(<it>) validation (None cannot pass it)
                if not any(nonnull(t, pol, n2) or validates(t, pol, n2) is True for n2, pt in path for t, pol in conds(pt)):
                    out.append(("bad", "None can be returned instead of raising ValueError"))
            elif isinstance(v0, ast.Name) and v0.id in params(fn):
                out.append(("bad", f"the returned object is the argument `{v0.id}`, not a view built by cls(fh, nonce_offset=candidate)"))
            elif isinstance(v0, ast.Name):
                out += follow(_root(fn, v0) or v0.id, st, path, d + 1)
            elif isinstance(v0, ast.Call) and ctx.rs.resolve_call(g, v0).kind == "class" and ctx.rs.resolve_call(g, v0).fq == CLS:
                vals = [validates(t, pol, n2) for n2, pt in path for t, pol in conds(pt)]
                val, odd = any(x is True for x in vals), any(x is False for x in vals)
                rew_ok = any(rewound(n2, pt) for n2, pt in path)
                out.append(("ok" if val and rew_ok else "bad",
                            f"candidate returned only after find_mz_offset(<it>) is not None={val}" + (" (tested for truthiness/another value: offset 0 is rejected)" if odd and not val else "")
                            + f"; rewound to logical 0={rew_ok}; built by cls(fh, nonce_offset=candidate)=True"))
            elif isinstance(v0, ast.Call) and _helper_of(ctx, g, v0) is not None and depth < 2:
                h = _helper_of(ctx, g, v0)
                if not any(nonnull(t, pol, n2) for n2, pt in path for t, pol in conds(pt)):
                    out.append(("bad", f"the result of {h.qualname} is returned without testing it for None"))
                    continue
                rets = [r2 for r2 in ctx.cfg(h).return_stmts() if r2.value is not None and not (isinstance(r2.value, ast.Constant) and r2.value.value is None)]
                out += [_validated_return(ctx, h, r2, depth + 1) for r2 in rets] or [("bad", f"{h.qualname} never returns a view")]
            else:
                out.append(("unknown", f"the returned object is `{src(v0)[:60]}`"))
        return out

    res = follow(name0, r, [], 0)
    if not res:
        return "unknown", "no value reaches the return"
    v = _worst(x for x, _d in res)
    return v, "; ".join(dict.fromkeys(d for x, d in res if x == v))


def _r4_scan_range(ctx):
    """The size-relation scan probes every offset 0 .. maxrange-1."""
    ino = ctx.repo.func("xordecode.iter_nonce_offsets")
    fn = ino.node
    ps = params(fn)
    t = "scan covers offsets 0 .. maxrange-1"
    yields = [n for n in body_walk(fn) if isinstance(n, ast.Yield) and n.value is not None]
    fv = FuncView.of(fn)
    loop = fv.enclosing(yields[0], (ast.For, ast.While)) if yields else None
    name = dotted(yields[0].value) if yields else None
    if isinstance(loop, ast.While) and name is not None and len(ps) > 2 and name not in ps:
        # counter-driven scan: `i = c0` before the loop, one `i = i + 1` per iteration, `i < maxrange` holds where i is used
        cfg = ctx.cfg(ino)
        inside = {id(x) for x in ast.walk(loop)}
        defs = assignments_to(fn, name)
        init = [(st, v) for st, v in defs if id(st) not in inside]
        upd = [st for st, v in defs if id(st) in inside]
        I = SymPoly.atom(name)
        ystmt = fv.stmt_of(yields[0])
        if len(init) == 1 and len(upd) == 1 and _is_int(_const(ctx, ino, init[0][1])) and cfg.has(upd[0] if isinstance(upd[0], ast.stmt) else fv.stmt_of(upd[0])) and cfg.has(ystmt):
            ust = upd[0] if isinstance(upd[0], ast.stmt) else fv.stmt_of(upd[0])
            uval = ust.value if isinstance(ust, ast.Assign) else (upd[0].value if isinstance(upd[0], ast.NamedExpr) else None)
            step = _poly(ctx, ino, uval, stop=frozenset({name})) - I if uval is not None and _poly(ctx, ino, uval, stop=frozenset({name})) is not None else None
            if isinstance(ust, ast.AugAssign) and isinstance(ust.op, ast.Add):
                step = _poly(ctx, ino, ust.value, stop=frozenset({name}))
            before_use = cfg.dominates(cfg.node(ust), cfg.node(ystmt))
            after_use = cfg.dominates(cfg.node(ystmt), cfg.node(ust)) or not cfg.reaches(cfg.node(ust), cfg.node(ystmt), avoiding=[cfg.node(loop)])
            if step is not None and (before_use or after_use):
                first = SymPoly.const(_const(ctx, ino, init[0][1])) + (step if before_use else SymPoly.const(0))
                bound = any(p == I - SymPoly.atom(ps[2]) + SymPoly.const(1) for p in _linear_facts(ctx, ino, ystmt, lambda e: _poly(ctx, ino, e, stop=frozenset({name}))))
                v = _worst([_verdict(first, SymPoly.const(0)), _verdict(step, SymPoly.const(1)), "ok" if bound else "unknown"])
                _emit(ctx, "R4", "LOOP", ino, t, v, "every offset below maxrange is probed",
                      f"the scan starts at {first}, advances by {step}, bounded by maxrange={bound}; required 0, 1, True", loop)
                return
    if not (isinstance(loop, ast.For) and len(ps) > 2 and isinstance(loop.target, ast.Name) and loop.target.id == name and isinstance(loop.iter, ast.Call)
            and dotted(loop.iter.func) == "range" and 1 <= len(loop.iter.args) <= 3 and not loop.iter.keywords):
        ctx.undecided("R4", "LOOP", ino, t, "the scan is not a `for <offset> in range(..)` loop yielding its variable")
        return
    a = loop.iter.args
    start = SymPoly.const(0) if len(a) == 1 else _poly(ctx, ino, a[0])
    stop = _poly(ctx, ino, a[0] if len(a) == 1 else a[1])
    step = SymPoly.const(1) if len(a) < 3 else _poly(ctx, ino, a[2])
    v = _worst([_verdict(start, SymPoly.const(0), vocab={ps[2]}), _verdict(stop, SymPoly.atom(ps[2])), _verdict(step, SymPoly.const(1), vocab={ps[2]})])
    _emit(ctx, "R4", "LOOP", ino, t, v, "every offset below maxrange is probed", f"the scan probes range({start}, {stop}, {step}); required range(0, maxrange, 1)", loop)


_T_ONLY_MZ = "nothing but the MZ validation rejects a candidate"


def _header_word_attrs(ctx) -> set:
    """Attributes of the view in which the constructor keeps bytes it read from the underlying file (the header words: nonce and
    size field), located by who writes them: stores of the constructor whose value is computed from a read of the file."""
    try:
        ctor = ctx.repo.func(f"{CLS}.__init__")
    except Exception:
        return set()
    fn = ctor.node

    def from_read(e, depth=0) -> bool:
        if e is None or depth > 4:
            return False
        for x in ast.walk(e):
            if isinstance(x, ast.Call) and isinstance(x.func, ast.Attribute) and x.func.attr in ("read", "readinto", "unpack", "unpack_from", "from_bytes"):
                if x.func.attr == "read" or any(from_read(a, depth + 1) for a in x.args):
                    return True
            if isinstance(x, ast.Name) and x.id not in params(fn) and any(from_read(v, depth + 1) for _s, v in assignments_to(fn, x.id) if v is not None):
                return True
        return False

    return {a for _st, a, v in _attr_stores(ctor) if v is not None and from_read(v)}


def _r4_only_validation_rejects(ctx, f, lp, vstmts, builds):
    """Detection works "via the end-of-stub marker, the size field, or both": a candidate offset may have been located by one method
    only, and the header words at it are arbitrary (all nonces; the size word is not validated - a truncated / padded stage, L11).  So
    the one thing that may reject a candidate is the check the property names - the decoded content starts with a PE image.  On the CFG
    of the candidate loop (device 2): every way from the start of an iteration to the next candidate / out of the loop passes the MZ
    validation, or the branch that goes round it is classified by the def-use sources of its test (device 3, no arithmetic evaluated):
    computed from the content of the header words of the candidate view, from the size-relation candidates, or from the number of votes
    -> violated (a stage located by the marker alone / with another size word / nonce is turned away before it is validated); other
    tests (the candidate offset, the length of the file, lengths of what was read) -> undecided."""
    from csverif.cfg import RAISE

    fn, cfg, fv = f.node, ctx.cfg(f), FuncView.of(f.node)
    header, start = cfg.node(lp), cfg.edge_node(lp, "iter")
    vn = [cfg.node(st) for st in vstmts if cfg.has(st)]
    rets = [cfg.node(r) for r in cfg.return_stmts()]
    ends = [header, EXIT, RAISE]
    bypass = [e for e in ends if cfg.reaches(start, e, avoiding=vn + rets + ([header] if e != header else []))]
    if not bypass:
        ctx.ob("R4", "LOOP", f, _T_ONLY_MZ, True, "every candidate that is tried is put to the MZ validation: no way round it to the next candidate / out of the loop", lp)
        return
    inside = {id(x) for x in ast.walk(lp)}
    # the candidate: the loop variable handed to the constructor as nonce_offset
    targets = {x.id for x in ast.walk(lp.target) if isinstance(x, ast.Name)}
    cand = set()
    try:
        ctor = ctx.repo.func(f"{CLS}.__init__").node
    except Exception:
        ctor = None
    for c in builds:
        if ctor is not None and id(c) in inside and ctx.rs.resolve_call(f, c).kind == "class":
            ps_ = params(ctor)
            a = bind_args(c, ctor, skip_self=True).get(ps_[2]) if len(ps_) > 2 else None
            nm, at_ = (_root(fn, a) if a is not None else None), fv.stmt_of(c)
            for _hop in range(4):  # `found = offset; cls(fh, nonce_offset=found)`: the one definition that reaches the call
                if nm is None or nm in targets or "." in nm:
                    break
                rd = reaching_defs(ctx, f, nm, at_)
                if len(rd) != 1 or rd[0][1] is None:
                    break
                nm, at_ = _root(fn, rd[0][1]), rd[0][0]
            if nm in targets:
                cand.add(nm)
    hdr = _header_word_attrs(ctx)

    def classify(test, at) -> List[str]:
        found: List[str] = []
        seen: set = set()

        def flow(e, at_, depth=0):
            if e is None or depth > 8:
                return
            skip: set = set()
            for x in ast.walk(e):
                if id(x) in skip:
                    continue
                if isinstance(x, ast.Call) and dotted(x.func) == "len" and len(x.args) == 1:
                    # a length is not content: `len(<header word>)` says how much of the header is there
                    if isinstance(strip_cast(x.args[0]), ast.Attribute):
                        skip |= {id(y) for y in ast.walk(x.args[0])}
                    continue
                if isinstance(x, ast.Call) and _resolves_to(ctx, f, x, "xordecode.iter_nonce_offsets"):
                    found.append("the size-relation candidates (iter_nonce_offsets): a candidate located by the end-of-stub marker alone is turned away")
                elif isinstance(x, ast.Attribute) and isinstance(x.ctx, ast.Load) and x.attr in hdr and not (isinstance(x.value, ast.Name) and x.value.id in ("cls",)):
                    found.append(f"the content of the header word `{src(x)}` of the candidate view (nonce / size field are arbitrary: the size word is not validated - a stage located by the "
                                 "end-of-stub marker whose size field does not describe the file, e.g. a truncated one, is turned away)")
                elif isinstance(x, ast.Name) and isinstance(x.ctx, ast.Load) and x.id not in params(fn):
                    if x.id in cand:
                        continue
                    if x.id in targets and cand:
                        found.append(f"the number of votes `{x.id}` of the candidate: a candidate located by one method only is turned away")
                        continue
                    if (x.id, id(at_)) in seen:
                        continue
                    seen.add((x.id, id(at_)))
                    for s_, v in reaching_defs(ctx, f, x.id, at_):
                        if v is not None:
                            flow(v, s_, depth + 1)
                        elif isinstance(s_, ast.AugAssign):
                            flow(s_.value, s_, depth + 1)
                        elif isinstance(s_, ast.For) and s_ is not lp:
                            flow(s_.iter, s_, depth + 1)

        flow(test, at)
        return found

    bad: List[Tuple[ast.AST, str]] = []
    for nd, st in cfg.stmt.items():
        if not isinstance(st, (ast.If, ast.While)) or id(st) not in inside or nd in vn or not cfg.reaches(start, nd, avoiding=vn + rets + [header]):
            continue
        et, ef = cfg.edge_node(st, "true"), cfg.edge_node(st, "false")
        for a, b in ((et, ef), (ef, et)):
            goes_round = any(cfg.reaches(a, e, avoiding=vn + rets + ([header] if e != header else [])) for e in ends)
            validates = any(cfg.reaches(b, v, avoiding=[header]) or b == v for v in vn)
            if goes_round and validates:
                why = classify(st.test, st)
                if why:
                    bad.append((st, why[0]))
                break
    if bad:
        st, why = bad[0]
        ctx.ob("R4", "LOOP", f, _T_ONLY_MZ, False,
               f"a candidate is dropped without being put to the MZ validation, on a test (`{src(st.test)[:80]}`) computed from {why}; detection must locate every stage whose decoded "
               "content starts with a PE image via the marker, the size field, or both", st)
    else:
        ctx.undecided("R4", "LOOP", f, _T_ONLY_MZ, "a candidate can be dropped without being put to the MZ validation; the test that decides it is not computed from the header words, the "
                      "size-relation candidates or the vote count - whether it can turn a valid stage away is not decided", lp)


def r4(ctx):
    f = ctx.repo.func(f"{CLS}.from_file")
    fn = f.node
    cfg = ctx.cfg(f)
    fv = FuncView.of(fn)
    ps = params(fn)
    fh, mr = (ps[1], ps[2]) if len(ps) > 2 else (None, None)
    scope = [f] + _helpers(ctx, f)  # from_file and the helpers of this module it delegates to
    nn = [(g, c) for g in scope for c in fn_calls(g.node) if _resolves_to(ctx, g, c, "xordecode.iter_nonce_offsets")]
    sc = [(g, c) for g in scope for c in fn_calls(g.node) if _resolves_to(ctx, g, c, "utils.iter_find_needle")]

    def role(g, e) -> Optional[str]:
        """the from_file-level name an expression of (helper) g is a copy of: helper parameters are mapped through the
        helper's single call site"""
        nm = _root(g.node, e) if e is not None else None
        if g.fq == f.fq or nm is None or nm not in params(g.node):
            return nm
        sites = [(h, c) for h in scope for c in fn_calls(h.node) if (_helper_of(ctx, h, c) is not None and _helper_of(ctx, h, c).fq == g.fq)]
        if len(sites) != 1:
            return None
        h, c = sites[0]
        skip = bool(params(g.node)) and params(g.node)[0] in ("self", "cls") and isinstance(c.func, ast.Attribute)
        a = bind_args(c, g.node, skip_self=skip).get(nm)
        return role(h, a) if a is not None else None

    def same(g, e, name):
        return e is not None and name is not None and role(g, e) == name

    # ---- candidate sources
    t = "iter_nonce_offsets(fh, maxrange=maxrange)"
    if len(nn) != 1 or fh is None:
        ctx.undecided("R4", "AGREE", f, t, f"{len(nn)} calls of iter_nonce_offsets: the size-relation candidate source cannot be located")
    else:
        g, c = nn[0]
        b = bind_args(c, ctx.repo.func("xordecode.iter_nonce_offsets").node)
        rs_ = b.get("real_size")
        ok = same(g, b.get("fh"), fh) and same(g, b.get("maxrange"), mr) and (rs_ is None or (isinstance(strip_cast(rs_), ast.Constant) and strip_cast(rs_).value is None))
        ctx.ob("R4", "AGREE", f, t, bool(ok), "size-relation candidates over the search range" if ok else
               f"size-relation candidates are searched with {({k: src(v) for k, v in b.items()})}: not (fh, real size of fh, maxrange)", c)
    t = "iter_find_needle(fh, marker, 0, maxrange)"
    if len(sc) != 1 or fh is None:
        ctx.undecided("R4", "AGREE", f, t, f"{len(sc)} calls of iter_find_needle: the marker candidate source cannot be located")
        ctx.undecided("R4", "AGREE", f, "marker offset + len(marker)", "the marker candidate source cannot be located")
    else:
        g, c = sc[0]
        gv = FuncView.of(g.node)
        b = bind_args(c, ctx.repo.func("utils.iter_find_needle").node)
        pnames = params(ctx.repo.func("utils.iter_find_needle").node)
        args = [b.get(p) for p in pnames[:4]] + [None] * 4
        marker = _const(ctx, f, _class_attr(ctx, f, "EOF_SHELLCODE_MARKER"))
        needle_ok = args[1] is not None and (dotted(origin(g.node, args[1])) or "").endswith(".EOF_SHELLCODE_MARKER")
        ok = same(g, args[0], fh) and needle_ok and _const(ctx, g, args[2]) == 0 and _is_int(_const(ctx, g, args[2])) and same(g, args[3], mr)
        ctx.ob("R4", "AGREE", f, t, bool(ok), "marker candidates from the start of the file within the search range" if ok else
               f"marker candidates are searched with {[src(a) for a in args[:4]]}: not (fh, EOF_SHELLCODE_MARKER, 0, maxrange)", c)
        # the element built from each hit
        t = "marker offset + len(marker)"
        elt = tgt = None
        comp = gv.enclosing(c, (ast.ListComp, ast.GeneratorExp, ast.SetComp))
        loop = gv.enclosing(c, (ast.For,))
        if comp is not None and len(comp.generators) == 1 and not comp.generators[0].ifs and isinstance(comp.generators[0].target, ast.Name):
            elt, tgt = comp.elt, comp.generators[0].target.id
        elif comp is None and loop is not None and isinstance(loop.target, ast.Name) and any(c is x for x in ast.walk(loop.iter)):
            apps = [x for x in ast.walk(loop) if isinstance(x, ast.Call) and isinstance(x.func, ast.Attribute) and x.func.attr in ("append", "add") and len(x.args) == 1]
            if len(apps) == 1:
                elt, tgt = apps[0].args[0], loop.target.id
        par = gv.parent.get(id(c))
        direct = elt is None and comp is None and not (loop is not None and any(c is x for x in ast.walk(loop.iter))) \
            and ((isinstance(par, ast.Call) and isinstance(par.func, ast.Attribute) and par.func.attr in ("extend", "update") and any(c is a for a in par.args))
                 or (isinstance(par, ast.AugAssign) and par.value is c) or (isinstance(par, ast.BinOp) and isinstance(par.op, ast.Add)))
        if direct and isinstance(marker, bytes):
            ctx.ob("R4", "AGREE", f, t, False, f"the marker hits are used as candidates unchanged (`{src(par)[:70]}`); required offset + len(marker) = offset + {len(marker)}", c)
        elif elt is None or not isinstance(marker, bytes):
            ctx.undecided("R4", "AGREE", f, t, "cannot locate the candidate built from each marker hit")
        else:
            p = _poly(ctx, g, elt, stop=frozenset({tgt}))
            _emit(ctx, "R4", "AGREE", f, t, _verdict(p, SymPoly.atom(tgt) + SymPoly.const(len(marker))),
                  "the encoded region starts right after the end-of-stub marker", f"marker candidates are {p}; required offset + len(marker) = offset + {len(marker)}")
    marker = _class_attr(ctx, f, "EOF_SHELLCODE_MARKER")
    ctx.ob("R4", "TABLE", "xordecode.py::XorEncodedFile", "EOF_SHELLCODE_MARKER", _const(ctx, f, marker) == b"\xff\xff\xff", f"marker is {_const(ctx, f, marker)!r} (ff ff ff)")
    # ---- returns: validated, rewound, freshly built
    for r in cfg.return_stmts():
        if r.value is None or (isinstance(r.value, ast.Constant) and r.value.value is None):
            ctx.ob("R4", "DOM", f, "return None", False, "from_file returns None instead of a validated view / raising ValueError", r)
            continue
        v, detail = _validated_return(ctx, f, r)
        _emit(ctx, "R4", "DOM", f, "return " + src(r.value), v, detail, detail, r)
    # the search range bounds where the *encoded region* may start in the raw file; the PE check on the decoded stream
    # is a different coordinate space and keeps find_mz_offset's own default range (a narrower one rejects valid stages)
    callee = ctx.repo.func("pe.find_mz_offset").node
    dfl = param_defaults(callee)
    mz_calls = []
    for g in [f] + _helpers(ctx, f):
        mz_calls += [(g, c) for c in fn_calls(g.node) if _resolves_to(ctx, g, c, "pe.find_mz_offset") and not any(c is x for _g, x in mz_calls)]
    for g, c in mz_calls:
        b = bind_args(c, callee)
        extra = sorted({n.id for a in list(c.args[1:]) + [k.value for k in c.keywords] for n in ast.walk(a) if isinstance(n, ast.Name)})
        narrowed, unknown = [], []
        for p in params(callee)[1:]:
            have, d = _const(ctx, g, b.get(p)), _c(dfl.get(p))
            if b.get(p) is dfl.get(p):
                continue
            if have is None:
                (narrowed if any(isinstance(n, ast.Name) and n.id in params(g.node) for n in ast.walk(origin(g.node, b.get(p)) if b.get(p) is not None else ast.Pass())) else unknown).append(p)
            elif (p == "maxrange" and _is_int(have) and _is_int(d) and have < d) or (p != "maxrange" and have != d):
                narrowed.append(p)
        v = "bad" if narrowed else ("unknown" if unknown else "ok")
        _emit(ctx, "R4", "AGREE", f, "find_mz_offset(<candidate>) with its default range", v, "the candidate is validated over find_mz_offset's default range",
              f"validation range overridden ({narrowed or unknown} from {extra}): a valid stage whose PE header lies beyond it is rejected", c)
    # ---- exhaustion
    raises = cfg.raise_stmts()
    reach = [r for r in raises if cfg.reachable(cfg.node(r))]
    ve = [r for r in reach if raise_class(r) == "ValueError"]
    other = [r for r in reach if raise_class(r) != "ValueError" and r.exc is not None]
    ctx.ob("R4", "EXIT", f, "fall-through raises ValueError", bool(ve) and not other and not cfg.falls_off_end(),
           "inputs without a valid candidate are rejected with ValueError" if ve and not other and not cfg.falls_off_end() else
           f"ValueError raised={bool(ve)}; other exceptions raised={[raise_class(r) for r in other]}; can fall off the end (returns None)={cfg.falls_off_end()}")
    _r4_scan_range(ctx)
    # ---- the candidate loop: both sources, most common first
    t = "candidates = marker + size-relation offsets"
    builds = [c for c in fn_calls(fn) if _constructs(ctx, f, c)]
    loops = []
    for c in builds:
        lp = fv.enclosing(c, (ast.For,))
        if lp is not None and not any(lp is x for x in loops):
            loops.append(lp)
    if len(loops) != 1 or not cfg.has(loops[0]):
        ctx.undecided("R4", "AGREE", f, t, "cannot locate the loop that tries the candidates (the loop that constructs the XorEncodedFile views)")
        ctx.undecided("R4", "LOOP", f, "a rejected candidate does not end the search", "cannot locate the loop that tries the candidates")
        ctx.undecided("R4", "LOOP", f, _T_ONLY_MZ, "cannot locate the loop that tries the candidates")
        return
    lp = loops[0]
    # ---- a candidate that fails the MZ validation must not end the search: from the statement that validates a candidate,
    # on the CFG specialised to "the validation failed", every way on (other than returning a view, which the DOM
    # obligations cover) leads to the next candidate
    from csverif.cfg import RAISE

    anchors = []
    for c in [x for x in ast.walk(lp) if isinstance(x, ast.Call)]:
        st = fv.stmt_of(c)
        if st is None or not cfg.has(st):
            continue
        target = st.targets[0].id if isinstance(st, ast.Assign) and len(st.targets) == 1 and isinstance(st.targets[0], ast.Name) else None
        keys: Dict[str, bool] = {}
        if _resolves_to(ctx, f, c, "pe.find_mz_offset"):
            par = fv.parent.get(id(c))
            if isinstance(par, ast.Compare) and par.left is c and len(par.ops) == 1 and isinstance(par.comparators[0], ast.Constant) and par.comparators[0].value is None \
                    and isinstance(par.ops[0], (ast.Is, ast.IsNot, ast.Eq, ast.NotEq)):
                txt = src(c)
                keys.update({f"{txt} is None": True, f"{txt} is not None": False, f"{txt} == None": True, f"{txt} != None": False})
                if target is not None and st.value is par:
                    keys[target] = isinstance(par.ops[0], (ast.Is, ast.Eq))  # the flag's value when the validation failed
            elif target is not None and strip_cast(st.value) is c:
                keys.update({f"{target} is None": True, f"{target} is not None": False, f"{target} == None": True, f"{target} != None": False})
        elif _helper_of(ctx, f, c) is not None and _constructs(ctx, f, c) and target is not None and st.value is c:
            # a helper that returns a validated view or None
            keys.update({f"{target} is None": True, f"{target} is not None": False, f"{target} == None": True, f"{target} != None": False, target: False})
        if keys:
            anchors.append((st, keys))
    tl = "a rejected candidate does not end the search"
    if not anchors:
        ctx.undecided("R4", "LOOP", f, tl, "no `find_mz_offset(..) is None` validation located inside the candidate loop")
        ctx.undecided("R4", "LOOP", f, _T_ONLY_MZ, "no `find_mz_offset(..) is None` validation located inside the candidate loop")
    else:
        header = cfg.node(lp)
        rets = [cfg.node(r) for r in cfg.return_stmts()]
        ends = []
        for st, keys in anchors:
            spec = specialise(cfg, keys)
            if spec.reaches(cfg.node(st), RAISE, avoiding=[header] + rets) or spec.reaches(cfg.node(st), EXIT, avoiding=[header] + rets):
                ends.append(st)
        ctx.ob("R4", "LOOP", f, tl, not ends, "after a candidate without a valid MZ header the next candidate is tried" if not ends else
               "a candidate that fails the MZ validation ends the search (break/raise): a valid candidate ranked behind it is never tried and the stage is rejected", ends[0] if ends else lp)
        _r4_only_validation_rejects(ctx, f, lp, [st for st, _k in anchors], builds)
    known = ("xordecode.iter_nonce_offsets", "utils.iter_find_needle", "pe.find_mz_offset")
    grown = [c for c in fn_calls(fn) if isinstance(c.func, ast.Attribute) and c.func.attr in ("append", "extend", "update", "add") and isinstance(c.func.value, ast.Name)]
    stores = [st for st in statements(fn) if isinstance(st, (ast.Assign, ast.AugAssign))
              and any(isinstance(tg, ast.Subscript) and isinstance(tg.value, ast.Name) for tg in (st.targets if isinstance(st, ast.Assign) else [st.target]))]

    def provenance(e0, at0) -> List[Tuple[object, ast.Call]]:
        """(function, call) pairs the value of expression e0 (evaluated at at0) is computed from: reaching definitions,
        in-place growth of the collections involved (append/extend/update, item stores) and helpers of this module"""
        seen_calls: List[Tuple[object, ast.Call]] = []
        seen_names: set = set()

        def see(g, c, depth=0):
            seen_calls.append((g, c))
            # a package helper the normaliser could not inline: its calls contribute too
            cal = ctx.rs.resolve_call(g, c)
            if cal.kind == "func" and cal.func is not None and cal.func.fq not in known and cal.func.module.name == "xordecode" and depth < 3 and cal.func.fq != f.fq:
                for c2 in fn_calls(cal.func.node):
                    if not any(c2 is x for _g, x in seen_calls):
                        see(cal.func, c2, depth + 1)

        def flow(e, at, depth=0):
            if depth > 8 or e is None:
                return
            for x in ast.walk(e):
                if isinstance(x, ast.Call):
                    if not any(x is y for _g, y in seen_calls):
                        see(f, x)
                elif isinstance(x, ast.Name) and isinstance(x.ctx, ast.Load) and x.id not in ps:
                    seen_names.add(x.id)
                    for s_, v in reaching_defs(ctx, f, x.id, at):
                        if v is not None:
                            flow(v, s_, depth + 1)
                        elif isinstance(s_, ast.AugAssign):
                            flow(s_.value, s_, depth + 1)
                        elif isinstance(s_, ast.For):
                            flow(s_.iter, s_, depth + 1)

        flow(e0, at0)
        done = set()
        for _ in range(3):
            for c in grown:
                if any(c is x for _g, x in seen_calls) or c.func.value.id not in seen_names:
                    continue
                see(f, c)
                for a in c.args:
                    flow(a, c)
            for st in stores:  # tally[key] = ..
                for tg in (st.targets if isinstance(st, ast.Assign) else [st.target]):
                    if isinstance(tg, ast.Subscript) and isinstance(tg.value, ast.Name) and tg.value.id in seen_names and id(st) not in done:
                        done.add(id(st))
                        flow(tg.slice, st)
                        flow(st.value, st)
        return seen_calls

    def sources(calls):
        return (any(_resolves_to(ctx, g, c, "xordecode.iter_nonce_offsets") for g, c in calls), any(_resolves_to(ctx, g, c, "utils.iter_find_needle") for g, c in calls))

    seen_calls = provenance(lp.iter, lp)
    has_nn, has_sc = sources(seen_calls)
    ranked = any(isinstance(c.func, ast.Attribute) and c.func.attr == "most_common" for _g, c in seen_calls)
    counted = any((dotted(c.func) or "").split(".")[-1] == "Counter" for _g, c in seen_calls)
    # duplicates are the votes: removing them after the two sources were merged makes every count 1
    for g, c in seen_calls:
        if g is f and (dotted(c.func) or "") in ("set", "frozenset", "dict.fromkeys") and c.args and cfg.has(fv.stmt_of(c)) and all(sources(provenance(c.args[0], fv.stmt_of(c)))) \
                and has_nn and has_sc and ranked and counted:
            ctx.ob("R4", "AGREE", f, t, False, f"the merged candidates are de-duplicated (`{src(c)[:60]}`) before they are counted: every count is 1 and the offset confirmed by "
                   "both marker and size field is no longer tried first", c)
            return
    if has_nn and has_sc and ranked and counted:
        ctx.ob("R4", "AGREE", f, t, True, "both candidate sources are tried, the most common candidate first", lp)
    elif not (has_nn and has_sc):
        ctx.ob("R4", "AGREE", f, t, False, f"candidate loop does not range over both sources (size relation={has_nn}, end-of-stub marker={has_sc})", lp)
    elif not counted and not ranked and not any((dotted(c.func) or "").split(".")[-1] in ("sorted", "sort", "nlargest", "max") for _g, c in seen_calls):
        ctx.ob("R4", "AGREE", f, t, False, "candidates are not ranked by how many methods found them (no Counter(..).most_common()): an offset confirmed by both marker and size field is not tried first", lp)
    else:
        ctx.undecided("R4", "AGREE", f, t, "candidates are counted but not iterated with most_common(): the ranking cannot be followed", lp)
